"""Reference models in plain numpy/scipy (DESIGN 4.1). They never import xeofs."""

from __future__ import annotations

import numpy as np
import scipy.linalg
import scipy.signal

F32EPS = float(np.finfo(np.float32).eps)


def preprocess(X, center=True, standardize=False, coslat=None, weights=None):
    """(X - mean)/std * sqrt(cos(lat)) * w on an n x p matrix; coslat / weights are p-vectors or None."""
    X = np.asarray(X)
    M = X.copy()
    if center:
        M = M - X.mean(axis=0, keepdims=True)
    if standardize:
        sd = np.sqrt(np.mean(np.abs(X - X.mean(axis=0, keepdims=True)) ** 2, axis=0))
        M = M / np.maximum(sd, F32EPS)
    if coslat is not None:
        M = M * np.asarray(coslat)[None, :]
    if weights is not None:
        M = M * np.asarray(weights)[None, :]
    return M


def sqrt_coslat(lats_deg):
    return np.sqrt(np.clip(np.cos(np.deg2rad(np.asarray(lats_deg, dtype=float))), 0, 1))


def analytic_centered(M):
    """Analytic signal of each column; the mean of its IMAGINARY part is removed (the real part is the input itself:
    whether it is centred is the `center` option's business)."""
    H = scipy.signal.hilbert(np.asarray(M).real, axis=0)
    return H - 1j * H.imag.mean(axis=0, keepdims=True)


def delay_embed(M, tau, embedding):
    """rows t = 0..n-1-(embedding-1)*tau ; columns ordered (embedding index, feature)."""
    n = M.shape[0]
    cut = (embedding - 1) * tau
    blocks = [M[i * tau : n - cut + i * tau, :] for i in range(embedding)]
    return np.concatenate(blocks, axis=1)


def eig_cov(M, ddof=1):
    """descending eigenvalues of M^H M / (N - ddof)."""
    N = M.shape[0]
    C = M.conj().T @ M / (N - ddof)
    w = np.linalg.eigvalsh((C + C.conj().T) / 2)
    return w[::-1]


def svd(M):
    U, s, Vh = np.linalg.svd(M, full_matrices=False)
    return U, s, Vh.conj().T


def frac_power_psd(C, a):
    """C^a for Hermitian PSD C through eigh (zero eigenvalues stay zero for negative a -> pseudo power)."""
    w, Q = np.linalg.eigh((C + C.conj().T) / 2)
    w = np.clip(w, 0, None)
    with np.errstate(divide="ignore"):
        wa = np.where(w > w.max() * 1e-13, w**a, 0.0)
    return (Q * wa) @ Q.conj().T
