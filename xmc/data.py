"""Numeric catalogue (DESIGN 3.1) and label-keyed helpers (DESIGN 4.2). numpy/xarray only; no xeofs."""

from __future__ import annotations

import itertools

import numpy as np
import xarray as xr

SPECTRA = ("geometric", "flat_pair", "clustered", "rank_def", "near_equal_var")
EXTRA_SPECTRA = ("slow", "steep")  # requested by name only, not part of the loops over SPECTRA


def spectrum(kind, r):
    i = np.arange(r, dtype=float)
    if kind == "geometric":
        s = 8.0 * 2.0 ** (-i)
    elif kind == "flat_pair":
        s = 8.0 * 2.0 ** (-i)
        if r >= 2:
            s[1] = s[0]
    elif kind == "clustered":
        s = 8.0 * 2.0 ** (-i)
        if r >= 2:
            s[1] = s[0] * (1 - 1e-4)
    elif kind == "rank_def":
        s = 8.0 * 2.0 ** (-i)
        nz = max(1, r - max(1, r // 3))
        s[nz:] = 0.0
    elif kind == "near_equal_var":
        s = 4.0 * (1.0 - 0.05 * i / max(1, r - 1))
    elif kind == "steep":  # one decade per mode: a wide dynamic range (condition 10^(r-1)), every gap a factor of ten
        s = 8.0 * 10.0 ** (-i)
    elif kind == "slow":  # slowly decaying, every gap >= 1 %: a truncated sketch of it is genuinely lossy (not in SPECTRA: requested by name)
        s = 4.0 / (1.0 + 0.25 * i)
    else:
        raise ValueError(kind)
    return s


def _orth(rng, n, r, complex_, perp_ones):
    A = rng.standard_normal((n, r))
    if complex_:
        A = A + 1j * rng.standard_normal((n, r))
    if perp_ones:
        A = A - A.mean(axis=0, keepdims=True)
    Q, _ = np.linalg.qr(A)
    if perp_ones:  # re-project for exactness
        Q = Q - Q.mean(axis=0, keepdims=True)
        Q, _ = np.linalg.qr(Q)
    return Q


def make_matrix(n, p, spec="geometric", scale=1.0, complex_=False, seed=0, mean=True, salt=0):
    """n x p matrix whose centred part is U diag(s) V^H with U ⟂ 1 (rank min(n-1,p)), plus a mean row."""
    rng = np.random.default_rng([int(seed), n, p, (SPECTRA + EXTRA_SPECTRA).index(spec), int(complex_), int(salt)])
    r = min(n - 1, p)
    s = spectrum(spec, r)
    U = _orth(rng, n, r, complex_, True)
    V = _orth(rng, p, r, complex_, False)
    X = (U * s) @ V.conj().T
    if mean:
        mu = rng.standard_normal(p) * 3.0
        if complex_:
            mu = mu + 1j * rng.standard_normal(p)
        X = X + mu[None, :]
    return X * scale


def rank_of(n, p, spec, centered=True):
    r = min(n - 1 if centered else n, p)
    s = spectrum(spec, min(n - 1, p))
    return int(min(r, np.sum(s > 0)))


# ----------------------------------------------------------------------------- xarray builders


def da_2d(M, sample="time", feature="x", scoord=None, fcoord=None, name="data"):
    n, p = M.shape
    return xr.DataArray(
        M,
        dims=(sample, feature),
        coords={sample: np.arange(n) if scoord is None else scoord, feature: np.arange(p) * 10 if fcoord is None else fcoord},
        name=name,
    )


def da_grid(M, nlat, nlon, lats=None, lons=None, sample="time", latname="lat", lonname="lon", name="data"):
    """n x (nlat*nlon) -> (time, lat, lon); column j = lat j//nlon, lon j%nlon."""
    n, p = M.shape
    assert p == nlat * nlon
    lats = np.linspace(-60, 60, nlat) if lats is None else np.asarray(lats)
    lons = np.arange(nlon) * 30.0 if lons is None else np.asarray(lons)
    return xr.DataArray(
        M.reshape(n, nlat, nlon), dims=(sample, latname, lonname), coords={sample: np.arange(n), latname: lats, lonname: lons}, name=name
    )


def to_matrix(obj, row_dims, col_dims, ref):
    """Label-keyed flattening: reindex `obj` (DataArray) to the label order of `ref` (mapping dim->labels)
    and return a 2-D array rows=row_dims (C-order product), cols=col_dims. Raises if a label is missing
    or the dimension set differs."""
    row_dims, col_dims = list(row_dims), list(col_dims)
    want = set(row_dims) | set(col_dims)
    if set(obj.dims) != want:
        raise LabelError("dims %s != expected %s" % (sorted(map(str, obj.dims)), sorted(map(str, want))))
    for d in want:
        if d not in obj.coords:
            raise LabelError("dim %s has no coordinate" % d)
        have = list(obj.coords[d].values.tolist())
        exp = list(np.asarray(ref[d]).tolist())
        if len(have) != len(exp) or set(map(_h, have)) != set(map(_h, exp)):
            raise LabelError("labels of %s differ: have %s expected %s" % (d, have[:8], exp[:8]))
    o = obj.sel({d: np.asarray(ref[d]) for d in want}).transpose(*row_dims, *col_dims)
    v = np.asarray(o.values)
    nr = int(np.prod([len(ref[d]) for d in row_dims])) if row_dims else 1
    return v.reshape(nr, -1)


def _h(x):
    try:
        hash(x)
        return x
    except TypeError:
        return repr(x)


class LabelError(Exception):
    pass


# ----------------------------------------------------------------------------- numeric comparisons


def relerr(a, b, scale=None):
    a = np.asarray(a)
    b = np.asarray(b)
    if a.shape != b.shape:
        return np.inf
    if a.size == 0:
        return 0.0
    d = np.abs(a - b)
    if np.isnan(d).any():
        # NaN positions must coincide
        if not np.array_equal(np.isnan(np.asarray(a, dtype=complex)), np.isnan(np.asarray(b, dtype=complex))):
            return np.inf
        d = np.nan_to_num(d, nan=0.0)
    s = scale if scale is not None else max(np.nanmax(np.abs(b)) if b.size else 0.0, 1e-300)
    return float(np.max(d) / s)


def clusters(s, gap=1e-3):
    """Group indices of a descending spectrum into clusters of relative gap < `gap` (relative to s[0])."""
    s = np.asarray(s, dtype=float)
    if s.size == 0:
        return []
    out = [[0]]
    ref = max(s[0], 1e-300)
    for i in range(1, len(s)):
        if (s[i - 1] - s[i]) / ref < gap:
            out[-1].append(i)
        else:
            out.append([i])
    return out


def projector(V):
    """Orthogonal projector onto span of columns of V (assumed orthonormal)."""
    return V @ V.conj().T


def all_perms(seq):
    return list(itertools.permutations(seq))
