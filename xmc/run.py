"""CLI: ./check <ID> quick|thorough | ./check replay <file> | ./check selfcheck"""

import os
import sys


def _assert_src():
    import xeofs

    src = os.path.realpath(os.environ.get("XEOFS_SRC", "/repo"))
    f = os.path.realpath(xeofs.__file__)
    if not f.startswith(src + os.sep):
        print("harness error: xeofs imported from %s, expected under %s" % (f, src))
        sys.exit(2)


def main(argv):
    if not argv:
        print(__doc__)
        return 2
    _assert_src()
    from . import core

    if argv[0] == "replay":
        return core.replay(argv[1])
    if argv[0] == "selfcheck":
        from . import selfcheck

        return selfcheck.main()
    prop = argv[0].upper()
    tier = argv[1] if len(argv) > 1 else os.environ.get("VERIF_TIER", "quick")
    if tier not in ("quick", "thorough"):
        print("tier must be quick or thorough")
        return 2
    seed = int(os.environ.get("VERIF_SEED", "0"))
    return core.check(prop, tier, seed)


if __name__ == "__main__":
    sys.exit(main(sys.argv[1:]))
