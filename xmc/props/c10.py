"""C10 — Named methods coincide with the general method at their special parameter values. Explorer P over pairs.

Every case fits TWO real xeofs model configurations on the same data (the "named" route and the "general" route)
and relates their results.  Seven identity families (DESIGN 5 / C10):

  named_vs_cpcca     MCA / CCA / RDA (+Complex*, Hilbert*)  vs  CPCCA(alpha = 1 / 0 / (0,1))        same route -> direct equality
  mca_self_vs_eof    MCA(X, X)                              vs  EOF(X)   (patterns; singular values = explained variances)
  complex_on_real    ComplexEOF / ComplexCPCCA / ComplexMCA on real data (float storage, and complex storage with zero
                     imaginary part)                        vs  EOF / CPCCA / MCA
  eeof_emb1          ExtendedEOF(embedding=1, tau=*)        vs  EOF
  spca_nopenalty     SparsePCA(alpha=0, beta=0), every solver (and every sketch size that spans the range)  vs  EOF
  pca_all_vs_none    use_pca=True, n_pca_modes="all" (cross-set), ExtendedEOF(n_pca_modes=p), multi.CCA(pca keeping all)
                                                            vs  no pre-reduction
  multi_vs_cross_cca multi.CCA([X, Y])                      vs  cross.CCA(X, Y)   (canonical correlations)

The only numpy reference used is the *spectrum* of the decomposed matrix (to know where degenerate clusters are, DESIGN 4.4)
and, for the last family, the textbook canonical correlations; everything else is a relation between two runs of the real code.
"""

from __future__ import annotations

import itertools
import os
import traceback
import warnings

import numpy as np

from .. import data as D
from .. import ref as R
from ..core import viol

ID = "C10"
LEVEL = "exploration"
TECHNIQUE = (
    "bounded exhaustive enumeration of (identity family x data class x n_modes x preprocessing flags x solver x pre-reduction) "
    "where every element fits the named and the general xeofs configuration on the same data and relates the two results"
)
RULE = (
    "full product, per identity family, of the model pair x shape (pair of shapes) x spectrum x n_modes in 1..max x "
    "standardize x use_coslat x weights x use_pca/n_pca_modes x solver (x alpha grid, x storage dtype, x tau, x oversample); "
    "a case is non-trivial when both routes returned and at least one non-empty modal array (components or scores) or spectrum "
    "was compared; vectors are compared across spectral gaps only, projectors inside fully retained clusters"
)
ASSUMPTIONS = [
    "the numeric catalogue (fixed spectra/shapes, orthogonal factors drawn from VERIF_SEED) stands for 'all inputs'",
    "numpy.linalg.svd / eigh are correct (used only to locate degenerate clusters and for textbook canonical correlations)",
    "alpha < 1 (whitened) pairs are enumerated on full-rank tall data only: on singular covariances the whitening itself is a pseudo-inverse convention (C16's subject)",
    "ExtendedEOF(embedding=1) is compared with EOF for center=True only (ExtendedEOF always centres its embedded matrix)",
    "randomized SparsePCA is enumerated only with sketch sizes k+oversample >= rank of the data, where the sketch is lossless",
    "canonical correlations of a fitted CCA model are observed as numpy Pearson correlations of its paired scores (normalisation-free)",
    "real data stored as complex128 reaches scipy svds(lobpcg) for truncated solvers; that route is compared at 1e-5, all others at 1e-9 (same route) / 1e-7",
]
TALLY_KEYS = ("pair", "model", "solver", "spec")
TRUSTED = ["statsmodels import shim (cross-set constructors)"]
MAX_REFUSED_FRACTION = 0.05

GRID = {1: (1, 1), 3: (3, 1), 4: (2, 2), 6: (3, 2), 9: (3, 3)}
LATS = {1: [40.0], 2: [-30.0, 50.0], 3: [-60.0, 10.0, 75.0]}
TOL_SAME = 1e-9  # same algorithmic route on both sides
TOL_DIFF = 1e-7  # different routes / randomized sketches (DESIGN 4.3)
TOL_LOBPCG = 1e-5  # complex storage through scipy svds(lobpcg): iterative, not a lossless sketch
ALPHAS = {"MCA": [1.0, 1.0], "CCA": [0.0, 0.0], "RDA": [0.0, 1.0]}
ALPHA_ARG = {"MCA": 1.0, "CCA": 0.0, "RDA": [0.0, 1.0]}  # "CPCCA with alpha = 1, 0 and (0, 1)"


# ============================================================================= constructor-parameter sweep (named_vs_cpcca)

# Every constructor parameter a named class forwards to CPCCA.__init__ is moved away from its default at least once per named
# class; the SAME keyword arguments go to the named class and to (variant)CPCCA(alpha=...).  `cases()` introspects the named
# class' signature and emits a failing "uncovered" case for any parameter this table does not move, so a parameter added
# upstream cannot be silently skipped.  Base of every variation: n_modes=1, random_state=7 (the fractional PCA pre-reduction
# draws a randomized pre-estimate), everything else at ITS DEFAULT (use_pca=True, n_pca_modes=0.999, pca_init_rank_reduction=0.3).
CTOR_BASE = {"n_modes": 1, "random_state": 7}
CTOR_VARIATIONS = [
    ("defaults_only", {}),
    ("n_modes", {"n_modes": 2, "use_pca": False}),
    ("standardize_scalar", {"standardize": True}),
    ("standardize_per_field", {"standardize": [True, False], "use_pca": False, "n_modes": 2}),
    ("use_coslat_scalar", {"use_coslat": True}),
    ("use_coslat_per_field", {"use_coslat": [False, True], "use_pca": False, "n_modes": 2}),
    ("check_nans_scalar", {"check_nans": False}),
    ("check_nans_per_field", {"check_nans": [False, True]}),
    ("use_pca_false", {"use_pca": False, "n_modes": 2}),
    ("use_pca_per_field", {"use_pca": [True, False]}),
    ("n_pca_modes_int_all", {"n_pca_modes": [2, "all"], "n_modes": 2}),
    ("n_pca_modes_fraction", {"n_pca_modes": 0.9, "pca_init_rank_reduction": 1.0, "n_modes": 2}),
    ("pca_init_rank_reduction", {"pca_init_rank_reduction": 1.0, "n_modes": 2}),
    ("pca_fraction_per_field", {"n_pca_modes": [0.999, 0.8], "pca_init_rank_reduction": [1.0, 0.75], "n_modes": 2}),
    ("pca_init_rank_reduction_randomized", {"pca_init_rank_reduction": 1.0, "n_pca_modes": 0.95, "solver": "randomized", "random_state": 11}),
    ("compute_false", {"compute": False, "use_pca": False, "n_modes": 2}),
    ("sample_name", {"sample_name": "s"}),
    ("feature_name_str", {"feature_name": "f"}),
    ("feature_name_per_field", {"feature_name": ["fx", "fy"], "sample_name": "obs", "use_pca": False, "n_modes": 2}),
    ("solver_full", {"solver": "full", "use_pca": False, "n_modes": 2}),
    ("solver_randomized", {"solver": "randomized", "use_pca": False}),
    ("random_state", {"random_state": 11, "solver": "randomized", "use_pca": False}),
    ("solver_kwargs", {"solver": "randomized", "use_pca": False, "solver_kwargs": "<per-variant>"}),
    ("padding_per_field", {"padding": [None, "exp"], "use_pca": False, "n_modes": 2}),
    ("padding_none", {"padding": None}),
    ("decay_factor", {"decay_factor": [0.5, 0.1], "use_pca": False, "n_modes": 2}),
]
# the truncated solver is sklearn randomized_svd for real data and scipy svds(lobpcg) for complex data; the values are chosen
# so that they CHANGE the numbers (a one-column sketch without power iterations / the smallest instead of the largest triplet):
# a named class that drops solver_kwargs then visibly differs from CPCCA, which receives them
SOLVER_KWARGS = {"": {"n_oversamples": 0, "n_iter": 0}, "Complex": {"which": "SM"}, "Hilbert": {"which": "SM"}}


def _ctor_cases(named, variant, shape, spec, quick):
    import inspect

    import xeofs as xe

    params = inspect.signature(getattr(xe.cross, variant + named).__init__).parameters
    defaults = {k: v.default for k, v in params.items() if k != "self" and v.kind not in (v.VAR_KEYWORD, v.VAR_POSITIONAL)}
    out, moved = [], set()
    for name, over in CTOR_VARIATIONS:
        if not set(over) <= set(defaults):
            continue  # padding / decay_factor exist on the Hilbert classes only
        kw = dict(CTOR_BASE)
        kw.update(over)
        if kw.get("solver_kwargs") == "<per-variant>":
            kw["solver_kwargs"] = SOLVER_KWARGS[variant]
        moved |= {k for k, v in kw.items() if v != defaults[k]}
        out.append(dict(pair="named_vs_cpcca", model=variant + named, named=named, variant=variant, shape=list(shape), spec=spec, ctor=name, ctor_kw=kw,
                        n_modes=kw["n_modes"], solver=kw.get("solver", "auto"), obs="core" if quick and name != "pca_init_rank_reduction" else "full"))
    for k in sorted(set(defaults) - moved):
        out.append(dict(pair="named_vs_cpcca", model=variant + named, named=named, variant=variant, shape=list(shape), spec=spec, ctor="uncovered:" + k, ctor_kw=None,
                        n_modes=1, solver="n/a", obs="core"))
    return out


# ============================================================================= enumeration


def _ff():
    return [False, True]


def _depth(quick, k, kmax, solver):
    """which observables of a cross-set pair are related: every public per-mode result ("full"), or the core ones
    (singular values, components, scores, SCF, cross-correlations).  Thorough: full for every exact-solver case."""
    if quick:
        return "full" if (k == kmax and solver == "full") else "core"
    return "full" if solver == "full" else "core"


def cases(tier, seed):
    q = tier == "quick"
    out = []
    specs_full = ["geometric", "flat_pair", "clustered", "near_equal_var"]
    specs_q = ["geometric", "flat_pair"]

    # ---------------------------------------------------------------- A  named_vs_cpcca
    tall = [(9, 4, 3)] if q else [(9, 4, 3), (12, 6, 4)]
    anyshape = [(6, 4, 6)] if q else [(6, 4, 6), (5, 6, 4)]
    for named in ("MCA", "CCA", "RDA"):
        for variant in ("", "Complex") if q else ("", "Complex", "Hilbert"):
            shapes = list(tall) + (anyshape if named == "MCA" else [])
            for (n, px, py) in shapes:
                specs = (specs_q if (q or variant) else specs_full) + (["rank_def"] if named == "MCA" else [])
                for spec in specs:
                    for std, cl in itertools.product(_ff(), _ff()):
                        if q and (variant or spec != "geometric") and (std or cl):
                            continue
                        if not q and (variant or (n, px, py) not in tall) and std != cl:
                            continue
                        for pca in (False, "all", 2):
                            if not q and variant and pca == 2 and spec != "geometric":
                                continue
                            if n - 1 < max(px, py) and named != "MCA":
                                continue
                            kmax = min(px, py) if pca != 2 else 2
                            for k in range(1, kmax + 1):
                                for solver in ("full", "randomized") if q else ("full", "auto", "randomized"):
                                    if variant and solver == "randomized" and k >= kmax:
                                        continue  # scipy svds documents k < min(shape)
                                    if q and variant and solver != "full" and pca != "all":
                                        continue
                                    if variant == "Hilbert" and solver == "randomized":
                                        continue
                                    out.append(dict(pair="named_vs_cpcca", model=variant + named, named=named, variant=variant, shape=[n, px, py], spec=spec,
                                                    standardize=std, coslat=cl, weights=False, use_pca=pca, n_modes=k, solver=solver,
                                                    obs=_depth(q, k, kmax, solver)))

    for named in ("MCA", "CCA", "RDA"):
        for variant in ("", "Complex", "Hilbert"):
            for shape in ([(9, 4, 3)] if q else [(9, 4, 3), (12, 6, 4)]):
                for spec in (["geometric"] if q else ["geometric", "flat_pair"]):
                    out.extend(_ctor_cases(named, variant, shape, spec, q))

    # ---------------------------------------------------------------- B  mca_self_vs_eof
    for (n, p) in ([(6, 4), (4, 6), (12, 6)] if q else [(8, 1), (6, 4), (4, 6), (9, 6), (12, 6)]):
        for spec in (["geometric", "flat_pair", "rank_def"] if q else list(D.SPECTRA)):
            for std, cl, w in itertools.product(_ff(), _ff(), _ff()):
                if q and sum((std, cl, w)) > 1 and not ((n, p) == (12, 6) and std and cl and w):
                    continue
                for pca in (False, "all"):
                    for k in range(1, min(n, p) + 1):
                        for solver in ("full", "auto", "randomized"):
                            if q and solver == "auto" and spec != "geometric":
                                continue
                            if q and solver != "full" and pca and (std or cl or w):
                                continue
                            out.append(dict(pair="mca_self_vs_eof", model="MCA", shape=[n, p], spec=spec, standardize=std, coslat=cl, weights=w,
                                            use_pca=pca, n_modes=k, solver=solver))

    # ---------------------------------------------------------------- C  complex_on_real
    for storage in ("float", "complex_zero_imag"):
        # single-set
        for (n, p) in ([(6, 4), (4, 6)] if q else [(8, 1), (6, 4), (4, 6), (12, 6)]):
            for spec in (["geometric", "flat_pair", "rank_def"] if q else list(D.SPECTRA)):
                for c, std, cl, w in itertools.product([True, False], _ff(), _ff(), _ff()):
                    if (q or storage == "float") and sum((not c, std, cl, w)) > 1:
                        continue  # float storage is the identical code path: single flags suffice
                    for k in range(1, min(n, p) + 1):
                        for solver in ("full", "auto", "randomized"):
                            if storage != "float" and solver == "randomized" and k >= min(n, p):
                                continue  # scipy svds documents k < min(shape)
                            if q and solver == "auto":
                                continue
                            out.append(dict(pair="complex_on_real", model="ComplexEOF", base="EOF", storage=storage, shape=[n, p], spec=spec, center=c,
                                            standardize=std, coslat=cl, weights=w, n_modes=k, solver=solver))
        # cross-set
        for base in ("CPCCA", "MCA"):
            for (n, px, py) in ([(9, 4, 3)] if q else [(9, 4, 3), (12, 6, 4)]):
                for spec in (["geometric"] if (q or (n, px, py) != (9, 4, 3)) else specs_full):
                    for alpha in ([None] if base == "MCA" else [1.0, 0.5, 0.0, [0.0, 1.0], [0.3, 0.7]]):
                        for std, cl in itertools.product(_ff(), _ff()):
                            if q and (std or cl) and alpha not in (None, 0.5):
                                continue
                            if (std and cl) or ((std or cl) and (n, px, py) != (9, 4, 3)):
                                continue
                            for pca in (False, "all"):
                                for k in range(1, min(px, py) + 1):
                                    for solver in ("full", "randomized") if q else ("full", "auto", "randomized"):
                                        if storage != "float" and solver == "randomized" and k >= min(px, py):
                                            continue
                                        if q and solver != "full" and (std or cl or pca):
                                            continue
                                        out.append(dict(pair="complex_on_real", model="Complex" + base, base=base, storage=storage, shape=[n, px, py], spec=spec,
                                                        alpha=alpha, standardize=std, coslat=cl, weights=False, use_pca=pca, n_modes=k, solver=solver,
                                                        obs=_depth(q, k, min(px, py), solver)))

    # ---------------------------------------------------------------- D  eeof_emb1
    for tau in (1, 2) if q else (1, 2, 3):
        for (n, p) in ([(6, 4), (12, 6)] if q else [(8, 1), (6, 4), (4, 6), (9, 6), (12, 6)]):
            for spec in (["geometric", "rank_def"] if q else list(D.SPECTRA)):
                for std, cl, w in itertools.product(_ff(), _ff(), _ff()):
                    if q and sum((std, cl, w)) > 1:
                        continue
                    for npca in (None, "p"):
                        if npca == "p" and p > n:
                            continue
                        for k in range(1, min(n, p) + 1):
                            for solver in ("full", "auto") if q else ("full", "auto", "randomized"):
                                if q and (tau != 1 or npca) and (k not in (1, min(n, p)) or solver != "full"):
                                    continue
                                if not q and (tau != 1 or npca) and solver != "full":
                                    continue
                                if not q and tau != 1 and npca and sum((std, cl, w)) > 1:
                                    continue
                                out.append(dict(pair="eeof_emb1", model="ExtendedEOF", tau=tau, embedding=1, n_pca_modes=npca, shape=[n, p], spec=spec,
                                                center=True, standardize=std, coslat=cl, weights=w, n_modes=k, solver=solver))

    # ---------------------------------------------------------------- E  spca_nopenalty
    for (n, p) in ([(6, 4), (4, 6), (12, 6)] if q else [(8, 1), (6, 4), (4, 6), (9, 6), (12, 6)]):
        for spec in (["geometric", "flat_pair", "rank_def"] if q else list(D.SPECTRA)):
            for c, std, cl, w in itertools.product([True, False], _ff(), _ff(), _ff()):
                if q and sum((not c, std, cl, w)) > 1:
                    continue
                r_eff = min(D.rank_of(n, p, spec, centered=True) + (0 if c else 1), n, p)
                for k in range(1, min(n, p) + 1):
                    for solver in ("full", "auto", "randomized"):
                        if q and solver == "auto" and (spec != "geometric" or std or cl or w):
                            continue
                        overs = [10]
                        if solver == "randomized":
                            # every sketch size that still spans the range of the data: k+oversample in r_eff..min(n,p), and the default
                            overs = sorted({10} | {m - k for m in range(max(r_eff, k), min(n, p) + 1)})
                            if sum((not c, std, cl, w)) > 1:
                                overs = sorted({10, min(n, p) - k})
                            if q:
                                overs = sorted({10, min(n, p) - k, max(r_eff, k) - k}) if not (std or cl or w) else [10, min(n, p) - k]
                        for ov in overs:
                            out.append(dict(pair="spca_nopenalty", model="SparsePCA", shape=[n, p], spec=spec, center=c, standardize=std, coslat=cl, weights=w,
                                            n_modes=k, solver=solver, oversample=ov))
                            # the row-blocked sketch (n_blocks > 1) is the same sketch computed block by block - also when
                            # the sample count is not a multiple of the number of blocks
                            if solver == "randomized" and ov == min(n, p) - k and not (std or cl or w):
                                for nb in (2, 3):
                                    out.append(dict(out[-1], n_blocks=nb))

    # ---------------------------------------------------------------- F  pca_all_vs_none
    for cls in ("CPCCA", "MCA", "CCA", "RDA", "ComplexCPCCA", "ComplexMCA", "ComplexCCA", "ComplexRDA"):
        cplx = cls.startswith("Complex")  # genuinely complex fields: the PCA basis V is complex, conjugates matter
        base = cls[7:] if cplx else cls
        shapes = [(9, 4, 3)] if (q or cplx) else [(9, 4, 3), (12, 6, 4)]
        if base == "MCA":
            shapes = shapes + [(6, 4, 6)] + ([] if (q or cplx) else [(5, 6, 4)])
        for (n, px, py) in shapes:
            for spec in ((specs_q if q else specs_full) + (["rank_def"] if base == "MCA" else [])):
                if cplx and spec not in ("geometric", "flat_pair", "rank_def"):
                    continue
                for alpha in ([1.0, 0.5, 0.0, [0.0, 1.0], [0.3, 0.7]] if base == "CPCCA" else [None]):
                    if base == "CPCCA" and n - 1 < max(px, py):
                        continue
                    if cplx and q and alpha not in (None, 0.5, [0.0, 1.0]):
                        continue
                    for std, cl in itertools.product(_ff(), _ff()):
                        if q and (std and cl):
                            continue
                        if cplx and (std != cl or (q and std)):
                            continue
                        for k in range(1, min(px, py) + 1):
                            for solver in ("full", "randomized") if q else ("full", "auto", "randomized"):
                                if q and solver != "full" and (std or cl):
                                    continue
                                if cplx and solver == "randomized" and k >= min(px, py):
                                    continue  # scipy svds documents k < min(shape)
                                if cplx and q and solver != "full" and spec != "geometric":
                                    continue
                                out.append(dict(pair="pca_all_vs_none", model=cls, shape=[n, px, py], spec=spec, alpha=alpha, standardize=std, coslat=cl,
                                                weights=False, n_modes=k, solver=solver, obs=_depth(q, k, min(px, py), solver)))
    for tau in (1, 2):
        for emb in (2, 3):
            for (n, p) in ([(12, 4)] if q else [(12, 4), (12, 6), (9, 6)]):
                for spec in (["geometric"] if q else ["geometric", "flat_pair", "rank_def"]):
                    for std, w in itertools.product(_ff(), _ff()):
                        nrow = n - (emb - 1) * tau
                        for k in range(1, min(nrow, p * emb) + 1):
                            if q and k > 3:
                                continue
                            for solver in ("full",) if q else ("full", "auto"):
                                out.append(dict(pair="pca_all_vs_none", model="ExtendedEOF", tau=tau, embedding=emb, shape=[n, p], spec=spec, center=True,
                                                standardize=std, coslat=False, weights=w, n_modes=k, solver=solver))
    # views of unequal width in BOTH orders (small first / large first): per-view quantities (retained PCA modes, splits of
    # the stacked eigenvectors) must be taken from the right view
    for (n, px, py) in ([(9, 4, 3), (9, 3, 4)] if q else [(9, 4, 3), (9, 3, 4), (12, 6, 4), (12, 4, 6), (12, 4, 4), (12, 4, 9), (12, 9, 4)]):
        for spec in (specs_q if q else specs_full):
            for cl in _ff():
                for k in range(1, min(px, py) + 1):
                    out.append(dict(pair="pca_all_vs_none", model="multi.CCA", shape=[n, px, py], spec=spec, standardize=False, coslat=cl, weights=False, n_modes=k,
                                    solver="n/a"))

    # ---------------------------------------------------------------- G  multi_vs_cross_cca
    for (n, px, py) in ([(9, 4, 3), (9, 3, 4), (12, 4, 6)] if q else [(9, 4, 3), (9, 3, 4), (12, 6, 4), (12, 4, 6), (12, 4, 4), (9, 3, 1), (9, 1, 3), (12, 4, 9), (12, 9, 4)]):
        for spec in (specs_q if q else specs_full):
            for cl in _ff():
                for mpca in _ff():
                    for cpca in (False, "all"):
                        for k in range(1, min(px, py) + 1):
                            for solver in ("full", "randomized") if q else ("full", "auto", "randomized"):
                                if q and solver != "full" and (cl or spec != "geometric"):
                                    continue
                                out.append(dict(pair="multi_vs_cross_cca", model="multi.CCA", shape=[n, px, py], spec=spec, standardize=False, coslat=cl, weights=False,
                                                multi_pca=mpca, use_pca=cpca, n_modes=k, solver=solver))
    return out


# ============================================================================= inputs


def _weights(seed, p, nlat, nlon, da, salt=0):
    import xarray as xr

    rng = np.random.default_rng([seed, 77, p, salt])
    wvec = 0.5 + rng.random(p) * 2.0
    wda = xr.DataArray(wvec.reshape(nlat, nlon), dims=("lat", "lon"), coords={"lat": da.lat, "lon": da.lon})
    return wvec, wda


def field(n, p, spec, seed, salt=0, lon0=0.0, cplx=False):
    X = D.make_matrix(n, p, spec, 1.0, cplx, seed, salt=salt)
    nlat, nlon = GRID[p]
    da = D.da_grid(X, nlat, nlon, lats=LATS[nlat], lons=lon0 + np.arange(nlon) * 30.0)
    return X, da


def ref_labels(da, k):
    return {"time": da.time.values, "lat": da.lat.values, "lon": da.lon.values, "mode": np.arange(1, k + 1)}


def pre(X, da, case, wvec=None, center=True):
    """independent numpy preprocessing of the plain matrix (DESIGN 4.1) — used for spectra only."""
    nlat, nlon = GRID[X.shape[1]]
    cl = np.repeat(R.sqrt_coslat(LATS[nlat]), nlon) if case.get("coslat") else None
    return R.preprocess(X, center, case.get("standardize", False), cl, wvec)


def ref_cross_spectrum(Mx, My, ax, ay):
    """singular values of Cxx^((ax-1)/2) Cxy Cyy^((ay-1)/2) on centred matrices (any common covariance normalisation: only
    ratios of the returned values are used, except for ax=ay=0 where they are the canonical correlations)."""
    N = Mx.shape[0]
    Cxx = Mx.conj().T @ Mx / (N - 1)
    Cyy = My.conj().T @ My / (N - 1)
    Cxy = Mx.conj().T @ My / (N - 1)
    Tx = np.eye(Cxx.shape[0]) if ax == 1 else R.frac_power_psd(Cxx, (ax - 1) / 2)
    Ty = np.eye(Cyy.shape[0]) if ay == 1 else R.frac_power_psd(Cyy, (ay - 1) / 2)
    return np.linalg.svd(Tx @ Cxy @ Ty, compute_uv=False)


def _norm_params(p):
    import json

    return json.loads(json.dumps(p, sort_keys=True, default=repr))


def _alpha2(a):
    if isinstance(a, (list, tuple)):
        return float(a[0]), float(a[1])
    return float(a), float(a)


# ============================================================================= comparison helpers


def mode_groups(sfull, k, gap=1e-3, zero=1e-9):
    """Partition the retained modes 0..k-1 by the FULL reference spectrum: ('single',[j]) across gaps, ('cluster',[...]) for a
    degenerate cluster that is retained completely, ('skip',[...]) for null-space modes and clusters cut by k."""
    sfull = np.asarray(sfull, dtype=float)
    out = []
    for c in D.clusters(sfull, gap):
        inside = [j for j in c if j < k]
        if not inside:
            continue
        if sfull[c[0]] <= zero * max(sfull[0], 1e-300):
            out.append(("skip", inside))
        elif len(c) == 1:
            out.append(("single", inside))
        elif c[-1] < k:
            out.append(("cluster", inside))
        else:
            out.append(("skip", inside))
    covered = sum(len(i) for _, i in out)
    if covered < k:  # k exceeds the length of the reference spectrum: those modes are null space
        out.append(("skip", list(range(covered, k))))
    return out


def _unit_factor(a, b, phase):
    """the sign (real) or unit phase (complex fields) s that best maps b onto a."""
    ip = np.vdot(b, a)
    if phase:
        return ip / abs(ip) if abs(ip) > 0 else 1.0
    return 1.0 if np.real(ip) >= 0 else -1.0


def _tie(b):
    a = np.sort(np.abs(b))[::-1]
    return a.size >= 2 and (a[0] - a[1]) <= 1e-6 * max(a[0], 1e-300)


class Cmp:
    def __init__(self, model, feats):
        self.model = model
        self.feats = feats
        self.V = []
        self.compared = 0
        self.groups = {"single": 0, "cluster": 0, "skip": 0, "sign_exact": 0}

    def bad(self, check, msg, **extra):
        f = dict(self.feats)
        f.update(extra)
        self.V.append(viol(check, self.model, msg, **f))

    def direct(self, name, a, b, tol, **extra):
        a = np.asarray(a)
        b = np.asarray(b)
        if a.shape != b.shape:
            self.bad(name, "shape %s vs %s" % (a.shape, b.shape), **extra)
            return False
        if a.size:
            self.compared += 1
        scale = max(float(np.nanmax(np.abs(b))) if b.size and np.isfinite(b).any() else 0.0, float(np.nanmax(np.abs(a))) if a.size and np.isfinite(a).any() else 0.0, 1e-300)
        e = D.relerr(a, b, scale=scale)
        if not e <= tol:
            self.bad(name, "max|named - general| / scale = %.3e (tol %.0e); named %s general %s" % (e, tol, np.ravel(a)[:4], np.ravel(b)[:4]), **extra)
            return False
        return True

    def modal(self, items, sfull, k, tol, sign_exact, joint=True, phase=False):
        """items: [(name, A, B, gram_invariant)] with columns = modes; A from the named route, B from the general route.
        One sign per mode, determined on the first item and imposed on all others (they flip together in an SVD)."""
        for kind, idx in mode_groups(sfull, k):
            self.groups[kind] += 1
            if kind == "skip":
                continue
            if kind == "single":
                self.groups["sign_exact"] += 1 if sign_exact else 0
                j = idx[0]
                a0, b0 = items[0][1][:, j], items[0][2][:, j]
                s0 = _unit_factor(a0, b0, phase)
                for (name, A, B, _) in items:
                    s = s0
                    if not joint or (phase and name.split("_")[0] in ("homogeneous", "heterogeneous", "predict")):
                        # correlation patterns carry the conjugate phase of the scores they are computed from
                        s = _unit_factor(A[:, j], B[:, j], phase)
                    scale = max(np.abs(B).max(), np.abs(A).max(), 1e-300)
                    e = np.abs(A[:, j] - s * B[:, j]).max() / scale
                    self.compared += 1
                    if not e <= tol:
                        self.bad(name, "mode %d: max|named - %s*general|/scale = %.3e (tol %.0e)" % (j + 1, "phase" if phase else "sign", e, tol))
                s = s0
                if sign_exact and (not phase) and s < 0 and not _tie(b0) and not _tie(a0):
                    self.bad("sign_of_mode", "mode %d has opposite sign although both routes fix the sign in the same space" % (j + 1))
            else:
                for (name, A, B, inv) in items:
                    if not inv:
                        continue
                    Pa = A[:, idx] @ A[:, idx].conj().T
                    Pb = B[:, idx] @ B[:, idx].conj().T
                    e = np.abs(Pa - Pb).max() / max(np.abs(Pb).max(), np.abs(Pa).max(), 1e-300)
                    self.compared += 1
                    if not e <= tol:
                        self.bad(name, "cluster %s: |A A^H - B B^H|/scale = %.3e (tol %.0e)" % ([i + 1 for i in idx], e, tol), degenerate=True)


def _raised(model, e, side, **feats):
    tb = traceback.extract_tb(e.__traceback__)
    where = ""
    for fr in reversed(tb):
        if "/xeofs/" in fr.filename:
            where = "%s:%s" % (os.path.basename(fr.filename), fr.name)
            break
    return viol("raised", model, "%s route: %s: %s\n%s" % (side, type(e).__name__, e, "".join(traceback.format_tb(e.__traceback__)[-3:])),
                exc=type(e).__name__, at=where, side=side, **feats)


def _two(model, fa, fb, **feats):
    """run both routes; an exception on either is a violation (the quantifier covers the input)."""
    res, errs = [], []
    for side, f in (("named", fa), ("general", fb)):
        try:
            with warnings.catch_warnings():
                warnings.simplefilter("ignore")
                np.random.seed(12345)  # randomized PCA pre-reduction inside cross-set models draws from the global RNG
                res.append(f())
        except Exception as e:  # noqa: BLE001
            res.append(None)
            errs.append(_raised(model, e, side, **feats))
    return res[0], res[1], errs


def _vec(da, k):
    return np.asarray(da.sel(mode=np.arange(1, k + 1)).values)


def _m(obj, rows, ref):
    return D.to_matrix(obj, rows, ["mode"], ref)


# ============================================================================= observables


def cross_obs(m, refx, refy, k, dx, dy, hilbert=False, depth="full"):
    """depth="core": singular values, components, scores, SCF, cross-correlations; "full": every public per-mode result."""
    o = {}
    o["singular_values"] = _vec(m.data["singular_values"], k)
    for nrm in (True, False):
        cx, cy = m.components(normalized=nrm)
        o["components_X/normalized=%s" % nrm] = _m(cx, ["lat", "lon"], refx)
        o["components_Y/normalized=%s" % nrm] = _m(cy, ["lat", "lon"], refy)
        sx, sy = m.scores(normalized=nrm)
        o["scores_X/normalized=%s" % nrm] = _m(sx, ["time"], refx)
        o["scores_Y/normalized=%s" % nrm] = _m(sy, ["time"], refy)
    o["squared_covariance_fraction"] = _vec(m.squared_covariance_fraction(), k)
    o["cross_correlation_coefficients"] = _vec(m.cross_correlation_coefficients(), k)
    # reconstruction of both fields from the retained modes (basis-, sign- and phase-free)
    sx, sy = m.scores(normalized=False)
    rx, ry = m.inverse_transform(X=sx, Y=sy)
    o["inverse_transform_X"] = D.to_matrix(rx, ["time"], ["lat", "lon"], refx)
    o["inverse_transform_Y"] = D.to_matrix(ry, ["time"], ["lat", "lon"], refy)
    if depth != "full":
        return o
    o["fraction_variance_X_explained_by_X"] = _vec(m.fraction_variance_X_explained_by_X(), k)
    o["fraction_variance_Y_explained_by_Y"] = _vec(m.fraction_variance_Y_explained_by_Y(), k)
    o["fraction_variance_Y_explained_by_X"] = _vec(m.fraction_variance_Y_explained_by_X(), k)
    (hx, hy), _ = m.homogeneous_patterns()
    o["homogeneous_patterns_X"] = _m(hx, ["lat", "lon"], refx)
    o["homogeneous_patterns_Y"] = _m(hy, ["lat", "lon"], refy)
    (tx, ty), _ = m.heterogeneous_patterns()
    o["heterogeneous_patterns_X"] = _m(tx, ["lat", "lon"], refx)
    o["heterogeneous_patterns_Y"] = _m(ty, ["lat", "lon"], refy)
    if not hilbert:
        tx_, ty_ = m.transform(dx, dy)
        o["transform_X"] = _m(tx_, ["time"], refx)
        o["transform_Y"] = _m(ty_, ["time"], refy)
        o["predict"] = _m(m.predict(dx), ["time"], refx)
    return o


def single_obs(m, ref, k, extra_dims=(), spca=False):
    o = {}
    rows = list(extra_dims) + ["lat", "lon"]
    o["explained_variance"] = _vec(m.explained_variance(), k)
    o["explained_variance_ratio"] = _vec(m.explained_variance_ratio(), k)
    if not spca:
        o["singular_values"] = _vec(m.singular_values(), k)
        o["components/normalized=False"] = _m(m.components(normalized=False), rows, ref)
        o["scores/normalized=True"] = _m(m.scores(normalized=True), ["time"], ref)
    o["components"] = _m(m.components(), rows, ref)
    o["scores"] = _m(m.scores(), ["time"], ref)
    return o


# ============================================================================= families


def _cross_inputs(case, seed, cplx=False):
    n, px, py = case["shape"]
    X, dx = field(n, px, case["spec"], seed, salt=0, cplx=cplx)
    Y, dy = field(n, py, case["spec"], seed, salt=1, lon0=200.0, cplx=cplx)
    return X, dx, Y, dy


def _cross_kw(case, k):
    pca = case.get("use_pca", False)
    kw = dict(n_modes=k, standardize=case["standardize"], use_coslat=case["coslat"], solver=case["solver"], random_state=7, use_pca=bool(pca))
    if pca:
        kw["n_pca_modes"] = pca
    return kw


def run_named_vs_cpcca(case, seed, feats):
    import xeofs as xe

    named, variant, k = case["named"], case["variant"], case["n_modes"]
    if "ctor" in case and case["ctor_kw"] is None:
        return dict(violations=[viol("constructor_parameter_not_varied", case["model"], "parameter %r of %s.__init__ is never moved from its default by CTOR_VARIATIONS"
                                     % (case["ctor"].split(":", 1)[1], case["model"]), **feats)], outcome="violation")
    X, dx, Y, dy = _cross_inputs(case, seed, cplx=(variant == "Complex"))
    kw = dict(case["ctor_kw"]) if "ctor" in case else _cross_kw(case, k)
    refx, refy = ref_labels(dx, k), ref_labels(dy, k)
    hil = variant == "Hilbert"

    stored = {}

    def fa():
        m = getattr(xe.cross, variant + named)(**kw)
        stored["named"] = dict(m.get_params())
        m.fit(dx, dy, dim="time")
        return cross_obs(m, refx, refy, k, dx, dy, hilbert=hil, depth=case["obs"])

    def fb():
        m = getattr(xe.cross, variant + "CPCCA")(alpha=ALPHA_ARG[named], **kw)
        stored["general"] = dict(m.get_params())
        m.fit(dx, dy, dim="time")
        return cross_obs(m, refx, refy, k, dx, dy, hilbert=hil, depth=case["obs"])

    C = Cmp(case["model"], feats)
    a, b, errs = _two(case["model"], fa, fb, **feats)
    if errs:
        return dict(violations=errs, outcome="violation")
    for key in a:
        C.direct(key.split("/")[0], a[key], b[key], TOL_SAME)
    # "subclasses pin alpha and drop it from the stored parameters": apart from alpha the two configurations are the same one.
    # This is what exposes a dropped parameter that has no numerical effect on clean data (check_nans, compute, names).
    pa, pb = _norm_params(stored["named"]), _norm_params(stored["general"])
    alpha_b = pb.pop("alpha", None)
    pa.pop("alpha", None)
    C.compared += 1
    diff = sorted(kk for kk in set(pa) | set(pb) if pa.get(kk, "<absent>") != pb.get(kk, "<absent>"))
    if diff:
        C.bad("stored_parameters", "get_params() of %s and of %sCPCCA(alpha=%s) differ in %s: %s vs %s"
              % (case["model"], variant, ALPHA_ARG[named], diff, {d: pa.get(d) for d in diff}, {d: pb.get(d) for d in diff}))
    if alpha_b != [float(x) for x in ALPHAS[named]]:
        C.bad("stored_parameters", "general route stores alpha=%s, expected %s" % (alpha_b, ALPHAS[named]))
    return _done(C, dict(k=k))


def run_mca_self_vs_eof(case, seed, feats):
    import xeofs as xe

    n, p = case["shape"]
    k = case["n_modes"]
    X, da = field(n, p, case["spec"], seed)
    nlat, nlon = GRID[p]
    wvec, wda = _weights(seed, p, nlat, nlon, da) if case["weights"] else (None, None)
    ref = ref_labels(da, k)
    kw = _cross_kw(case, k)

    def fa():
        m = xe.cross.MCA(**kw)
        m.fit(da, da.copy(), dim="time", weights_X=wda, weights_Y=wda)
        cx, cy = m.components()
        return dict(sv=_vec(m.data["singular_values"], k), cx=_m(cx, ["lat", "lon"], ref), cy=_m(cy, ["lat", "lon"], ref))

    def fb():
        e = xe.single.EOF(n_modes=k, center=True, standardize=case["standardize"], use_coslat=case["coslat"], solver=case["solver"], random_state=7)
        e.fit(da, dim="time", weights=wda)
        return dict(ev=_vec(e.explained_variance(), k), comps=_m(e.components(), ["lat", "lon"], ref))

    C = Cmp("MCA", feats)
    a, b, errs = _two("MCA", fa, fb, **feats)
    if errs:
        return dict(violations=errs, outcome="violation")
    tol = TOL_DIFF
    M = pre(X, da, case, wvec)
    sfull = np.linalg.svd(M, compute_uv=False)
    lam1 = max(sfull[0] ** 2 / (n - 1), 1e-300)
    e = np.abs(a["sv"] - b["ev"]).max() / lam1
    C.compared += 1
    if not e <= tol:
        C.bad("singular_values_vs_explained_variance", "MCA(X,X) singular values %s vs EOF explained variance %s" % (a["sv"][:4], b["ev"][:4]))
    sign_exact = not case["use_pca"]
    C.modal([("patterns_X", a["cx"], b["comps"], True)], sfull, k, tol, sign_exact)
    C.modal([("patterns_Y", a["cy"], b["comps"], True)], sfull, k, tol, sign_exact)
    return _done(C, dict(k=k, s1=float(sfull[0])))


def run_complex_on_real(case, seed, feats):
    import xeofs as xe

    k = case["n_modes"]
    cast = case["storage"] != "float"
    tol = TOL_SAME if not cast else TOL_DIFF
    if cast and case["solver"] != "full":
        # complex storage + truncated solver = scipy.sparse.linalg.svds(solver="lobpcg"), an ITERATIVE eigensolver whose
        # vectors stall around sqrt(eps) on close spectra (1.8e-7 observed on near_equal_var); every mutation moves >= 1e-2
        tol = TOL_LOBPCG
    C = Cmp(case["model"], feats)
    if case["base"] == "EOF":
        n, p = case["shape"]
        X, da = field(n, p, case["spec"], seed)
        nlat, nlon = GRID[p]
        wvec, wda = _weights(seed, p, nlat, nlon, da) if case["weights"] else (None, None)
        ref = ref_labels(da, k)
        kw = dict(n_modes=k, center=case["center"], standardize=case["standardize"], use_coslat=case["coslat"], solver=case["solver"], random_state=7)
        dac = da.astype(complex) if cast else da

        def fa():
            m = xe.single.ComplexEOF(**kw)
            m.fit(dac, dim="time", weights=wda)
            return single_obs(m, ref, k)

        def fb():
            m = xe.single.EOF(**kw)
            m.fit(da, dim="time", weights=wda)
            return single_obs(m, ref, k)

        a, b, errs = _two(case["model"], fa, fb, **feats)
        if errs:
            return dict(violations=errs, outcome="violation")
        sfull = np.linalg.svd(pre(X, da, case, wvec, center=case["center"]), compute_uv=False)
        modal_keys = [("components", True), ("scores", True), ("components/normalized=False", False), ("scores/normalized=True", True)]
    else:
        X, dx, Y, dy = _cross_inputs(case, seed)
        kw = _cross_kw(case, k)
        if case["base"] == "CPCCA":
            kw["alpha"] = case["alpha"]
        refx, refy = ref_labels(dx, k), ref_labels(dy, k)
        dxc, dyc = (dx.astype(complex), dy.astype(complex)) if cast else (dx, dy)

        def fa():
            m = getattr(xe.cross, "Complex" + case["base"])(**kw)
            m.fit(dxc, dyc, dim="time")
            return cross_obs(m, refx, refy, k, dxc, dyc, depth=case["obs"])

        def fb():
            m = getattr(xe.cross, case["base"])(**kw)
            m.fit(dx, dy, dim="time")
            return cross_obs(m, refx, refy, k, dx, dy, depth=case["obs"])

        a, b, errs = _two(case["model"], fa, fb, **feats)
        if errs:
            return dict(violations=errs, outcome="violation")
        ax, ay = _alpha2(case["alpha"] if case["base"] == "CPCCA" else 1.0)
        sfull = ref_cross_spectrum(pre(X, dx, case), pre(Y, dy, case), ax, ay)
        modal_keys = [("components_X/normalized=True", True), ("components_Y/normalized=True", True), ("scores_X/normalized=False", True), ("scores_Y/normalized=False", True),
                      ("components_X/normalized=False", False), ("components_Y/normalized=False", False), ("scores_X/normalized=True", True), ("scores_Y/normalized=True", True),
                      ("homogeneous_patterns_X", False), ("homogeneous_patterns_Y", False), ("heterogeneous_patterns_X", False), ("heterogeneous_patterns_Y", False),
                      ("transform_X", True), ("transform_Y", True), ("predict", False)]
    if not cast:
        # identical storage, identical route: everything must coincide, including signs and degenerate bases
        for key in a:
            C.direct(key.split("/")[0], a[key], b[key], tol)
    else:
        mk = {key for key, _ in modal_keys}
        for key in a:
            if key not in mk:
                C.direct(key.split("/")[0], a[key], b[key], tol)
        C.modal([(key.split("/")[0], a[key], b[key], inv) for key, inv in modal_keys if key in a], sfull, k, tol, sign_exact=True)
    return _done(C, dict(k=k))


def run_eeof_emb1(case, seed, feats):
    import xeofs as xe

    n, p = case["shape"]
    k = case["n_modes"]
    X, da = field(n, p, case["spec"], seed)
    nlat, nlon = GRID[p]
    wvec, wda = _weights(seed, p, nlat, nlon, da) if case["weights"] else (None, None)
    ref = ref_labels(da, k)
    ref2 = dict(ref)
    ref2["embedding"] = np.array([0])
    kw = dict(n_modes=k, center=True, standardize=case["standardize"], use_coslat=case["coslat"], solver=case["solver"], random_state=7)
    npca = p if case["n_pca_modes"] == "p" else None

    def fa():
        m = xe.single.ExtendedEOF(tau=case["tau"], embedding=1, n_pca_modes=npca, **kw)
        m.fit(da, dim="time", weights=wda)
        return single_obs(m, ref2, k, extra_dims=("embedding",))

    def fb():
        m = xe.single.EOF(**kw)
        m.fit(da, dim="time", weights=wda)
        return single_obs(m, ref, k)

    C = Cmp("ExtendedEOF", feats)
    a, b, errs = _two("ExtendedEOF", fa, fb, **feats)
    if errs:
        return dict(violations=errs, outcome="violation")
    tol = TOL_DIFF
    sfull = np.linalg.svd(pre(X, da, case, wvec), compute_uv=False)
    for key in ("explained_variance", "explained_variance_ratio", "singular_values"):
        C.direct(key, a[key], b[key], tol)
    C.modal([("components", a["components"], b["components"], True), ("scores", a["scores"], b["scores"], True),
             ("components", a["components/normalized=False"], b["components/normalized=False"], False),
             ("scores", a["scores/normalized=True"], b["scores/normalized=True"], True)], sfull, k, tol, sign_exact=(npca is None))
    return _done(C, dict(k=k))


def run_spca_nopenalty(case, seed, feats):
    import xeofs as xe

    n, p = case["shape"]
    k = case["n_modes"]
    X, da = field(n, p, case["spec"], seed)
    nlat, nlon = GRID[p]
    wvec, wda = _weights(seed, p, nlat, nlon, da) if case["weights"] else (None, None)
    ref = ref_labels(da, k)
    kw = dict(n_modes=k, center=case["center"], standardize=case["standardize"], use_coslat=case["coslat"], solver=case["solver"], random_state=7)
    M = pre(X, da, case, wvec, center=case["center"])
    sfull = np.linalg.svd(M, compute_uv=False)
    rank = int(np.sum(sfull > 1e-9 * sfull[0]))
    exact_route = case["solver"] == "full" or (case["solver"] == "auto" and k > int(0.8 * min(n, p)))
    sketch = k + case["oversample"]
    if not exact_route and sketch < rank:
        return dict(outcome="skipped:lossy_sketch", nontrivial=False)
    # the randomized route decomposes a sketch with min(k+oversample, n, p) rows instead of the n samples
    rows = min(sketch, n, p)
    feats = dict(feats, route="exact" if exact_route else "randomized")
    if not exact_route:
        feats["sketch"] = "one_row" if rows == 1 else ("clipped" if sketch > min(n, p) else "as_requested")

    def fa():
        m = xe.single.SparsePCA(alpha=0, beta=0, oversample=case["oversample"], n_blocks=case.get("n_blocks", 1), **kw)
        try:
            m.fit(da, dim="time", weights=wda)
        except ValueError as e:
            # blocks shorter than the sketch width cannot be stacked into equal parts: the blocked algorithm says so
            if case.get("n_blocks", 1) > 1 and "equal division" in str(e):
                return "refused"
            raise
        return single_obs(m, ref, k, spca=True)

    def fb():
        m = xe.single.EOF(**kw)
        m.fit(da, dim="time", weights=wda)
        return single_obs(m, ref, k)

    C = Cmp("SparsePCA", feats)
    a, b, errs = _two("SparsePCA", fa, fb, **feats)
    if errs:
        return dict(violations=errs, outcome="violation")
    if isinstance(a, str):
        return dict(outcome="refused:blocks_shorter_than_sketch", nontrivial=False)
    tol = TOL_DIFF
    ok = C.direct("explained_variance", a["explained_variance"], b["explained_variance"], tol)
    if ok:  # the ratio is explained_variance / total_variance: once the numerator is wrong the ratio adds no information
        C.direct("explained_variance_ratio", a["explained_variance_ratio"], b["explained_variance_ratio"], tol)
    C.modal([("components", a["components"], b["components"], True), ("scores", a["scores"], b["scores"], True)], sfull, k, tol, sign_exact=False)
    return _done(C, dict(k=k, rank=rank, sketch=sketch))


def run_pca_all_vs_none(case, seed, feats):
    import xeofs as xe

    k = case["n_modes"]
    tol = TOL_DIFF
    C = Cmp(case["model"], feats)
    if case["model"] == "ExtendedEOF":
        n, p = case["shape"]
        X, da = field(n, p, case["spec"], seed)
        nlat, nlon = GRID[p]
        wvec, wda = _weights(seed, p, nlat, nlon, da) if case["weights"] else (None, None)
        tau, emb = case["tau"], case["embedding"]
        nrow = n - (emb - 1) * tau
        ref = ref_labels(da, k)
        ref["embedding"] = np.arange(emb) * tau
        want = da.time.values[:nrow]
        kw = dict(n_modes=k, tau=tau, embedding=emb, center=True, standardize=case["standardize"], use_coslat=False, solver=case["solver"], random_state=7)

        def obs(m):
            sc = m.scores()
            sc = sc.sel(time=want) if set(want.tolist()) <= set(sc.time.values.tolist()) else sc
            r3 = dict(ref)
            r3["time"] = want
            return dict(ev=_vec(m.explained_variance(), k), evr=_vec(m.explained_variance_ratio(), k), sv=_vec(m.singular_values(), k),
                        comps=_m(m.components(), ["embedding", "lat", "lon"], ref), scores=_m(sc, ["time"], r3))

        def fa():
            m = xe.single.ExtendedEOF(n_pca_modes=p, **kw)
            m.fit(da, dim="time", weights=wda)
            return obs(m)

        def fb():
            m = xe.single.ExtendedEOF(n_pca_modes=None, **kw)
            m.fit(da, dim="time", weights=wda)
            return obs(m)

        a, b, errs = _two(case["model"], fa, fb, **feats)
        if errs:
            return dict(violations=errs, outcome="violation")
        E = R.delay_embed(pre(X, da, case, wvec), tau, emb)
        sfull = np.linalg.svd(E - E.mean(axis=0, keepdims=True), compute_uv=False)
        for key in ("ev", "evr", "sv"):
            C.direct({"ev": "explained_variance", "evr": "explained_variance_ratio", "sv": "singular_values"}[key], a[key], b[key], tol)
        C.modal([("components", a["comps"], b["comps"], True), ("scores", a["scores"], b["scores"], True)], sfull, k, tol, sign_exact=False)
        return _done(C, dict(k=k))

    cplx = case["model"].startswith("Complex")
    X, dx, Y, dy = _cross_inputs(case, seed, cplx=cplx)
    refx, refy = ref_labels(dx, k), ref_labels(dy, k)
    Mx, My = pre(X, dx, case), pre(Y, dy, case)
    if case["model"] == "multi.CCA":
        def mobs(m):
            s1, s2 = m.scores()
            S1, S2 = _m(s1, ["time"], refx), _m(s2, ["time"], refy)
            return dict(eigvals=_vec(m.eigvals, k), S1=S1, S2=S2, corr=_paircorr(S1, S2))

        def fa():
            m = xe.multi.CCA(n_modes=k, use_coslat=case["coslat"], pca=True, variance_fraction=1.0, init_pca_modes=1.0)
            m.fit([dx, dy], dim="time")
            return mobs(m)

        def fb():
            m = xe.multi.CCA(n_modes=k, use_coslat=case["coslat"], pca=False)
            m.fit([dx, dy], dim="time")
            return mobs(m)

        a, b, errs = _two(case["model"], fa, fb, **feats)
        if errs:
            return dict(violations=errs, outcome="violation")
        sfull = ref_cross_spectrum(Mx, My, 0.0, 0.0)
        C.direct("canonical_correlations", a["corr"], b["corr"], tol)
        C.direct("eigenvalues", a["eigvals"], b["eigvals"], 1e-5)  # both routes regularise with eps=1e-6 in different bases
        C.modal([("scores", _unit(a["S1"]), _unit(b["S1"]), True), ("scores", _unit(a["S2"]), _unit(b["S2"]), True)], sfull, k, 1e-5, sign_exact=False)
        return _done(C, dict(k=k))

    cls = getattr(xe.cross, case["model"])
    kw0 = dict(n_modes=k, standardize=case["standardize"], use_coslat=case["coslat"], solver=case["solver"], random_state=7)
    if cplx and case["solver"] != "full":
        tol = TOL_LOBPCG  # complex + truncated solver = scipy svds(lobpcg), iterative
    if case["model"] in ("CPCCA", "ComplexCPCCA"):
        kw0["alpha"] = case["alpha"]
        ax, ay = _alpha2(case["alpha"])
    else:
        ax, ay = ALPHAS[case["model"][7:] if cplx else case["model"]]

    def fa():
        m = cls(use_pca=True, n_pca_modes="all", **kw0)
        m.fit(dx, dy, dim="time")
        return cross_obs(m, refx, refy, k, dx, dy, depth=case["obs"])

    def fb():
        m = cls(use_pca=False, **kw0)
        m.fit(dx, dy, dim="time")
        return cross_obs(m, refx, refy, k, dx, dy, depth=case["obs"])

    a, b, errs = _two(case["model"], fa, fb, **feats)
    if errs:
        return dict(violations=errs, outcome="violation")
    sfull = ref_cross_spectrum(Mx, My, ax, ay)
    modal_keys = [("components_X/normalized=True", True), ("components_Y/normalized=True", True), ("scores_X/normalized=False", True), ("scores_Y/normalized=False", True),
                  ("components_X/normalized=False", False), ("components_Y/normalized=False", False), ("scores_X/normalized=True", True), ("scores_Y/normalized=True", True),
                  ("homogeneous_patterns_X", False), ("homogeneous_patterns_Y", False), ("heterogeneous_patterns_X", False), ("heterogeneous_patterns_Y", False),
                  ("transform_X", True), ("transform_Y", True), ("predict", False)]
    whitened = not (ax == 1 and ay == 1)
    groups = mode_groups(sfull, k)
    clean = all(kind == "single" for kind, _ in groups)
    noskip = all(kind != "skip" for kind, _ in groups)
    mk = {key for key, _ in modal_keys}
    for key in a:
        if key in mk:
            continue
        if key.startswith("inverse_transform"):
            if not noskip:
                continue  # the sum over the retained modes is basis-free only if no degenerate cluster is cut by k
        elif key != "singular_values" and not clean:
            continue  # per-mode diagnostics of a mode inside a degenerate/null cluster depend on the arbitrary basis
        C.direct(key.split("/")[0], a[key], b[key], tol)
    items = [(key.split("/")[0], a[key], b[key], inv and not whitened) for key, inv in modal_keys if key in a]
    # complex fields: a singular pair is defined up to a common unit phase (the complex counterpart of the sign)
    C.modal(items, sfull, k, tol, sign_exact=False, phase=cplx)
    return _done(C, dict(k=k))


def _paircorr(S1, S2):
    out = []
    for j in range(S1.shape[1]):
        with np.errstate(all="ignore"):
            out.append(float(np.corrcoef(np.real(S1[:, j]), np.real(S2[:, j]))[0, 1]))
    return np.asarray(out)


def _unit(S):
    nrm = np.linalg.norm(S, axis=0, keepdims=True)
    return S / np.maximum(nrm, 1e-300)


def run_multi_vs_cross_cca(case, seed, feats):
    import xeofs as xe

    k = case["n_modes"]
    X, dx, Y, dy = _cross_inputs(case, seed)
    refx, refy = ref_labels(dx, k), ref_labels(dy, k)

    def fa():
        kw = dict(pca=True, variance_fraction=1.0, init_pca_modes=1.0) if case["multi_pca"] else dict(pca=False)
        m = xe.multi.CCA(n_modes=k, use_coslat=case["coslat"], **kw)
        m.fit([dx, dy], dim="time")
        s1, s2 = m.scores()
        return dict(corr=_paircorr(_m(s1, ["time"], refx), _m(s2, ["time"], refy)), eig=_vec(m.eigvals, k))

    def fb():
        m = xe.cross.CCA(**_cross_kw(case, k))
        m.fit(dx, dy, dim="time")
        s1, s2 = m.scores()
        return dict(corr=_paircorr(_m(s1, ["time"], refx), _m(s2, ["time"], refy)))

    C = Cmp("multi.CCA", feats)
    a, b, errs = _two("multi.CCA", fa, fb, **feats)
    if errs:
        return dict(violations=errs, outcome="violation")
    rho = ref_cross_spectrum(pre(X, dx, case), pre(Y, dy, case), 0.0, 0.0)[:k]
    # multi.CCA regularises its generalised eigenproblem with a ridge eps=1e-6 (constructor default): C w = lambda (B + eps I) w
    # moves eigenvalues and weights by at most O(eps / lambda_min(B)), B = blockdiag(Cxx, Cyy). Everything that comes out of
    # the multi-set route is therefore compared within that bound (it is 1e-7 or less unless a field has a tiny variance).
    Mx, My = pre(X, dx, case), pre(Y, dy, case)
    lam_min = min(np.linalg.eigvalsh(Mx.T @ Mx / (Mx.shape[0] - 1)).min(), np.linalg.eigvalsh(My.T @ My / (My.shape[0] - 1)).min())
    ridge = 2 * 1e-6 / max(lam_min, 1e-12) + 1e-9
    C.direct("canonical_correlations", a["corr"], b["corr"], max(TOL_DIFF, ridge))
    # independent anchor: both must be the textbook canonical correlations (svd of Cxx^-1/2 Cxy Cyy^-1/2)
    C.direct("canonical_correlations_multi_vs_textbook", a["corr"], rho, max(TOL_DIFF, ridge))
    C.direct("canonical_correlations_cross_vs_textbook", b["corr"], rho, TOL_DIFF)
    C.direct("eigenvalues_multi_vs_textbook", a["eig"], rho, ridge)
    return _done(C, dict(k=k, rho1=float(rho[0])))


def _done(C, info):
    info = dict(info, groups=C.groups)
    return dict(violations=C.V, outcome="violation" if C.V else "ok", nontrivial=(not C.V) and C.compared > 0, info=info)


RUNNERS = {
    "named_vs_cpcca": run_named_vs_cpcca,
    "mca_self_vs_eof": run_mca_self_vs_eof,
    "complex_on_real": run_complex_on_real,
    "eeof_emb1": run_eeof_emb1,
    "spca_nopenalty": run_spca_nopenalty,
    "pca_all_vs_none": run_pca_all_vs_none,
    "multi_vs_cross_cca": run_multi_vs_cross_cca,
}


def run_case(case, seed):
    feats = dict(pair=case["pair"])
    if "use_pca" in case and case["pair"] != "multi_vs_cross_cca":
        feats["use_pca"] = bool(case["use_pca"])
    if case.get("storage"):
        feats["storage"] = case["storage"]
    if case["pair"] == "eeof_emb1":
        feats["embedding"] = 1
    if "ctor" in case:
        feats["ctor"] = case["ctor"]
    if case["model"] == "multi.CCA" and 1 in case["shape"][1:]:
        feats["single_feature_view"] = True
    r = RUNNERS[case["pair"]](case, seed, feats)
    r.setdefault("info", {})["pair"] = case["pair"]
    return r


def vacuity(outcomes, results, tier):
    seen = {}
    for r in results:
        p = (r.get("info") or {}).get("pair", "?")
        t = seen.setdefault(p, [0, 0])
        t[0] += 1 if r.get("nontrivial") else 0
        t[1] += 1 if r.get("violations") else 0
    for p in RUNNERS:
        if p not in seen:
            return "identity family %s was not enumerated" % p
        if seen[p][0] == 0 and seen[p][1] == 0:
            return "identity family %s: no pair was compared on non-empty results" % p
    g = {"single": 0, "cluster": 0, "skip": 0, "sign_exact": 0}
    for r in results:
        for kk, vv in ((r.get("info") or {}).get("groups") or {}).items():
            g[kk] += vv
    for kk in g:
        if g[kk] == 0:
            return "mode-group kind %r never occurred (vector / projector / skipped-null-space / same-space-sign comparison)" % kk
    return None


def finalize(cases_, results, tier, seed):
    """per-family tallies of outcomes, so a family that silently stopped comparing anything is visible in the evidence."""
    from collections import Counter

    tally = {}
    groups = Counter()
    for c, r in zip(cases_, results):
        tally.setdefault(c["pair"], Counter())[r["outcome"] if not r.get("nontrivial") else "ok_nontrivial"] += 1
        groups.update((r.get("info") or {}).get("groups") or {})
    return [], dict(per_pair_outcomes={k: dict(v) for k, v in tally.items()}, mode_groups_compared=dict(groups))
