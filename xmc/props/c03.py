"""C03 — Full-mode inverse_transform restores the fitted data in its original units. Explorer P (+ provenance).

Every model class of the quantifier is fitted on every element of a finite product of containers x sample-dimension
counts x preprocessing flags x whitening degrees x PCA on/off x NaN masks (x provenance in the thorough tier) and three
clauses are evaluated through the public API only:

  (i)   n_modes = all:  inverse_transform(scores()) == the object that was fitted, at every valid label.  The reference
        is the input itself (the plain matrices it was built from) - nothing of xeofs is recomputed.  For a cross-set
        field only if its (valid) feature count does not exceed n_modes.
  (ii)  transform(inverse_transform(s)) == s for score arrays s drawn from the seed, on training / new / short /
        length-one sample coordinates (every model offering both directions).
  (iii) scores / components / transform / inverse_transform with normalized=True and normalized=False differ by exactly
        one positive constant per mode: the L2 norm of that mode's un-normalised public score series.

  (sel) mode selections (on the algebra layer and the all-flags-on corner of every other sub-product): for a score array
        s, inverse_transform of {subset list, reordered subset, single mode as list, single mode as scalar .sel / .isel}
        equals inverse_transform of s with the other modes zeroed (linearity; normalized False and True for single-set
        models), and transform of it returns the selection on its modes and zero elsewhere.

Exceptions raised by a public call are turned into `raised` violations per call (so that the remaining clauses of the
case are still evaluated) with the innermost xeofs frame as signature.
"""

from __future__ import annotations

import itertools
import os
import traceback
import warnings

import numpy as np

from .. import data as D
from ..core import viol

ID = "C03"
LEVEL = "exploration"
TECHNIQUE = (
    "bounded exhaustive enumeration (model class x container x sample dims x flags x alpha^2 x PCA x NaN mask x provenance) of real fits; "
    "oracle = the fitted input itself (reconstruction), the drawn score array itself (round trip), and the L2 norms of the public scores (normalized switches)"
)
RULE = (
    "two complete layers. Algebra layer, on one DataArray (time, lat, lon): {EOF, ComplexEOF on complex data, HilbertEOF padding None/exp} x center x standardize x "
    "use_coslat x weights (all 16), and CPCCA x alpha in {0,.25,.5,1}^2 x use_pca {off, all modes} x (standardize, use_coslat, weights) in {all off, all on} "
    "(thorough: all 8, and per-field mixtures) plus MCA, CCA, RDA, ComplexCPCCA, ComplexMCA/CCA/RDA. Structure layer: container {DataArray, Dataset, list[DataArray], "
    "thorough: list[DataArray, Dataset]} x sample dims {1, 2} x NaN mask {none, one feature, one sample} x stated flag corners x stated model configurations "
    "(single: all four classes; cross: MCA, CPCCA(.5,.25), ComplexCPCCA(.25,.5), thorough: CCA). Further complete sub-products: truncated n_modes=2 (clauses ii, iii only), "
    "degenerate spectra (rank_def; thorough: flat_pair, clustered, near_equal_var), scales 1e-8/1e8 (single-set), field sizes 6|4 and 4|6 (only the smaller field is "
    "restorable), thorough: n=12, n=6 with 6 features (p > n-1) over the whole alpha grid, provenance {refitted, deferred-then-computed, deserialized} x structure layer. "
    "Score arrays of clause (ii): sample coordinates {new longer disjoint, one length-one sample dimension} everywhere, {training, short unsorted} and one-sided cross-set calls "
    "on the algebra layer (thorough: everywhere). Ill-scaled multi-variable fields {Dataset, list} x std ratio {1e2, 1e4, 1e6} x CPCCA alpha {(0,0), (.5,.5), (0,.5)} x PCA "
    "(plus CCA, ComplexCPCCA at 1e4; EOF, ComplexEOF at 1e4, 1e6), and the catalogue's extreme scales 1e-8 / 1e8 for CPCCA alpha {0,.5,1} x PCA. Mode selections of a score array {subset list, reordered subset, [k], scalar .sel(mode=k), scalar .isel(mode=i)} x normalized "
    "{False, True} (single-set; cross-set inverse_transform has no switch) on the algebra layer and on the all-flags-on corner of every other sub-product. A case is non-trivial when every clause applicable to it compared non-empty arrays and none fired"
)
ASSUMPTIONS = [
    "the numeric catalogue (fixed spectra/shapes/scales, orthogonal factors drawn from VERIF_SEED) stands for 'all inputs'",
    "solver='full' everywhere (solver choice is C15's subject); cross-set fields at scale 1 except the stated extreme-scale sub-product "
    "(CPCCA x alpha {0,.5,1} x PCA at the catalogue scales 1e-8 and 1e8)",
    "reconstruction is judged per variable (Dataset variable / list item), relative to the largest anomaly of THAT variable, so that a small-amplitude variable of an "
    "ill-scaled field cannot hide behind a large one; ill-scaled fields divide variable number i by ratio**i, ratio in {1e2, 1e4, 1e6} (thorough: also 1e3, 1e5), un-standardised; "
    "ratio 1e8 is not enumerated (the covariance of such a field has condition > 1/eps in float64)",
    "cross-set 'feature count' of a field is its number of valid (not fully-NaN) features; a fully-NaN sample is placed at the same label in both fields (C06 owns the other case)",
    "round trip on a fractionally whitened (alpha<1) cross-set model is demanded only for modes up to the numerical rank of the two fields "
    "(beyond it a score cannot be represented in data space: the whitener is a pseudo-inverse there)",
    "tolerance 1e-9 relative (DESIGN 4.3); 1e-6 for reconstruction / round trip of a cross-set model that fractionally whitens (alpha<1) a field whose "
    "covariance is numerically singular in the whitened space (rank-deficient data, p > n-1, or a zero-variance PC kept by n_pca_modes='all'): the pseudo-power's "
    "cut-off at machine eps lets rounding grow by up to (s1/eps)^((1-alpha)/2) - conditioning, not a wrong formula (every mutant moves results by > 1e-2)",
    "score arrays of clause (ii) are drawn at the magnitude of the model's own scores, so that the rounding of the mean that is added back stays below the tolerance",
    "normalized switches, direction: the un-normalised variant equals the normalised one times the norm (scores, transform, components), and "
    "inverse_transform(s, normalized=True) equals inverse_transform(s * norm); cross-set inverse_transform has no such switch and is not compared; "
    "the transform switch is evaluated on NaN-free data (the reconstruction of clause (ii), else the training data): transform of data holding a fully-NaN sample is C04/C06's subject",
    "normalized switches are compared on modes whose score norm exceeds 1e-9 of the largest one (a zero norm cannot be divided by)",
    "deferred provenance (compute=False on sample-wise chunked dask input, then compute()) only for real-valued models (complex data with dask is a "
    "documented refusal) and on the single DataArray (dask's svd refuses the per-piece chunked feature axis of Dataset / list inputs; two witnesses are tallied as refused)",
    "Dataset variables share one dimension set and no dimension has length one in the fitted data (C02 owns structure); "
    "length-one sample dimensions occur only in the score arrays of clause (ii)",
]
TALLY_KEYS = ("family", "model", "cont", "ns", "nan", "prov", "n_modes")
TRUSTED = ["statsmodels import shim (/verif/shims) so that xeofs.cross constructors can be called"]
MAX_REFUSED_FRACTION = 0.05

LATS = {2: [-30.0, 50.0], 3: [-60.0, 10.0, 75.0]}
ALPHAS = (0.0, 0.25, 0.5, 1.0)
NAMED = {"MCA": (1.0, 1.0), "CCA": (0.0, 0.0), "RDA": (0.0, 1.0)}
TOL = 1e-9


# ----------------------------------------------------------------------------- structure alphabet


def layout(cont, size):
    """list of items; item = ("da", name, grid) | ("ds", [(var, grid), ...]); grid = (nlat, nlon) | (nlat,)."""
    if size == "S":
        return {
            "DA": [("da", "sst", (3, 2))],
            "DS": [("ds", [("a", (3, 2)), ("b", (3, 2))])],
            "list": [("da", "sst", (3, 2)), ("da", "zm", (3,))],
            "list_ds": [("da", "sst", (3, 2)), ("ds", [("u", (2,)), ("v", (2,))])],
        }[cont]
    if size == 4:
        return {
            "DA": [("da", "f4", (2, 2))],
            "DS": [("ds", [("a", (2,)), ("b", (2,))])],
            "list": [("da", "p", (2,)), ("da", "q", (2,))],
            "list_ds": [("da", "p", (2,)), ("ds", [("u", (2,))])],
        }[cont]
    if size == 6:
        return {
            "DA": [("da", "f6", (3, 2))],
            "DS": [("ds", [("a", (3,)), ("b", (3,))])],
            "list": [("da", "p", (2, 2)), ("da", "q", (2,))],
            "list_ds": [("da", "p", (2, 2)), ("ds", [("u", (2,))])],
        }[cont]
    raise ValueError(size)


def sample_shape(n, ns):
    return (n,) if ns == 1 else (n // 2, 2)


class Field:
    pass


def build_field(cont, size, n, ns, spec, scale, cplx, seed, nan, salt, with_weights, chunk=False, ratio=1.0, wkind="float", forder="asc"):
    """`ratio` > 1 makes a multi-variable field ILL-SCALED: variable number i (Dataset variable / list item, in order)
    is divided by ratio**i, like temperature in K next to specific humidity in kg/kg.
    `wkind`: user weights as float64 numbers, or integer-valued in integer storage (e.g. counts / band weights 1, 2, 3).
    `forder`: feature coordinates stored ascending, or in an unsorted element order (reconstructions may come back sorted)."""
    import xarray as xr

    f = Field()
    f.cont, f.ns, f.n = cont, ns, n
    shp = sample_shape(n, ns)
    f.sdims = ("time",) if ns == 1 else ("time", "run")
    f.scoords = {"time": np.arange(shp[0]) * 2 + 1}
    if ns == 2:
        f.scoords["run"] = np.array(["r%d" % i for i in range(shp[1])])
    f.pieces = []
    f.has_dataset = False
    items, witems = [], []
    pi = 0
    for ii, it in enumerate(layout(cont, size)):
        specs = [(it[1], it[2], None)] if it[0] == "da" else [(v, g, v) for v, g in it[1]]
        das, ws = {}, {}
        for name, grid, var in specs:
            p = int(np.prod(grid))
            M = D.make_matrix(n, p, spec, scale, cplx, seed, salt=salt * 16 + pi) * float(ratio) ** (-pi)
            if nan == "feature" and pi == 0:
                M[:, 1 if p > 1 else 0] = np.nan
            if nan == "sample":
                M[2, :] = np.nan
            fdims = ("lat", "lon")[: len(grid)]
            fcoords = {"lat": np.asarray(LATS[grid[0]])}
            if len(grid) == 2:
                fcoords["lon"] = np.arange(grid[1]) * 30.0
            if forder == "unsorted":
                fcoords["lat"] = np.roll(fcoords["lat"], 1)  # e.g. [75, -60, 10]
                if len(grid) == 2:
                    fcoords["lon"] = fcoords["lon"][::-1].copy()
            da = xr.DataArray(M.reshape(shp + tuple(grid)), dims=f.sdims + fdims, coords={**f.scoords, **fcoords}, name=name)
            rng = np.random.default_rng([int(seed), 77, salt, pi])
            w = xr.DataArray(0.5 + 2.0 * rng.random(tuple(grid)), dims=fdims, coords=fcoords)
            if wkind != "float":
                w = xr.DataArray(rng.integers(1, 4, size=tuple(grid)).astype(wkind), dims=fdims, coords=fcoords)
            if chunk:
                da = da.chunk({"time": 2})  # sample-wise chunks only: dask's svd refuses arrays chunked along both axes (DESIGN 3.4)
            das[name], ws[name] = da, w
            anom = np.abs(M - np.nanmean(M, axis=0, keepdims=True))
            f.pieces.append(dict(path=(ii if cont.startswith("list") else None, var), M=M, fdims=fdims, fcoords=fcoords, p=p,
                                 ascale=max(float(np.nanmax(anom)), 1e-300)))
            pi += 1
        if it[0] == "da":
            items.append(das[it[1]])
            witems.append(ws[it[1]])
        else:
            f.has_dataset = True
            items.append(xr.Dataset(das))
            witems.append(xr.Dataset(ws))
    if cont.startswith("list"):
        f.obj, f.weights = items, (witems if with_weights else None)
    else:
        f.obj, f.weights = items[0], (witems[0] if with_weights else None)
    f.P = sum(pc["p"] for pc in f.pieces)
    f.P_valid = f.P - (1 if nan == "feature" else 0)
    f.n_valid = n - (1 if nan == "sample" else 0)
    f.scale = max(float(np.nanmax(np.abs(pc["M"]))) for pc in f.pieces)
    return f


class StructErr(Exception):
    pass


def get_piece(res, f, pc):
    import xarray as xr

    item, var = pc["path"]
    o = res
    if f.cont.startswith("list"):
        if not isinstance(res, (list, tuple)) or len(res) <= item:
            raise StructErr("expected a list with item %d, got %s" % (item, type(res).__name__))
        o = res[item]
    if var is not None:
        if not isinstance(o, xr.Dataset) or var not in o.data_vars:
            raise StructErr("expected a Dataset with variable %r, got %s" % (var, type(o).__name__))
        o = o[var]
    if not isinstance(o, xr.DataArray):
        raise StructErr("expected a DataArray, got %s" % type(o).__name__)
    return o


def values(o, labels):
    """label-keyed read-out: `labels` is an ordered mapping dim -> wanted labels; the dimension set must be exactly
    that, every wanted label must be present (others may be present too)."""
    if set(o.dims) != set(labels):
        raise StructErr("dims %s, expected %s" % (sorted(map(str, o.dims)), sorted(labels)))
    for d, labs in labels.items():
        if d not in o.coords:
            raise StructErr("dimension %s has no coordinate" % d)
        have = set(o.coords[d].values.tolist())
        miss = [x for x in np.asarray(labs).tolist() if x not in have]
        if miss:
            raise StructErr("labels %s of %s are missing" % (miss[:4], d))
    return np.asarray(o.sel({d: np.asarray(l) for d, l in labels.items()}).transpose(*labels).values)


def relerr(a, b, mask=None, scale=None):
    a, b = np.asarray(a), np.asarray(b)
    if a.shape != b.shape:
        return np.inf
    if mask is None:
        mask = np.ones(b.shape, bool)
    if not mask.any():
        return 0.0
    d = np.abs(a[mask] - b[mask])
    if not np.all(np.isfinite(d)):
        return np.inf
    s = scale if scale is not None else max(float(np.max(np.abs(b[mask]))), 1e-300)
    return float(np.max(d) / s)


# ----------------------------------------------------------------------------- configuration alphabet

FLAGS16 = list(itertools.product([True, False], [False, True], [False, True], [False, True]))  # center, std, coslat, weights
FLAGS4 = [(True, False, False, False), (True, True, True, True), (False, False, False, False), (False, True, True, True)]
CFLAGS8 = list(itertools.product([False, True], repeat=3))  # std, coslat, weights (both fields alike)
CFLAGS2 = [(False, False, False), (True, True, True)]
SINGLE = [("EOF", False, None), ("ComplexEOF", True, None), ("HilbertEOF", False, None), ("HilbertEOF", False, "exp")]
NSNAN6 = [(1, "none"), (2, "none"), (1, "feature"), (2, "feature"), (1, "sample"), (2, "sample")]


def _single(out, model, cplx, padding, cont, ns, nan, flags, spec="geometric", scale=1.0, n_modes="all", prov="fresh", n=8, sv="new,one", msel=None):
    c, s, cl, w = flags
    if msel is None:  # mode selections: whole algebra layer, and the all-flags-on corner of every other sub-product
        msel = bool((cont == "DA" and ns == 1 and nan == "none" and spec == "geometric" and scale == 1.0) or tuple(flags) == FLAGS4[1])
    d = dict(family="single", model=model, cplx=cplx, cont=cont, ns=ns, nan=nan, center=c, standardize=s, coslat=cl, weights=w,
             spec=spec, scale=scale, n_modes=n_modes, prov=prov, n=n, sv=sv, msel=msel)
    if model == "HilbertEOF":
        d["padding"] = padding
    out.append(d)


def _cross(out, model, alpha, pca, cflags, cont, ns, nan, sizes=(4, 4), spec="geometric", n_modes="all", prov="fresh", n=10, mixed=None, sv="new,one", msel=None):
    s, cl, w = cflags
    if msel is None:  # mode selections: the all-flags-on corner of every sub-product
        msel = bool(tuple(cflags) == CFLAGS2[1])
    d = dict(family="cross", model=model, cplx=model.startswith("Complex"), alpha=[float(a) for a in alpha], pca=bool(pca), cont=cont, ns=ns, nan=nan,
             standardize=[s, s], coslat=[cl, cl], weights=[w, w], sizes=list(sizes), spec=spec, n_modes=n_modes, prov=prov, n=n, scale=1.0, sv=sv, msel=msel)
    if mixed is not None:  # per-field flags
        d["standardize"], d["coslat"], d["weights"] = [list(x) for x in mixed]
    out.append(d)


def _alpha_of(model, alpha=None):
    base = model.replace("Complex", "")
    return NAMED[base] if base in NAMED else alpha


FLAGS2 = [(True, True, True, True), (False, False, False, False)]
NSNAN4 = [(1, "none"), (2, "none"), (1, "feature"), (2, "sample")]
NSNAN3 = [(1, "none"), (2, "feature"), (2, "sample")]
STRUCT_MODELS = [("MCA", None), ("CPCCA", (0.5, 0.25)), ("ComplexCPCCA", (0.25, 0.5)), ("CCA", None)]
OTHER_MODELS = [("RDA", None), ("ComplexMCA", None), ("ComplexCCA", None), ("ComplexRDA", None), ("CPCCA", (0.0, 0.5)), ("ComplexCPCCA", (1.0, 0.0))]


def cases(tier, seed):
    """The product is taken in two layers, each complete: the *algebra* layer (model class x flags x alpha^2 x PCA) on the
    plain DataArray, and the *structure* layer (container x sample dims x NaN mask) with a stated set of model
    configurations; the thorough tier widens both and adds the provenance layer."""
    out = []
    quick = tier == "quick"
    conts = ["DA", "DS", "list"] if quick else ["DA", "DS", "list", "list_ds"]
    sv_all = "train,new,short,one"
    sv = "new,one" if quick else sv_all
    # ------------------------------------------------------------------ single-set models
    for (model, cplx, pad) in SINGLE:
        main = model == "EOF"
        for fl in FLAGS16:  # algebra layer: full flag product on the plain array
            _single(out, model, cplx, pad, "DA", 1, "none", fl, sv=sv_all)
        # structure layer
        if quick and pad == "exp":
            struct = [(cont, ns, nan) for cont in conts for (ns, nan) in ((1, "none"), (2, "sample"))]
        else:
            struct = [(cont, ns, nan) for cont in conts for (ns, nan) in NSNAN6]
        for (cont, ns, nan) in struct:
            for fl in ((FLAGS4 if quick else FLAGS16) if main else (FLAGS2 if quick else FLAGS4)):
                _single(out, model, cplx, pad, cont, ns, nan, fl, sv=sv)
        # integer-typed user weights, and feature coordinates stored in an unsorted element order
        for cont in (["DA", "DS"] if quick else conts):
            for ns in (1, 2):
                for (wk, fo) in (("int64", "asc"), ("float", "unsorted")) if quick else (("int64", "asc"), ("int32", "unsorted"), ("float", "unsorted")):
                    for fl in (FLAGS2[:1] if quick else [FLAGS4[1], (True, False, False, True), (False, False, False, True)]):
                        _single(out, model, cplx, pad, cont, ns, "none", fl, sv=sv)
                        out[-1].update(wkind=wk, forder=fo)
        # truncated models: clauses (ii) and (iii) only
        for cont in (["DA", "DS"] if quick else conts):
            for ns in ((2,) if quick else (1, 2)):
                for fl in FLAGS2:
                    _single(out, model, cplx, pad, cont, ns, "none", fl, n_modes=2, sv=sv)
        # degenerate spectra and extreme scales
        for spec in (["rank_def"] if quick else ["flat_pair", "clustered", "rank_def", "near_equal_var"]):
            for cont in (["DA"] if quick else ["DA", "DS"]):
                for fl in (FLAGS2 if quick else FLAGS4):
                    _single(out, model, cplx, pad, cont, 1 if cont == "DA" else 2, "none", fl, spec=spec, sv=sv)
        for scale in (1e-8, 1e8):
            for fl in ((FLAGS4 if quick else FLAGS16) if main else FLAGS2):
                if fl[1] and scale == 1e-8:
                    continue  # Scaler clips the standard deviation at float32 eps (DESIGN 3.1)
                _single(out, model, cplx, pad, "DA", 1, "none", fl, scale=scale, sv=sv)
        if not quick and pad is None:
            for fl in FLAGS4:  # a second shape: n = 12 samples, (6, 2) when two sample dims
                for cont in conts:
                    for ns in (1, 2):
                        _single(out, model, cplx, pad, cont, ns, "none", fl, n=12, sv=sv)
    # ------------------------------------------------------------------ cross-set models
    grid = [(ax, ay) for ax in ALPHAS for ay in ALPHAS]
    for alpha in grid:  # algebra layer: whole whitening grid on the plain array
        for pca in (False, True):
            for cf in (CFLAGS2 if quick else CFLAGS8):
                _cross(out, "CPCCA", alpha, pca, cf, "DA", 1, "none", sv=sv_all if cf == CFLAGS2[1] else sv)
            if not quick:
                for cf in CFLAGS2:
                    for (ns, nan) in NSNAN6[1:]:
                        _cross(out, "CPCCA", alpha, pca, cf, "DA", ns, nan, sv=sv)
    for pca in (False, True):
        for cf in CFLAGS8:
            _cross(out, "CPCCA", (0.25, 0.5), pca, cf, "DA", 1, "none", sv=sv)
    # structure layer
    for (model, alpha) in STRUCT_MODELS:
        a = _alpha_of(model, alpha)
        for (pca, cf) in ([(False, CFLAGS2[0]), (True, CFLAGS2[1])] if quick else [(p, c) for p in (False, True) for c in CFLAGS2]):
            if quick and model == "CCA":
                continue
            for cont in conts:
                for (ns, nan) in NSNAN6:
                    _cross(out, model, a, pca, cf, cont, ns, nan, sv=sv)
    for (model, alpha) in ([("CCA", None)] if quick else []) + OTHER_MODELS[: 2 if quick else None]:
        a = _alpha_of(model, alpha)
        for pca in (False, True):
            for cf in CFLAGS2:
                for cont in (["DA"] if quick else ["DA", "DS"]):
                    for (ns, nan) in ([(1, "none"), (2, "sample")] if quick else NSNAN4):
                        _cross(out, model, a, pca, cf, cont, ns, nan, sv=sv)
    # integer-typed user weights, feature coordinates stored unsorted (cross-set)
    for (model, alpha) in STRUCT_MODELS[: 2 if quick else None]:
        a = _alpha_of(model, alpha)
        for pca in (False, True):
            for cont in (["DA", "DS"] if quick else conts):
                for ns in ((1,) if quick else (1, 2)):
                    for (wk, fo) in (("int64", "asc"), ("float", "unsorted")) if quick else (("int64", "asc"), ("int32", "unsorted"), ("float", "unsorted")):
                        _cross(out, model, a, pca, CFLAGS2[1], cont, ns, "none", sv=sv)
                        out[-1].update(wkind=wk, forder=fo)
    # one field larger than the number of modes: only the other one is restored
    for sizes in ((6, 4), (4, 6)):
        for (model, alpha) in (("CPCCA", (0.25, 0.5)), ("MCA", None), ("ComplexCPCCA", (0.5, 0.0))):
            a = _alpha_of(model, alpha)
            for pca in (False, True):
                for cont in (["DA", "DS"] if quick else conts):
                    for cf in ([(True, True, True)] if quick else CFLAGS2):
                        for (ns, nan) in ([(1, "none") if cont == "DA" else (2, "none")] if quick else NSNAN3):
                            _cross(out, model, a, pca, cf, cont, ns, nan, sizes=sizes, sv=sv)
    # per-field flags
    mixes = [m for m in itertools.product([(True, False), (False, True)], repeat=3)]
    for mix in (mixes[:2] + mixes[-2:] if quick else mixes):
        for pca in (False, True):
            _cross(out, "CPCCA", (0.25, 0.5), pca, (False, False, False), "DA", 1, "none", mixed=mix, sv=sv)
    # truncated: clauses (ii), (iii) only
    for (model, alpha) in (("CPCCA", (0.25, 0.5)), ("MCA", None), ("ComplexCPCCA", (0.5, 0.25))):
        a = _alpha_of(model, alpha)
        for pca in (False, True):
            for cont in (["DA", "DS"] if quick else conts):
                for cf in (CFLAGS2[1:] if quick else CFLAGS2):
                    _cross(out, model, a, pca, cf, cont, 2 if cont == "DS" else 1, "none", n_modes=2, sv=sv)
    # degenerate spectra
    for spec in (["rank_def"] if quick else ["flat_pair", "clustered", "rank_def", "near_equal_var"]):
        for (model, alpha) in (("CPCCA", (0.25, 0.5)), ("MCA", None), ("CCA", None)):
            a = _alpha_of(model, alpha)
            for pca in (False, True):
                for cf in (CFLAGS2[:1] if quick else CFLAGS2):
                    _cross(out, model, a, pca, cf, "DA", 1, "none", spec=spec, sv=sv)
    # ill-scaled multi-variable fields (un-standardised Dataset / list whose variables differ in magnitude by `ratio`,
    # e.g. K next to kg/kg): every variable must come back, judged in units of its own variability
    def _ill(lst, ratio):
        lst[-1]["ratio"] = float(ratio)

    for ratio in ((1e2, 1e4, 1e6) if quick else (1e2, 1e3, 1e4, 1e5, 1e6)):
        for alpha in ((0.0, 0.0), (0.5, 0.5), (0.0, 0.5)) + (() if quick else ((1.0, 1.0), (0.25, 1.0))):
            for pca in (False, True):
                for cont in (["DS", "list"] if quick else ["DS", "list", "list_ds"]):
                    wide = (not quick) and ratio in (1e4, 1e6) and alpha[0] < 1.0 and alpha != (0.25, 1.0)
                    for (ns, nan) in (NSNAN3 if wide else [(1, "none")]):
                        for cf in ([CFLAGS2[0], (False, True, True)] if wide and cont == "DS" and nan == "none" else [CFLAGS2[0]]):
                            _cross(out, "CPCCA", alpha, pca, cf, cont, ns, nan, sv=sv, msel=False)
                            _ill(out, ratio)
        for (model, alpha) in (("ComplexCPCCA", (0.5, 0.5)), ("CCA", None)):
            if quick and ratio != 1e4:
                continue
            for pca in (False, True):
                _cross(out, model, _alpha_of(model, alpha), pca, CFLAGS2[0], "DS", 1, "none", sv=sv, msel=False)
                _ill(out, ratio)
        if ratio >= 1e4 and ratio in (1e4, 1e6):
            for (model, cplx, pad) in SINGLE[:2] if quick else SINGLE:
                for cont in ("DS", "list"):
                    for fl in ([FLAGS4[0]] if quick else [FLAGS4[0], FLAGS4[2], (True, False, True, True)]):
                        _single(out, model, cplx, pad, cont, 1, "none", fl, sv=sv, msel=False)
                        _ill(out, ratio)
    # data in very small / very large units (the catalogue's extreme scales) under fractional whitening
    for scale in (1e-8, 1e8):
        for alpha in ((0.0, 0.0), (0.5, 0.5), (1.0, 1.0)) + (() if quick else ((0.25, 1.0),)):
            for pca in (False, True):
                for cont in (["DA"] if quick else ["DA", "DS"]):
                    _cross(out, "CPCCA", alpha, pca, CFLAGS2[0], cont, 1, "none", sv=sv, msel=False)
                    out[-1]["scale"] = float(scale)
    if not quick:
        # more features than samples in one field (n = 6 -> 5 centred degrees of freedom, 6 features)
        for alpha in grid:
            for pca in (False, True):
                for cont in ("DA", "DS"):
                    for ns in (1, 2):
                        _cross(out, "CPCCA", alpha, pca, (False, False, False), cont, ns, "none", sizes=(6, 4), n=6, sv=sv)
        # ---------------------------------------------------------------- provenance layer
        for prov in ("refit", "deferred", "deserialized"):
            # deferred: a multi-variable / multi-item input has its feature axis chunked per piece, which dask's svd
            # refuses (documented, DESIGN 3.4) - the plain array takes the full structure product instead, and one
            # Dataset case per family is kept as a witness of the refusal
            dfr = prov == "deferred"
            for (model, cplx, pad) in SINGLE:
                if (dfr and model != "EOF") or pad == "exp":
                    continue
                for cont in (["DA"] if dfr else conts):
                    for (ns, nan) in (NSNAN6 if dfr else NSNAN4):
                        for fl in (FLAGS4 if dfr else FLAGS2):
                            _single(out, model, cplx, pad, cont, ns, nan, fl, prov=prov, sv="new,one")
                if dfr:
                    _single(out, model, cplx, pad, "DS", 2, "none", FLAGS2[0], prov=prov, sv="new,one")
            for (model, alpha) in STRUCT_MODELS:
                if dfr and model.startswith("Complex"):
                    continue
                a = _alpha_of(model, alpha)
                for pca in (False, True):
                    for cont in (["DA"] if dfr else conts):
                        for (ns, nan) in (NSNAN6 if dfr else NSNAN4):
                            for cf in (CFLAGS2 if dfr else CFLAGS2[1:]):
                                _cross(out, model, a, pca, cf, cont, ns, nan, prov=prov, sv="new,one")
                if dfr and model == "MCA":
                    _cross(out, model, a, False, CFLAGS2[0], "DS", 2, "none", prov=prov, sv="new,one")
    # de-duplicate, simplest first
    seen, uniq = {}, []
    for c in out:
        key = repr(sorted((k, v) for k, v in c.items() if k not in ("sv", "msel")))
        if key not in seen:
            seen[key] = c
            uniq.append(c)
        else:  # the same configuration reached through two sub-products: keep the richer interrogation
            first = seen[key]
            first["msel"] = bool(first["msel"] or c["msel"])
            if len(c["sv"]) > len(first["sv"]):
                first["sv"] = c["sv"]
    order = {"DA": 0, "DS": 1, "list": 2, "list_ds": 3}
    uniq.sort(key=lambda c: (c["prov"] != "fresh", c["family"] != "single", c["nan"] != "none", c["ns"], order[c["cont"]], c["spec"] != "geometric", c["scale"] != 1.0, c.get("ratio", 1.0)))
    return uniq


# ----------------------------------------------------------------------------- running the real thing


def _at(e):
    tb = traceback.extract_tb(e.__traceback__)
    for fr in reversed(tb):
        if "/xeofs/" in fr.filename:
            return "%s:%s" % (os.path.basename(fr.filename), fr.name)
    return "%s:%s" % (os.path.basename(tb[-1].filename), tb[-1].name) if tb else "?"


class Refused(Exception):
    pass


class Ctx:
    """collects violations of one case; `call` runs one public xeofs call and turns an exception into a violation."""

    def __init__(self, case, base):
        self.case, self.V, self.base, self.sigs = case, [], base, set()
        self.done = []
        self.maxerr = {}

    def err(self, check, e):
        if np.isfinite(e):
            self.maxerr[check] = max(self.maxerr.get(check, 0.0), float(e))

    def bad(self, check, msg, **features):
        v = viol(check, self.case["model"], msg, **features, **_prov_feat(self.case))
        sig = (check, repr(sorted(v["features"].items())))
        if sig not in self.sigs:
            self.sigs.add(sig)
            self.V.append(v)

    def call(self, name, fn, *a, **k):
        try:
            with warnings.catch_warnings():
                warnings.simplefilter("ignore")
                return fn(*a, **k)
        except NotImplementedError as e:
            # documented refusal (DESIGN 3.4): dask's svd on a matrix chunked along both axes (the feature axis of a
            # multi-variable / multi-item input is chunked per piece)
            if self.case["prov"] == "deferred" and name in ("fit", "compute") and "chunked in one dimension" in str(e):
                raise Refused("NotImplementedError")
            self._raised(name, e)
            return None
        except Exception as e:  # noqa: BLE001 - any exception of a public call on a covered input is a violation
            self._raised(name, e)
            return None

    def _raised(self, name, e):
        self.bad("raised", "%s(...) raised %s: %s\n%s" % (name, type(e).__name__, e, "".join(traceback.format_tb(e.__traceback__)[-3:])),
                 call=name, exc=type(e).__name__, at=_at(e), **self.base)


def make_single(case, k, compute=True):
    import xeofs as xe

    kw = dict(n_modes=k, center=case["center"], standardize=case["standardize"], use_coslat=case["coslat"], solver="full", random_state=5, compute=compute)
    if case["model"] == "HilbertEOF":
        kw["padding"] = case["padding"]
    return getattr(xe.single, case["model"])(**kw)


def make_cross(case, k, compute=True):
    import xeofs as xe

    kw = dict(n_modes=k, standardize=list(case["standardize"]), use_coslat=list(case["coslat"]), use_pca=case["pca"], n_pca_modes="all",
              solver="full", random_state=7, compute=compute)
    if case["model"] in ("CPCCA", "ComplexCPCCA"):
        kw["alpha"] = list(case["alpha"])
    return getattr(xe.cross, case["model"])(**kw)


def score_magnitude(sc, f):
    """typical magnitude of the model's own scores (so that drawn score arrays reconstruct to anomalies of the data's
    magnitude; a score of order one on data of order 1e8 would drown in the rounding of the mean that is added back,
    which DESIGN 4.3 does not count as a violation)."""
    try:
        v = np.abs(np.asarray(sc.values))
        m = float(np.nanmax(v))
        return m if np.isfinite(m) and m > 0 else f.scale
    except Exception:  # noqa: BLE001
        return f.scale


def score_array(f, k_modes, variant, cplx, seed, salt, mag=1.0):
    """an arbitrary score array on the model's sample dimensions: values from the seed, coordinates per `variant`."""
    import xarray as xr

    nt = len(f.scoords["time"])
    if variant == "train":
        co = {d: f.scoords[d] for d in f.sdims}
    elif variant == "new":  # disjoint labels, longer
        co = {"time": 1000 + np.arange(nt + 3) * 3}
        if f.ns == 2:
            co["run"] = np.array(["q0", "q1", "q2"])
    elif variant == "short":  # two unsorted labels, one of them a training label
        co = {"time": np.array([501, int(f.scoords["time"][1])])}
        if f.ns == 2:
            co["run"] = np.array(["r1", "q9"])
    elif variant == "one":  # a sample dimension of length one
        co = {"time": np.array([777])} if f.ns == 1 else {"time": np.array([901, 5, 33]), "run": np.array(["q7"])}
    else:
        raise ValueError(variant)
    shape = tuple(len(co[d]) for d in f.sdims) + (len(k_modes),)
    rng = np.random.default_rng([int(seed), 4242, salt, len(k_modes), ["train", "new", "short", "one"].index(variant)])
    v = rng.standard_normal(shape)
    if cplx:
        v = v + 1j * rng.standard_normal(shape)
    v = v * mag
    co = dict(co)
    co["mode"] = np.asarray(k_modes)
    return xr.DataArray(v, dims=f.sdims + ("mode",), coords=co, name="scores")


def sample_labels(f, valid_only):
    """ordered mapping of sample dims -> labels to read; with one sample dim a fully-NaN sample may be left out."""
    lab = {d: f.scoords[d] for d in f.sdims}
    if valid_only and f.ns == 1 and f.n_valid < f.n:
        lab["time"] = np.delete(f.scoords["time"], 2)
    return lab


def valid_rows(f, valid_only):
    if valid_only and f.ns == 1 and f.n_valid < f.n:
        return np.delete(np.arange(f.n), 2)
    return np.arange(f.n)


def check_reconstruction(cx, f, res, what, feats, tol=TOL):
    """clause (i): `res` must equal the fitted object of field f at every valid label."""
    n_cmp = 0
    for pc in f.pieces:
        try:
            o = get_piece(res, f, pc)
            lab = dict(sample_labels(f, True), **{d: pc["fcoords"][d] for d in pc["fdims"]})
            got = values(o, lab).reshape(-1, pc["p"])
        except StructErr as e:
            cx.bad("reconstruction_structure", "%s, piece %s: %s" % (what, pc["path"], e), **feats)
            continue
        want = pc["M"][valid_rows(f, True)]
        mask = np.isfinite(want)
        # judged per variable, in units of that variable's own variability (a field may mix magnitudes)
        e = relerr(got, want, mask, scale=pc["ascale"])
        cx.err("reconstruction", e)
        n_cmp += int(mask.sum())
        if not e <= tol:
            # classify: exactly the sample mean is missing?
            mu = np.nanmean(pc["M"], axis=0, keepdims=True)
            e_mu = relerr(got + mu, want, mask, scale=pc["ascale"])
            lost = "mean" if e_mu <= tol else "other"
            cx.bad("reconstruction", "%s, piece %s: max |reconstructed - fitted| / max|own anomalies of that variable| = %.3e (adding the sample mean back: %.3e)" % (what, pc["path"], e, e_mu),
                   lost=lost, **feats)
    return n_cmp


def check_like(cx, check, got, want_da, f, what, feats, restrict_modes=None, tol=TOL):
    """label-keyed comparison of a score-like DataArray with the reference DataArray `want_da` (dims sample + mode)."""
    modes = np.asarray(want_da.mode.values if restrict_modes is None else restrict_modes)
    lab = {d: want_da.coords[d].values for d in f.sdims}
    lab["mode"] = modes
    try:
        import xarray as xr

        if not isinstance(got, xr.DataArray):
            raise StructErr("expected a DataArray, got %s" % type(got).__name__)
        g = values(got, lab)
    except StructErr as e:
        cx.bad(check + "_structure", "%s: %s" % (what, e), **feats)
        return 0
    w = values(want_da, lab)
    mask = np.isfinite(w)
    e = relerr(g, w, mask)
    cx.err(check, e)
    if not e <= 10 * tol:
        cx.bad(check, "%s: max |returned - expected| / max|expected| = %.3e" % (what, e), **feats)
    return int(mask.sum())


def has_sample_dims(cx, f, res, s, what, feats):
    """the reconstruction of a score array must carry the sample dimensions of that array (length-one ones included)."""
    ok = True
    for pc in f.pieces:
        try:
            o = get_piece(res, f, pc)
        except StructErr as e:
            cx.bad("roundtrip_structure", "%s, piece %s: %s" % (what, pc["path"], e), **feats)
            return False
        miss = [d for d in f.sdims if d not in o.dims]
        if miss:
            cx.bad("roundtrip_lost_sample_dim", "%s, piece %s: inverse_transform(s) has dims %s, sample dimension(s) %s of s (sizes %s) are gone"
                   % (what, pc["path"], tuple(o.dims), miss, [int(s.sizes[d]) for d in miss]), len1=bool(all(s.sizes[d] == 1 for d in miss)), **feats)
            ok = False
    return ok


def mode_norms(f, sc):
    """L2 norm per mode of a public score array (valid samples only)."""
    lab = dict(sample_labels(f, False), mode=sc.mode.values)
    v = values(sc, lab).reshape(-1, sc.sizes["mode"])
    return np.sqrt(np.nansum(np.abs(v) ** 2, axis=0))


def numeric_rank(f):
    """rank of the centred valid matrix of a field (numpy)."""
    M = np.concatenate([pc["M"] for pc in f.pieces], axis=1)
    M = M[np.isfinite(M).any(axis=1)][:, np.isfinite(M).any(axis=0)]
    M = M - M.mean(axis=0, keepdims=True)
    s = np.linalg.svd(M, compute_uv=False)
    return int(np.sum(s > s[0] * 1e-10))


def other_data(case, f, seed, salt):
    """a different, NaN-free data set of the same structure (other values, other sample count) for the 'refit'
    provenance; it has at least as many valid features as the data of the case, so the same n_modes is admissible."""
    return build_field(f.cont, case.get("_size", "S"), f.n + (2 if f.ns == 1 else 4), f.ns, "near_equal_var", 3.0, case["cplx"], seed + 1, "none", salt + 5, True)


def _fit_with_provenance(cx, case, make, fields, seed, k, fit):
    """returns the model to interrogate, or None if a call raised."""
    prov = case["prov"]
    m = make(case, k, compute=(prov != "deferred"))
    if prov == "refit":
        others = [other_data(dict(case, _size=sz), f, seed, i) for i, (f, sz) in enumerate(fields)]
        if cx.call("fit", fit, m, [o for o in others], True) is None:
            return None
    if cx.call("fit", fit, m, [f for f, _ in fields], False) is None:
        return None
    if prov == "deferred":
        cx.call("compute", m.compute)
    if prov == "deserialized":
        dt = cx.call("serialize", m.serialize)
        if dt is None:
            return None
        m = cx.call("deserialize", type(m).deserialize, dt)
    return m


def variants_of(case):
    return tuple(case["sv"].split(","))


def run_case(case, seed):
    try:
        return run_single(case, seed) if case["family"] == "single" else run_cross(case, seed)
    except Refused as e:
        return dict(violations=[], outcome="refused:%s" % e, nontrivial=False)


def _base_feats(case, fields):
    return dict(dataset_one_sample_dim=bool(case["ns"] == 1 and any(f.has_dataset for f in fields)))


def _prov_feat(case):
    return {} if case["prov"] == "fresh" else {"prov": case["prov"]}


def run_single(case, seed):
    chunk = case["prov"] == "deferred"
    f = build_field(case["cont"], "S", case["n"], case["ns"], case["spec"], case["scale"], case["cplx"], seed, case["nan"], 1, case["weights"], chunk=chunk, ratio=case.get("ratio", 1.0), wkind=case.get("wkind", "float"), forder=case.get("forder", "asc"))
    k_all = min(f.n_valid, f.P_valid)
    full = case["n_modes"] == "all"
    k = k_all if full else int(case["n_modes"])
    hilbert = case["model"] == "HilbertEOF"
    cx = Ctx(case, _base_feats(case, [f]))
    feats = dict(center=case["center"])
    sfeats = dict(dataset_input=bool(f.has_dataset))

    def fit(m, flds, other):
        g = flds[0]
        return m.fit(g.obj, dim=list(g.sdims) if g.ns > 1 else "time", weights=g.weights if (case["weights"] and not other) else None)

    m = _fit_with_provenance(cx, case, make_single, [(f, "S")], seed, k, fit)
    if m is None:
        return dict(violations=cx.V, outcome="violation", nontrivial=False)
    modes = np.arange(1, k + 1)
    ncmp = {"i": 0, "ii": 0, "iii": 0, "sel": 0}

    # ---- (i) reconstruction from the model's own scores
    sc = cx.call("scores", m.scores)
    if full and sc is not None:
        rec = cx.call("inverse_transform", m.inverse_transform, sc)
        if rec is not None:
            ncmp["i"] += check_reconstruction(cx, f, rec, "inverse_transform(scores())", feats)
            cx.done.append("i")

    # ---- (ii) transform(inverse_transform(s)) == s
    r_new = None
    mag = score_magnitude(sc, f)
    if not hilbert:
        for var in variants_of(case):
            s = score_array(f, modes, var, case["cplx"], seed, 1, mag)
            r = cx.call("inverse_transform", m.inverse_transform, s)
            if r is None:
                continue
            if not has_sample_dims(cx, f, r, s, "s on '%s' sample coordinates" % var, sfeats):
                continue
            if var == "new":
                r_new = r
            t = cx.call("transform", m.transform, r)
            if t is None:
                continue
            ncmp["ii"] += check_like(cx, "roundtrip", t, s, f, "transform(inverse_transform(s)), s on '%s' sample coordinates" % var, feats)
            if "ii" not in cx.done:
                cx.done.append("ii")

    # ---- (iii) normalized switches
    sc0 = cx.call("scores", m.scores, normalized=False)
    sc1 = cx.call("scores", m.scores, normalized=True)
    if sc0 is not None and sc1 is not None:
        try:
            c = mode_norms(f, sc0)
        except StructErr as e:
            cx.bad("scores_structure", str(e), **feats)
            c = None
        if c is not None and not (c.size and np.all(np.isfinite(c)) and c.max() > 0):
            cx.bad("scores_norm", "score norms %s" % c, **feats)
            c = None
        if c is not None:
            keep = modes[c > 1e-9 * c.max()]
            import xarray as xr

            cda = xr.DataArray(c, dims=("mode",), coords={"mode": modes})
            ncmp["iii"] += check_like(cx, "normalized_scores", sc1 * cda, sc0, f, "scores(normalized=True) * ||scores||", feats, restrict_modes=keep)
            cp0 = cx.call("components", m.components, normalized=False)
            cp1 = cx.call("components", m.components, normalized=True)
            if cp0 is not None and cp1 is not None:
                ncmp["iii"] += _check_components_switch(cx, f, cp0, cp1, c, modes, keep, feats)
            # data for the transform switch: the NaN-free reconstruction of clause (ii) (transform of data holding a
            # fully-NaN sample is C04/C06's subject), else the training data
            tdata = r_new if r_new is not None else (f.obj if case["nan"] != "sample" else None)
            if not hilbert and tdata is not None:
                t0 = cx.call("transform", m.transform, tdata, normalized=False)
                t1 = cx.call("transform", m.transform, tdata, normalized=True)
                if t0 is not None and t1 is not None:
                    try:
                        ncmp["iii"] += check_like(cx, "normalized_transform", t1 * cda, t0 if r_new is not None else _valid_part(f, t0), f, "transform(X, normalized=True) * ||scores||", feats, restrict_modes=keep)
                    except StructErr as e:
                        cx.bad("normalized_transform_structure", str(e), **feats)
            s = score_array(f, keep, "new", case["cplx"], seed, 2, mag)
            ra = cx.call("inverse_transform", m.inverse_transform, s, normalized=True)
            rb = cx.call("inverse_transform", m.inverse_transform, s * cda.sel(mode=keep), normalized=False)
            if ra is not None and rb is not None:
                ncmp["iii"] += _check_same_data(cx, f, ra, rb, s, "normalized_inverse_transform", "inverse_transform(s, normalized=True) vs inverse_transform(s * ||scores||)", feats)
            if case.get("msel") and len(keep) >= 2:
                # un-normalised scores at the model's score magnitude, normalised ones at magnitude one
                for flag, mg, salt in ((False, mag, 3), (True, 1.0, 4)):
                    sm = score_array(f, keep, "new", case["cplx"], seed, salt, mg)
                    ncmp["sel"] += check_mode_selections(
                        cx, [("S", f)], lambda arrs, fl: [m.inverse_transform(arrs[0], normalized=fl)],
                        None if hilbert else (lambda rec: [m.transform(rec[0])]), [sm], keep, lambda nm: feats, [flag])
                cx.done.append("sel")
            cx.done.append("iii")

    need = (["i"] if full else []) + ([] if hilbert else ["ii"]) + ["iii"] + (["sel"] if case.get("msel") and k >= 2 else [])
    nontriv = not cx.V and all(x in cx.done and ncmp[x] > 0 for x in need)
    return dict(violations=cx.V, outcome="violation" if cx.V else "ok", nontrivial=nontriv,
                info=dict(k=int(k), clauses="".join(cx.done), compared=ncmp, restored=["S"] if "i" in cx.done else [], prov=case["prov"], maxerr=cx.maxerr))


def _valid_part(f, t):
    """drop a fully-NaN training sample from a score-like array when it is addressed by one label."""
    if f.ns == 1 and f.n_valid < f.n and "time" in t.dims:
        lab = sample_labels(f, True)["time"]
        have = set(t.time.values.tolist())
        return t.sel(time=[x for x in lab.tolist() if x in have])
    return t


def _check_components_switch(cx, f, cp0, cp1, c, modes, keep, feats, tag=""):
    n = 0
    idx = np.searchsorted(modes, keep)
    for pc in f.pieces:
        try:
            lab = {d: pc["fcoords"][d] for d in pc["fdims"]}
            lab["mode"] = keep
            a0 = values(get_piece(cp0, f, pc), lab)
            a1 = values(get_piece(cp1, f, pc), lab)
        except StructErr as e:
            cx.bad("components_structure", "components%s, piece %s: %s" % (tag, pc["path"], e), **feats)
            continue
        mask = np.isfinite(a1)
        e = relerr(a1 * c[idx], a0, mask & np.isfinite(a0)) if np.array_equal(np.isfinite(a0), mask) else np.inf
        n += int(mask.sum())
        cx.err("normalized_components", e)
        if not e <= 10 * TOL:
            cx.bad("normalized_components", "components%s(normalized=False) vs components(normalized=True) * ||scores||, piece %s: rel. deviation %.3e" % (tag, pc["path"], e), **feats)
    return n


def _check_same_data(cx, f, ra, rb, s, check, what, feats, tol=TOL):
    n = 0
    for pc in f.pieces:
        try:
            oa, ob = get_piece(ra, f, pc), get_piece(rb, f, pc)
            sd = [d for d in f.sdims if d in oa.dims]
            lab = {d: s.coords[d].values for d in sd}
            lab.update({d: pc["fcoords"][d] for d in pc["fdims"]})
            a, b = values(oa, lab), values(ob, lab)
        except StructErr as e:
            cx.bad(check + "_structure", "%s, piece %s: %s" % (what, pc["path"], e), **feats)
            continue
        mask = np.isfinite(b)
        e = relerr(a, b, mask & np.isfinite(a)) if np.array_equal(np.isfinite(a), mask) else np.inf
        n += int(mask.sum())
        cx.err(check, e)
        if not e <= 10 * tol:
            cx.bad(check, "%s, piece %s: rel. deviation %.3e" % (what, pc["path"], e), **feats)
    return n


def mode_selections(s, keep):
    """selections of a score array along `mode`, as (name, selected array, list of selected modes)."""
    k = [int(x) for x in keep]
    if len(k) < 2:
        return []
    a, b, j = k[0], k[-1], k[len(k) // 2]
    sub = [a, b] if len(k) >= 3 else [b]
    reo = sub[::-1] if len(sub) > 1 else [b, a]
    return [
        ("subset", s.sel(mode=sub), sub),
        ("reordered", s.sel(mode=reo), reo),
        ("single_list", s.sel(mode=[j]), [j]),
        ("scalar_sel", s.sel(mode=j), [j]),
        ("scalar_isel", s.isel(mode=k.index(j)), [j]),
    ]


def check_mode_selections(cx, fields, inv, tr, arrays, keep, feats_of, flags, tol=TOL):
    """clause (ii)/(iii) on mode selections: by linearity, reconstructing a selection of modes must equal reconstructing
    the full array with every other mode set to zero (a relation between two runs of the real code), whether the modes
    are picked as a list, in another order, or as a scalar coordinate; and transforming it back must return the
    selection on its modes and zero on the others. `arrays` holds one score array per field; `inv(list_of_arrays, flag)`
    and `tr(reconstruction)` wrap the model's calls and return one object per field (tr may be None)."""
    n = 0
    names = [x[0] for x in mode_selections(arrays[0], keep)]
    for flag in flags:
        refs = {}
        for si, name in enumerate(names):
            sels = [mode_selections(a, keep)[si] for a in arrays]
            modes = sels[0][2]
            key = tuple(sorted(modes))
            zeros = [a.where(a.mode.isin(modes), 0.0) for a in arrays]
            if key not in refs:
                refs[key] = cx.call("inverse_transform", inv, zeros, flag)
            ra = cx.call("inverse_transform", inv, [x[1] for x in sels], flag)
            rb = refs[key]
            if ra is None or rb is None:
                continue
            for i, (nm, f) in enumerate(fields):
                fe = dict(feats_of(nm), selection=name, **({} if flag is None else {"normalized": bool(flag)}))
                n += _check_same_data(cx, f, ra[i], rb[i], arrays[i], "mode_selection", "inverse_transform(s[%s])%s vs inverse_transform(s with the other modes zeroed)%s"
                                      % (name, "" if flag is None else " normalized=%s" % flag, (", field %s" % nm) if nm != "S" else ""), fe, tol=tol)
            if tr is not None and not flag and name in ("reordered", "scalar_sel"):
                t = cx.call("transform", tr, ra)
                if t is None:
                    continue
                for i, (nm, f) in enumerate(fields):
                    fe = dict(feats_of(nm), selection=name)
                    n += check_like(cx, "roundtrip_selection", t[i], zeros[i], f, "transform(inverse_transform(s[%s]))%s" % (name, (", field %s" % nm) if nm != "S" else ""),
                                    fe, restrict_modes=np.asarray(keep), tol=tol)
    return n


def run_cross(case, seed):
    chunk = case["prov"] == "deferred"
    sx, sy = case["sizes"]
    wts = case["weights"]
    fx = build_field(case["cont"], sx, case["n"], case["ns"], case["spec"], case["scale"], case["cplx"], seed, case["nan"], 2, wts[0], chunk=chunk, ratio=case.get("ratio", 1.0), wkind=case.get("wkind", "float"), forder=case.get("forder", "asc"))
    fy = build_field(case["cont"], sy, case["n"], case["ns"], case["spec"], case["scale"], case["cplx"], seed, case["nan"], 3, wts[1], chunk=chunk, ratio=case.get("ratio", 1.0), wkind=case.get("wkind", "float"), forder=case.get("forder", "asc"))
    k_all = min(fx.P_valid, fy.P_valid)
    full = case["n_modes"] == "all"
    k = k_all if full else int(case["n_modes"])
    cx = Ctx(case, _base_feats(case, [fx, fy]))
    alpha = case["alpha"]
    feats0 = dict(alpha_lt_1=bool(min(alpha) < 1.0), use_pca=bool(case["pca"]))
    if case["scale"] < 1e-4:
        feats0["tiny_units"] = True
    if case.get("ratio", 1.0) > 1.0:
        feats0["ill_scaled"] = True
    sfeats = dict(dataset_input=bool(fx.has_dataset or fy.has_dataset))
    dim = list(fx.sdims) if fx.ns > 1 else "time"

    def fit(m, flds, other):
        gx, gy = flds
        return m.fit(gx.obj, gy.obj, dim=dim, weights_X=None if other else gx.weights, weights_Y=None if other else gy.weights)

    m = _fit_with_provenance(cx, case, make_cross, [(fx, sx), (fy, sy)], seed, k, fit)
    if m is None:
        return dict(violations=cx.V, outcome="violation", nontrivial=False)
    modes = np.arange(1, k + 1)
    ncmp = {"i": 0, "ii": 0, "iii": 0, "sel": 0}
    restored = []
    fields = (("X", fx), ("Y", fy))
    # accuracy-aware tolerance: a field whose covariance is numerically singular in the space that gets whitened
    # (rank-deficient data, p > n-1, or a zero-variance principal component kept by n_pca_modes='all') is whitened
    # with a pseudo-power whose cut-off sits at machine eps; rounding is then amplified by up to (s1/eps)^((1-alpha)/2)
    rk = [numeric_rank(fx), numeric_rank(fy)]
    singular = False
    for a_, f_, r_ in zip(alpha, (fx, fy), rk):
        dim_w = min(f_.n_valid, f_.P_valid) if case["pca"] else f_.P_valid
        if a_ < 1.0 and r_ < dim_w:
            singular = True
    tol = 1e-6 if singular else TOL

    # ---- (i)
    sc = cx.call("scores", m.scores)
    if full and sc is not None:
        rec = cx.call("inverse_transform", m.inverse_transform, sc[0], sc[1])
        for i, (nm, f) in enumerate(fields):
            if f.P_valid > k:
                continue  # the property does not speak about a field with more features than modes
            restored.append(nm)
            if rec is not None:
                if not isinstance(rec, (list, tuple)) or len(rec) != 2:
                    cx.bad("reconstruction_structure", "inverse_transform(X, Y) returned %s" % type(rec).__name__, field=nm, **feats0)
                else:
                    ncmp["i"] += check_reconstruction(cx, f, rec[i], "inverse_transform(*scores())[%s]" % nm, dict(feats0, field=nm), tol=tol)
        if rec is not None:
            cx.done.append("i")

    # ---- (ii)
    rmodes = modes
    if min(alpha) < 1.0:
        rmodes = modes[: max(1, min(k, rk[0], rk[1]))]
    mags = [score_magnitude(sc[i], f) if isinstance(sc, (list, tuple)) and len(sc) == 2 else f.scale for i, (_, f) in enumerate(fields)]
    r_new = None
    for var in variants_of(case):
        s1 = score_array(fx, rmodes, var, case["cplx"], seed, 11, mags[0])
        s2 = score_array(fy, rmodes, var, case["cplx"], seed, 12, mags[1])
        r = cx.call("inverse_transform", m.inverse_transform, s1, s2)
        if r is None:
            continue
        if not isinstance(r, (list, tuple)) or len(r) != 2:
            cx.bad("roundtrip_structure", "inverse_transform(X, Y) returned %s" % type(r).__name__, **feats0)
            continue
        ok = [has_sample_dims(cx, f, r[i], s, "s on '%s' sample coordinates, field %s" % (var, nm), sfeats) for i, ((nm, f), s) in enumerate(zip(fields, (s1, s2)))]
        if not all(ok):
            continue
        if var == "new":
            r_new = r
        t = cx.call("transform", m.transform, r[0], r[1])
        if t is not None:
            if not isinstance(t, (list, tuple)) or len(t) != 2:
                cx.bad("roundtrip_structure", "transform(X, Y) returned %s" % type(t).__name__, **feats0)
            else:
                for i, ((nm, f), s) in enumerate(zip(fields, (s1, s2))):
                    ncmp["ii"] += check_like(cx, "roundtrip", t[i], s, f, "transform(inverse_transform(s))[%s], s on '%s' sample coordinates" % (nm, var), dict(feats0, field=nm), restrict_modes=rmodes, tol=tol)
                if "ii" not in cx.done:
                    cx.done.append("ii")
        if var == "new" and "train" in variants_of(case):  # one-sided calls
            for i, ((nm, f), s) in enumerate(zip(fields, (s1, s2))):
                kwi = {nm: s}
                r1 = cx.call("inverse_transform", m.inverse_transform, **kwi)
                if r1 is None or not has_sample_dims(cx, f, r1, s, "one-sided, field %s" % nm, sfeats):
                    continue
                t1 = cx.call("transform", m.transform, **{nm: r1})
                if t1 is not None:
                    ncmp["ii"] += check_like(cx, "roundtrip", t1, s, f, "transform(%s=inverse_transform(%s=s))" % (nm, nm), dict(feats0, field=nm), restrict_modes=rmodes, tol=tol)

    # ---- mode selections (cross-set inverse_transform has no normalized switch)
    if case.get("msel") and len(rmodes) >= 2:
        sm = [score_array(f, rmodes, "new", case["cplx"], seed, 21 + i, mags[i]) for i, (_, f) in enumerate(fields)]
        ncmp["sel"] += check_mode_selections(
            cx, fields, lambda arrs, fl: m.inverse_transform(arrs[0], arrs[1]), lambda rec: m.transform(rec[0], rec[1]), sm, rmodes,
            lambda nm: dict(feats0, field=nm), [None], tol=tol)
        cx.done.append("sel")

    # ---- (iii)
    sc0 = cx.call("scores", m.scores, normalized=False)
    sc1 = cx.call("scores", m.scores, normalized=True)
    cp0 = cx.call("components", m.components, normalized=False)
    cp1 = cx.call("components", m.components, normalized=True)
    tdata = r_new if r_new is not None else ([fx.obj, fy.obj] if case["nan"] != "sample" else None)
    t0 = t1 = None
    if tdata is not None:
        t0 = cx.call("transform", m.transform, tdata[0], tdata[1], normalized=False)
        t1 = cx.call("transform", m.transform, tdata[0], tdata[1], normalized=True)
    if sc0 is not None and sc1 is not None:
        import xarray as xr

        for i, (nm, f) in enumerate(fields):
            fe = dict(feats0, field=nm)
            try:
                c = mode_norms(f, sc0[i])
            except StructErr as e:
                cx.bad("scores_structure", "field %s: %s" % (nm, e), **fe)
                continue
            if not (c.size and np.all(np.isfinite(c)) and c.max() > 0):
                cx.bad("scores_norm", "field %s: score norms %s" % (nm, c), **fe)
                continue
            keep = modes[c > 1e-9 * c.max()]
            cda = xr.DataArray(c, dims=("mode",), coords={"mode": modes})
            ncmp["iii"] += check_like(cx, "normalized_scores", sc1[i] * cda, sc0[i], f, "scores(normalized=True)[%s] * ||scores||" % nm, fe, restrict_modes=keep)
            if cp0 is not None and cp1 is not None:
                ncmp["iii"] += _check_components_switch(cx, f, cp0[i], cp1[i], c, modes, keep, fe, tag="[%s]" % nm)
            if t0 is not None and t1 is not None:
                ncmp["iii"] += check_like(cx, "normalized_transform", t1[i] * cda, t0[i] if r_new is not None else _valid_part(f, t0[i]), f, "transform(normalized=True)[%s] * ||scores||" % nm, fe, restrict_modes=keep)
        cx.done.append("iii")

    need = (["i"] if full and restored else []) + ["ii", "iii"] + (["sel"] if case.get("msel") and len(rmodes) >= 2 else [])
    nontriv = not cx.V and all(x in cx.done and ncmp[x] > 0 for x in need)
    return dict(violations=cx.V, outcome="violation" if cx.V else "ok", nontrivial=nontriv,
                info=dict(k=int(k), clauses="".join(cx.done), compared=ncmp, restored=restored, alpha=alpha, rmodes=int(len(rmodes)), prov=case["prov"], maxerr=cx.maxerr, singular_whitening=bool(singular)))


# ----------------------------------------------------------------------------- coverage summary


def finalize(cases_, results, tier, seed):
    from collections import Counter

    ncase, nnum, restored, provs = Counter(), Counter(), Counter(), Counter()
    for c, r in zip(cases_, results):
        info = r.get("info") or {}
        for x, n in (info.get("compared") or {}).items():
            if n > 0:
                ncase[x] += 1
                nnum[x] += n
                if x == "i":
                    provs[c["prov"]] += 1
        for f in info.get("restored", []):
            restored[f] += 1
    worst, worst_sing, n_sing = {}, {}, 0
    for r in results:
        info = r.get("info") or {}
        n_sing += bool(info.get("singular_whitening"))
        if r.get("violations"):
            continue
        w = worst_sing if info.get("singular_whitening") else worst
        for k, e in (info.get("maxerr") or {}).items():
            w[k] = max(w.get(k, 0.0), e)
    return [], dict(
        largest_relative_deviation_in_passing_cases={k: float("%.3g" % v) for k, v in sorted(worst.items())},
        largest_relative_deviation_in_passing_cases_with_singular_whitening={k: float("%.3g" % v) for k, v in sorted(worst_sing.items())},
        cases_with_singular_whitening=n_sing,
        clause_cases_compared={"i_reconstruction": ncase["i"], "ii_roundtrip": ncase["ii"], "iii_normalized_switches": ncase["iii"], "mode_selections": ncase["sel"]},
        clause_numbers_compared={"i_reconstruction": nnum["i"], "ii_roundtrip": nnum["ii"], "iii_normalized_switches": nnum["iii"], "mode_selections": nnum["sel"]},
        fields_checked_for_reconstruction=dict(restored),
        reconstruction_cases_by_provenance=dict(provs),
    )


# ----------------------------------------------------------------------------- vacuity


def vacuity(outcomes, results, tier):
    seen = {"single": set(), "cross": set()}
    restored = set()
    alphas = set()
    provs = set()
    judged = 0
    for r in results:
        info = r.get("info") or {}
        if not info:
            continue
        judged += 1
        fam = "cross" if "alpha" in info else "single"
        for x in ("i", "ii", "iii", "sel"):
            if info["compared"].get(x, 0) > 0:
                seen[fam].add(x)
        restored |= set(info.get("restored", []))
        if info["compared"].get("i", 0) > 0:
            provs.add(info.get("prov"))
        if "alpha" in info and info["compared"].get("i", 0) > 0:
            alphas.add(tuple(info["alpha"]))
    for fam, s in seen.items():
        if s != {"i", "ii", "iii", "sel"}:
            return "%s-set models: clauses %s never compared anything" % (fam, sorted({"i", "ii", "iii", "sel"} - s))
    if restored != {"S", "X", "Y"}:
        return "reconstruction was compared only for %s" % sorted(restored)
    if len(alphas) < 16:
        return "reconstruction compared for only %d of the 16 whitening degrees" % len(alphas)
    if tier == "thorough" and provs != {"fresh", "refit", "deferred", "deserialized"}:
        return "reconstruction was compared only for provenance %s" % sorted(provs)
    if judged < 0.95 * len(results):
        return "only %d of %d cases reached the oracle" % (judged, len(results))
    return None
