"""C05 — Out-of-sample transform is a per-sample map labelled by the new data. Explorer G (subset lattice).

For every fitted transform-capable model and every new data set D of the alphabet the explored graph is the lattice of
sub-data-sets of D: a state is (fitted model, subset S of D's samples), reached by really calling
``model.transform(D[S])``; a transition is a cover edge S -> S u {j} of the lattice (for two sample dimensions: adding
one label of one sample dimension).  In every state the observation "list of (sample label, score row)" is taken from
the returned object and four invariants are evaluated; on every edge the relation transform(D[S]) = transform(D[T])|S.

Oracle clauses (check names)
  raised                 transform raised on an input the quantifier covers
  result_dims            result is a DataArray over exactly the new data's sample dims + 'mode', modes 1..k
  sample_labels     (i)  the multiset of returned sample labels is the new data's own (all-NaN samples may be missing);
                         a MultiIndex comes back as a MultiIndex with the new data's level names
  spurious_nan      (ii) no NaN in the scores of a sample that was not entirely missing
  subset_commutes  (iii) on every lattice edge S < T: the rows of transform(D[S]) are, label by label, among the rows of
                         transform(D[T]) and what remains carries exactly the labels of T minus S
  per_sample_value       "each sample's scores depend only on that sample and the model": the row of sample i equals
                         the row the same feature vector gets in a data set with other (disjoint, unique) coordinates
  train_subset_scores (iv) for data sets made of training samples: rows equal the corresponding rows of scores()

Nothing here copies an xeofs formula: (iii), per_sample_value are relations between runs of the real code, (iv) ties
them to the fitted scores, (i)/(ii) are read off the labels of the caller's own input.
"""

from __future__ import annotations

import contextlib
import functools
import io
import itertools
import os
import traceback
import warnings
from collections import Counter

import numpy as np
import pandas as pd
import xarray as xr

from .. import data as D
from ..core import viol

ID = "C05"
LEVEL = "model_checking"
TECHNIQUE = (
    "explicit-state exploration of the subset lattice of every new data set on the real fitted models: one real transform per "
    "state (model, subset), label/NaN/value invariants in every state, the restriction relation transform(X[S]) = transform(X)[S] on every cover edge"
)
RULE = (
    "states = (fitted model, subset S) for every non-empty subset S of the samples of every new data set (all 2^n-1 subsets for one sample "
    "dimension / MultiIndex, all rectangular sub-blocks for two sample dimensions); transitions = cover edges S -> S+{label} on which "
    "transform(X[S]) = transform(X[T])|S is evaluated label by label; a trace is a maximal chain (singleton -> whole data set) all of whose "
    "states and edges were validated. Alphabet: model class (EOF, ComplexEOF, SparsePCA, POP, EOFRotator, ComplexEOFRotator, CPCCA alpha .5/1, "
    "MCA, CCA, RDA, ComplexCPCCA, ComplexMCA [ComplexCCA, ComplexRDA thorough], CPCCARotator alpha .5/1, MCARotator, ComplexCPCCARotator, "
    "ComplexMCARotator, multi.CCA; option variants on the base layouts: rotator power 2 (3 thorough) for every rotator class, per-field alpha [.5,1] and n_pca_modes [3,2], MCA with PCA) x sample structure (one dim, two dims, MultiIndex, fit MultiIndex/new plain, fit plain/new MultiIndex, list of two fields on one sample dim) x "
    "coordinates (disjoint, overlapping, equal to training, repeated, training rows at own / at new coordinates, one all-NaN sample, repeated labels with an all-NaN sample sharing / not sharing its label with valid samples; list input: items entirely missing at different samples, equal and unequal counts) x "
    "n_new = 5 (two dims: 3x2 block; quick: 3 resp. 2x2 outside the key classes), whose lattice contains as lower ideals the complete lattices of "
    "its 1..4-sample (1x1..2x2) prefixes, x arguments (X and Y, X only, Y only) [x normalized (quick: one_dim, disjoint/train_subset only), standardize+coslat: thorough]"
)
LEVEL_TEXT = (
    "exhaustive exploration of the complete subset lattice of each new data set of the stated alphabet for each fitted model; "
    "invariants (own labels, no spurious NaN, per-sample value, equality with fitted scores) in every state, restriction relation on every cover edge"
)
ASSUMPTIONS = [
    "one configuration per model class (alpha in {0.5, 1} for CPCCA and its rotator) and one training set per sample structure stand for 'all fitted models'",
    "new data sets have at most 5 samples (6 for the 3x2 two-dimensional block); the feature layout is that of the training data",
    "two sample dimensions: sub-data-sets are the rectangular sub-blocks (what isel on the sample dims can express); non-rectangular subsets only through the all-NaN-sample class",
    "a sub-data-set consisting only of entirely missing samples is outside the quantifier (1..N samples) and not a state",
    "list-fitted models: a sample at which one item is entirely missing is incomplete (accepted absent or all-NaN, never scored); sub-data-sets without a complete sample are not states; incomplete samples carry unique labels",
    "the numeric catalogue (geometric spectrum, orthogonal factors drawn from VERIF_SEED) stands for 'all values'",
]
TALLY_KEYS = ("model", "structure", "coords", "args", "normalized", "prep")
TRUSTED = ["statsmodels import shim (cross-set constructors)", "xarray isel / label semantics"]
MAX_REFUSED_FRACTION = 0.0

TOL = 1e-9
N_TRAIN = 10  # two dims: 5 x 2

# ----------------------------------------------------------------------------- model alphabet
#   name -> (family, class name, base class name or None, ctor kwargs, base ctor kwargs, complex data)

_PCA = dict(use_pca=True, n_pca_modes=3)
MODELS = {
    "EOF": ("single", "EOF", None, dict(n_modes=3, random_state=3), None, False),
    "ComplexEOF": ("single", "ComplexEOF", None, dict(n_modes=3, random_state=3), None, True),
    "SparsePCA": ("single", "SparsePCA", None, dict(n_modes=2, alpha=1e-3, random_state=3, solver="full"), None, False),
    "POP": ("single", "POP", None, dict(n_modes=2, n_pca_modes=3, random_state=3), None, False),
    "EOFRotator": ("single", "EOFRotator", "EOF", dict(n_modes=3, power=1), dict(n_modes=4, random_state=3), False),
    "EOFRotator_p2": ("single", "EOFRotator", "EOF", dict(n_modes=3, power=2), dict(n_modes=4, random_state=3), False),
    "ComplexEOFRotator": ("single", "ComplexEOFRotator", "ComplexEOF", dict(n_modes=3, power=1), dict(n_modes=4, random_state=3), True),
    "CPCCA_a05": ("cross", "CPCCA", None, dict(n_modes=2, alpha=0.5, random_state=3, **_PCA), None, False),
    "CPCCA_a1": ("cross", "CPCCA", None, dict(n_modes=2, alpha=1.0, use_pca=False, random_state=3), None, False),
    "MCA": ("cross", "MCA", None, dict(n_modes=2, use_pca=False, random_state=3), None, False),
    "CCA": ("cross", "CCA", None, dict(n_modes=2, random_state=3, **_PCA), None, False),
    "RDA": ("cross", "RDA", None, dict(n_modes=2, random_state=3, **_PCA), None, False),
    "ComplexCPCCA_a05": ("cross", "ComplexCPCCA", None, dict(n_modes=2, alpha=0.5, random_state=3, **_PCA), None, True),
    "ComplexMCA": ("cross", "ComplexMCA", None, dict(n_modes=2, use_pca=False, random_state=3), None, True),
    "ComplexCCA": ("cross", "ComplexCCA", None, dict(n_modes=2, random_state=3, **_PCA), None, True),
    "ComplexRDA": ("cross", "ComplexRDA", None, dict(n_modes=2, random_state=3, **_PCA), None, True),
    "CPCCARotator_a05": ("cross", "CPCCARotator", "CPCCA", dict(n_modes=2, power=1), dict(n_modes=3, alpha=0.5, random_state=3, **_PCA), False),
    "CPCCARotator_a1": ("cross", "CPCCARotator", "CPCCA", dict(n_modes=2, power=1), dict(n_modes=3, alpha=1.0, use_pca=False, random_state=3), False),
    "MCARotator": ("cross", "MCARotator", "MCA", dict(n_modes=2, power=1), dict(n_modes=3, use_pca=False, random_state=3), False),
    "ComplexCPCCARotator_a05": ("cross", "ComplexCPCCARotator", "ComplexCPCCA", dict(n_modes=2, power=1), dict(n_modes=3, alpha=0.5, random_state=3, **_PCA), True),
    "ComplexMCARotator": ("cross", "ComplexMCARotator", "ComplexMCA", dict(n_modes=2, power=1), dict(n_modes=3, use_pca=False, random_state=3), True),
    # ---- option variants: constructor options that select another code path in transform (oblique rotation R^-T != R,
    #      per-field alpha / PCA truncation). Explored on the base layouts (see VARIANT_MODELS)
    "ComplexEOFRotator_p2": ("single", "ComplexEOFRotator", "ComplexEOF", dict(n_modes=3, power=2), dict(n_modes=4, random_state=3), True),
    "EOFRotator_p3": ("single", "EOFRotator", "EOF", dict(n_modes=3, power=3), dict(n_modes=4, random_state=3), False),
    "CPCCARotator_a05_p2": ("cross", "CPCCARotator", "CPCCA", dict(n_modes=2, power=2), dict(n_modes=3, alpha=0.5, random_state=3, **_PCA), False),
    "MCARotator_p2": ("cross", "MCARotator", "MCA", dict(n_modes=2, power=2), dict(n_modes=3, use_pca=False, random_state=3), False),
    "MCARotator_p3": ("cross", "MCARotator", "MCA", dict(n_modes=2, power=3), dict(n_modes=3, use_pca=False, random_state=3), False),
    "ComplexCPCCARotator_a05_p2": ("cross", "ComplexCPCCARotator", "ComplexCPCCA", dict(n_modes=2, power=2), dict(n_modes=3, alpha=0.5, random_state=3, **_PCA), True),
    "ComplexMCARotator_p2": ("cross", "ComplexMCARotator", "ComplexMCA", dict(n_modes=2, power=2), dict(n_modes=3, use_pca=False, random_state=3), True),
    "CPCCA_a05_a1_pca32": ("cross", "CPCCA", None, dict(n_modes=2, alpha=[0.5, 1.0], use_pca=True, n_pca_modes=[3, 2], random_state=3), None, False),
    "MCA_pca32": ("cross", "MCA", None, dict(n_modes=2, use_pca=True, n_pca_modes=[3, 2], random_state=3), None, False),
    "CPCCARotator_a05_a1_pca32": ("cross", "CPCCARotator", "CPCCA", dict(n_modes=2, power=1), dict(n_modes=2, alpha=[0.5, 1.0], use_pca=True, n_pca_modes=[3, 2], random_state=3), False),
    # ---- rotators whose variance ranking is a permutation that is NOT its own inverse (a cycle of length >= 3): the only
    #      rankings on which applying the inverse re-ordering differs from applying the re-ordering. Training data: see cyc_salt
    "EOFRotator_cyc": ("single", "EOFRotator", "EOF", dict(n_modes=5, power=1), dict(n_modes=5, random_state=3), False),
    "EOFRotator_cyc_p2": ("single", "EOFRotator", "EOF", dict(n_modes=5, power=2), dict(n_modes=5, random_state=3), False),
    "multi.CCA": ("multi", "CCA", None, dict(n_modes=2, pca=False), None, False),
    "multi.CCA_pca": ("multi", "CCA", None, dict(n_modes=2, pca=True, variance_fraction=0.9, init_pca_modes=3), None, False),
}
# option variants run on the base layouts only: one_dim (+ two_dims thorough), the coordinate classes below, not Y-only
VARIANT_MODELS = (
    "EOFRotator_p2", "ComplexEOFRotator_p2", "EOFRotator_p3", "CPCCARotator_a05_p2", "MCARotator_p2", "MCARotator_p3", "ComplexCPCCARotator_a05_p2",
    "ComplexMCARotator_p2", "CPCCA_a05_a1_pca32", "MCA_pca32", "CPCCARotator_a05_a1_pca32", "EOFRotator_cyc", "EOFRotator_cyc_p2",
)
VARIANT_COORDS = {"quick": ("disjoint", "train_subset"), "thorough": ("disjoint", "repeats", "train_subset", "train_moved", "nan_sample")}
THOROUGH_ONLY_MODELS = ("EOFRotator_p3", "MCARotator_p3", "ComplexMCARotator_p2", "CPCCA_a1", "RDA", "ComplexCPCCA_a05", "ComplexCCA", "ComplexRDA", "CPCCARotator_a1", "ComplexMCARotator", "multi.CCA_pca")


def class_of(model):
    fam, cls = MODELS[model][0], MODELS[model][1]
    return "multi." + cls if fam == "multi" else cls


STRUCTURES = ("one_dim", "two_dims", "multiindex", "mi_fit_plain_new", "plain_fit_mi_new", "list_one_dim")
# list_one_dim: the model is fitted on a LIST [grid field, station field] (cross-set: X is that list, Y a third field);
# every item is sanitised on its own, so items may be entirely missing at DIFFERENT samples of the new data
QUICK_LIST_MODELS = ("EOF", "EOFRotator", "MCA")
COORDS = ("disjoint", "overlap", "equal", "repeats", "train_subset", "train_moved", "nan_sample", "repeats_nan_shared", "repeats_nan_unique", "list_nan_cross", "list_nan_unequal")
# repeated sample labels combined with one entirely missing sample: its label is also carried by valid samples
# ("shared": dropping it BY LABEL would silently drop those too) / is unique next to repeated valid labels
NAN_KINDS = ("nan_sample", "repeats_nan_shared", "repeats_nan_unique")
REPEATS_NAN = ("repeats_nan_shared", "repeats_nan_unique")
QUICK_REPEATS_NAN_MODELS = ("EOF", "MCA", "EOFRotator", "CPCCARotator_a05")
# list input only: item 0 entirely missing at sample 1 (unequal: 1 and 2), item 1 entirely missing at sample 3. Such a sample
# is incomplete (its scores are NaN or it is absent); every complete sample must keep exactly the scores it gets alone.
LIST_NAN = {"list_nan_cross": ((1,), (3,)), "list_nan_unequal": ((1, 2), (3,))}


def _fit_is_mi(structure):
    return structure in ("multiindex", "mi_fit_plain_new")


def _new_is_mi(structure):
    return structure in ("multiindex", "plain_fit_mi_new")


def _admissible(structure, coords):
    if structure in ("mi_fit_plain_new", "plain_fit_mi_new") and coords in ("overlap", "equal", "train_subset"):
        return False  # training labels are not expressible in the other index kind
    if coords in LIST_NAN and structure != "list_one_dim":
        return False
    if structure == "list_one_dim" and coords in REPEATS_NAN:
        return False
    if structure == "two_dims" and coords in REPEATS_NAN:
        return False  # a repeated label in one of two sample dims cannot be unstacked at all (known finding C05-K1, class 'repeats')
    return True


def sizes_for(tier, structure, coords, fam, args, secondary):
    """The new data sets whose complete lattices one case explores (n_new; two dims: block nt x nr).

    The labels and values of the n-sample data set are a prefix of those of the larger ones, so the lattice of the
    5-sample set (3x2 block) literally contains, as lower ideals, the complete lattices of its 1-, 2-, 3- and 4-sample
    (1x1 ... 2x2) prefixes: every (model, subset) state of those smaller data sets is a state explored here and is
    checked against the same per-sample prediction. Only the largest one is therefore run."""
    one = structure != "two_dims"
    big, small = (5, 3) if one else ((3, 2), (2, 2))
    if structure == "list_one_dim" and (coords in LIST_NAN or coords == "train_subset"):
        return [5]  # the per-item missing samples sit at positions 1..3
    if tier == "quick":
        key = structure == "one_dim" and coords in ("disjoint", "repeats", "train_subset") + REPEATS_NAN and not (fam == "cross" and args != "XY")
        n = big if key else small
    else:
        n = small if secondary else big
    return [list(n) if isinstance(n, tuple) else n]


def cases(tier, seed):
    out = []
    quick = tier == "quick"
    for model in MODELS:
        if quick and model in THOROUGH_ONLY_MODELS:
            continue
        fam = MODELS[model][0]
        argsets = ["XY", "X", "Y"] if fam == "cross" else (["views"] if fam == "multi" else ["X"])
        for structure in STRUCTURES:
            if structure == "list_one_dim" and (fam == "multi" or (quick and model not in QUICK_LIST_MODELS)):
                continue
            if model in VARIANT_MODELS and structure not in (("one_dim",) if quick else ("one_dim", "two_dims")):
                continue
            for coords in COORDS:
                for args in argsets:
                    for normalized in (False, True):
                        for prep in ("default", "std_coslat"):
                            secondary = normalized or prep != "default"
                            if fam == "multi" and secondary:
                                continue
                            if model in VARIANT_MODELS and (coords not in VARIANT_COORDS[tier] or args == "Y" or prep != "default" or (normalized and coords == "repeats")):
                                continue
                            if model in VARIANT_MODELS and quick and (normalized or (fam == "cross" and args != "XY")):
                                continue
                            if secondary:
                                # secondary dimensions: thorough only, base layouts, not Y-only, one at a time
                                quick_ok = normalized and prep == "default" and structure == "one_dim" and coords in ("disjoint", "train_subset") and args in ("XY", "X")
                                if (quick and not quick_ok) or structure not in ("one_dim", "two_dims") or (fam == "cross" and args == "Y") or (normalized and prep != "default"):
                                    continue
                                if coords not in ("disjoint", "repeats", "train_subset"):
                                    continue
                            if quick:
                                if fam == "cross" and args != "XY" and not (structure == "one_dim" and coords in ("disjoint", "train_subset", "nan_sample")) and not (structure == "list_one_dim" and args == "X" and coords in LIST_NAN):
                                    continue
                                if structure in ("mi_fit_plain_new", "plain_fit_mi_new") and coords != "disjoint":
                                    continue
                                if structure in ("two_dims", "multiindex") and coords in ("equal", "train_moved"):
                                    continue
                                if structure == "list_one_dim" and (coords not in ("disjoint", "repeats", "train_subset", "nan_sample") + tuple(LIST_NAN) or args == "Y"):
                                    continue
                                if coords in REPEATS_NAN and (model not in QUICK_REPEATS_NAN_MODELS or structure not in ("one_dim", "multiindex")):
                                    continue
                            elif fam == "cross" and args != "XY" and coords in ("overlap", "equal", "train_moved"):
                                continue
                            if not _admissible(structure, coords):
                                continue
                            sizes = sizes_for(tier, structure, coords, fam, args, secondary)
                            if sizes:
                                out.append(dict(model=model, structure=structure, coords=coords, sizes=sizes, args=args, normalized=normalized, prep=prep))
    out.sort(key=_simplicity)
    return out


def _simplicity(c):
    return (STRUCTURES.index(c["structure"]), COORDS.index(c["coords"]), c["normalized"], c["prep"] != "default", c["args"] not in ("XY", "X", "views"))


# ----------------------------------------------------------------------------- data

LATS = [-50.0, 0.0, 60.0]
LONS = [0.0, 30.0]
STATIONS = ["s1", "s2", "s3", "s4"]
TRAIN_RUNS = ["r0", "r1"]
NEW_RUNS = ["q0", "q1"]


def mi_of(t):
    """integer sample label -> MultiIndex tuple (training 0..9 -> (2000+t//4, t%4); new 100+j -> (2010+j//2, j%2))."""
    t = int(t)
    if t < 100:
        return (2000 + t // 4, t % 4)
    j = t - 100
    return (2010 + j // 2, j % 2)


def _field(M, which, structure_is_mi, sample_labels, shape2=None, runs=None):
    """Build one field. M: (n, p). sample_labels: list of ints (one dim / MultiIndex) or list of time labels (two dims)."""
    n = M.shape[0]
    if which == "X":
        fdims, fcoords, fshape, name = ("lat", "lon"), {"lat": LATS, "lon": LONS}, (3, 2), "sst"
    elif which == "Y":
        fdims, fcoords, fshape, name = ("station",), {"station": STATIONS}, (4,), "precip"
    else:
        fdims, fcoords, fshape, name = ("level",), {"level": [850, 500, 200]}, (3,), "wind"
    if shape2 is not None:
        nt, nr = shape2
        da = xr.DataArray(M.reshape((nt, nr) + fshape), dims=("time", "run") + fdims, coords=dict(time=list(sample_labels), run=list(runs), **fcoords), name=name)
        return da
    if structure_is_mi:
        mi = pd.MultiIndex.from_tuples([mi_of(t) for t in sample_labels], names=("year", "month"))
        da = xr.DataArray(M.reshape((n,) + fshape), dims=("time",) + fdims, coords=fcoords, name=name)
        return da.assign_coords(xr.Coordinates.from_pandas_multiindex(mi, "time"))
    return xr.DataArray(M.reshape((n,) + fshape), dims=("time",) + fdims, coords=dict(time=list(sample_labels), **fcoords), name=name)


def _is_involution(p):
    p = [int(i) for i in p]
    return all(p[p[i]] == i for i in range(len(p)))


CYC_SALTS = range(600, 660)


@functools.lru_cache(maxsize=None)
def cyc_salt(model, seed):
    """Training data for the `_cyc` rotators: the first catalogue matrix (near-equal variances, salts 600..659 in order) on
    which the rotator's variance ranking contains a cycle of length >= 3. The ranking is read from the rotator's own
    bookkeeping (white-box, used ONLY to choose the input - the oracle never looks at it). None if there is none (vacuous)."""
    import xeofs as xe

    fam, cls, basecls, kw, basekw, cplx = MODELS[model]
    pkg = {"single": xe.single, "cross": xe.cross}[fam]
    t = list(range(N_TRAIN))
    for salt in CYC_SALTS:
        Mx = D.make_matrix(N_TRAIN, 6, "near_equal_var", 1.0, cplx, seed, salt=salt)
        My = D.make_matrix(N_TRAIN, 4 if fam == "single" else 5, "near_equal_var", 1.0, cplx, seed, salt=salt + 100) * 2.0 + 1.0
        try:
            b = getattr(pkg, basecls)(**basekw)
            b.fit(_field(Mx, "X", False, t), "time") if fam == "single" else b.fit(_field(Mx, "X", False, t), _field(My, "Y", False, t), "time")
            r = getattr(pkg, cls)(**kw)
            r.fit(b)
            perm = np.asarray(r.data["idx_modes_sorted"].values)
        except Exception:
            continue
        if not _is_involution(perm):
            return salt
    return None


def training(structure, cplx, seed, model=None):
    if model is not None and model.endswith(("_cyc", "_cyc_p2")):
        salt = cyc_salt(model, seed)
        if salt is None:
            raise RuntimeError("harness: no catalogue matrix gives %s a cyclic variance ranking (run_case reports this as vacuous)" % model)
        fam = MODELS[model][0]
        Mx = D.make_matrix(N_TRAIN, 6, "near_equal_var", 1.0, cplx, seed, salt=salt)
        My = D.make_matrix(N_TRAIN, 4 if fam == "single" else 5, "near_equal_var", 1.0, cplx, seed, salt=salt + 100) * 2.0 + 1.0
    else:
        Mx = D.make_matrix(N_TRAIN, 6, "geometric", 1.0, cplx, seed, salt=501)
        My = D.make_matrix(N_TRAIN, 4, "geometric", 1.0, cplx, seed, salt=502) * 2.0 + 1.0
    if structure == "two_dims":
        t = list(range(5))
        X = _field(Mx, "X", False, t, (5, 2), TRAIN_RUNS)
        Y = _field(My, "Y", False, t, (5, 2), TRAIN_RUNS)
        labels = [(a, b) for a in t for b in TRAIN_RUNS]
        return X, Y, Mx, My, labels, ("time", "run")
    t = list(range(N_TRAIN))
    if structure == "list_one_dim":
        X = [_field(Mx, "X", False, t), _field(My, "Y", False, t)]
        Y = _field(_mz(cplx, seed), "Z", False, t)
        return X, Y, Mx, My, [(a,) for a in t], ("time",)
    mi = _fit_is_mi(structure)
    X = _field(Mx, "X", mi, t)
    Y = _field(My, "Y", mi, t)
    labels = [mi_of(a) if mi else (a,) for a in t]
    return X, Y, Mx, My, labels, ("time",)


def _mz(cplx, seed):
    return D.make_matrix(N_TRAIN, 3, "geometric", 1.0, cplx, seed, salt=503) - 2.0


def _time_labels(coords, n):
    if coords in ("disjoint", "nan_sample") or coords in LIST_NAN:
        return [104, 100, 102, 101, 103][:n]  # unsorted on purpose
    if coords == "overlap":
        return [7, 100, 2, 101, 9][:n]
    if coords in ("equal", "train_subset"):
        return [4, 1, 8, 0, 6][:n]
    if coords == "repeats":
        return [3, 3, 100, 3, 100][:n]
    if coords == "train_moved":
        return [204, 200, 202, 201, 203][:n]
    if coords == "repeats_nan_shared":
        return [3, 3, 100, 3, 100][:n]  # sample 1 is entirely missing; samples 0 and 3 carry its label
    if coords == "repeats_nan_unique":
        return [3, 101, 3, 100, 100][:n]  # sample 1 is entirely missing and alone under its label
    raise ValueError(coords)


def new_data(structure, coords, n, cplx, seed, Mx, My, base=False):
    """The new data set D of a case (or, base=True, the same feature vectors under disjoint unique coordinates).

    Returns dict(X, Y, labels (one tuple per flat sample position), grid (nt, nr) or None, nan (set of flat positions, X only),
    train_rows (flat training row per sample or None), sample_dims)."""
    two = structure == "two_dims"
    kind = "disjoint" if base else coords
    trainish = coords in ("train_subset", "train_moved")
    if two:
        nt, nr = n
        if trainish:
            tpos = [3, 0, 4][:nt]
            rpos = [1, 0][:nr]
            rows = [tp * 2 + rp for tp in tpos for rp in rpos]
            if kind == "train_subset":
                tl, rl = tpos, [TRAIN_RUNS[r] for r in rpos]
            else:
                tl, rl = ([204, 200, 202][:nt], NEW_RUNS[:nr]) if not base else ([104, 100, 102][:nt], NEW_RUNS[:nr])
        else:
            rows = None
            tl = {"disjoint": [104, 100, 102], "nan_sample": [104, 100, 102], "overlap": [3, 100, 1], "equal": [4, 1, 3], "repeats": [3, 3, 100]}[kind][:nt]
            rl = {"disjoint": NEW_RUNS, "nan_sample": NEW_RUNS, "overlap": ["r1", "q0"], "equal": ["r1", "r0"], "repeats": TRAIN_RUNS}[kind][:nr]
        m = nt * nr
        labels = [(a, b) for a in tl for b in rl]
        grid = (nt, nr)
    else:
        m = n
        if trainish:
            rows = [4, 1, 8, 0, 6][:n]
        else:
            rows = None
        tl = _time_labels(kind, n)
        mi = _new_is_mi(structure)
        labels = [mi_of(a) if mi else (a,) for a in tl]
        grid = None
    if rows is not None:
        Zx, Zy = Mx[rows], My[rows]
    else:
        Zx = D.make_matrix(6, 6, "geometric", 1.0, cplx, seed, salt=511)[:m] * 1.5 + 0.5
        Zy = D.make_matrix(6, 4, "geometric", 1.0, cplx, seed, salt=512)[:m] - 1.0
    nan = set()
    is_list = structure == "list_one_dim"
    if is_list:
        Zz = _mz(cplx, seed)[rows] if rows is not None else D.make_matrix(6, 3, "geometric", 1.0, cplx, seed, salt=513)[:m] + 2.0
        Zx, Zy = Zx.copy(), Zy.copy()
        if not base and (coords in LIST_NAN or coords in NAN_KINDS):
            na, nb = LIST_NAN.get(coords, ((1,), (1,)))  # nan_sample: the sample is missing in both items
            Zx[list(na)] = np.nan
            Zy[list(nb)] = np.nan
            nan = set(na) | set(nb)  # samples that are not complete: absent from the scores or all-NaN
        X = [_field(Zx, "X", False, tl), _field(Zy, "Y", False, tl)]
        Y = _field(Zz, "Z", False, tl)
        return dict(X=X, Y=Y, labels=labels, grid=None, nan=nan, train_rows=rows if trainish else None, sample_dims=("time",), mi=False)
    if coords in NAN_KINDS and not base:
        nan = {1 if not two else (1 * grid[1] + 0)}  # second time label (two dims: its first run)
        Zx = Zx.copy()
        Zx[sorted(nan)] = np.nan
    if two:
        X = _field(Zx, "X", False, tl, grid, rl)
        Y = _field(Zy, "Y", False, tl, grid, rl)
        sdims = ("time", "run")
    else:
        X = _field(Zx, "X", _new_is_mi(structure), tl)
        Y = _field(Zy, "Y", _new_is_mi(structure), tl)
        sdims = ("time",)
    return dict(X=X, Y=Y, labels=labels, grid=grid, nan=nan, train_rows=rows if coords == "train_subset" or coords == "train_moved" else None, sample_dims=sdims, mi=(not two) and _new_is_mi(structure))


# ----------------------------------------------------------------------------- lattice


def lattice(ds):
    """states: list of selections, smallest first. A selection is (tuple of time positions, tuple of run positions or None).
    edges: list of (i_small, i_big) cover pairs."""
    if ds["grid"] is None:
        n = len(ds["labels"])
        sels = [(c, None) for k in range(1, n + 1) for c in itertools.combinations(range(n), k)]
    else:
        nt, nr = ds["grid"]
        ts = [c for k in range(1, nt + 1) for c in itertools.combinations(range(nt), k)]
        rs = [c for k in range(1, nr + 1) for c in itertools.combinations(range(nr), k)]
        sels = sorted(((t, r) for t in ts for r in rs), key=lambda s: (len(s[0]) * len(s[1]), len(s[0]), s))
    # drop states without any valid sample
    sels = [s for s in sels if set(flat(ds, s)) - ds["nan"]]
    index = {s: i for i, s in enumerate(sels)}
    edges = []
    for s in sels:
        t, r = s
        nt = len(ds["labels"]) if ds["grid"] is None else ds["grid"][0]
        for j in range(nt):
            if j not in t:
                big = (tuple(sorted(t + (j,))), r)
                if big in index:
                    edges.append((index[s], index[big]))
        if r is not None:
            for j in range(ds["grid"][1]):
                if j not in r:
                    big = (t, tuple(sorted(r + (j,))))
                    if big in index:
                        edges.append((index[s], index[big]))
    return sels, edges


def flat(ds, sel):
    t, r = sel
    if r is None:
        return list(t)
    nr = ds["grid"][1]
    return [a * nr + b for a in t for b in r]


def subset(obj, sel):
    if isinstance(obj, list):
        return [subset(o, sel) for o in obj]
    t, r = sel
    if r is None:
        return obj.isel(time=list(t))
    return obj.isel(time=list(t), run=list(r))


# ----------------------------------------------------------------------------- the system under test


def build_model(case, seed):
    import xeofs as xe

    fam, cls, basecls, kw, basekw, cplx = MODELS[case["model"]]
    X, Y, Mx, My, tlabels, sdims = training(case["structure"], cplx, seed, case["model"])
    extra = {}
    if case["prep"] == "std_coslat":  # the second field (stations) has no latitude
        extra = dict(standardize=True, use_coslat=[True, False] if fam == "cross" else True)
    dim = sdims if len(sdims) > 1 else sdims[0]
    pkg = {"single": xe.single, "cross": xe.cross, "multi": xe.multi}[fam]
    if fam == "multi":
        m = getattr(pkg, cls)(**kw)
        m.fit([X, Y], dim)
        return m, Mx, My, tlabels
    if basecls is None:
        m = getattr(pkg, cls)(**kw, **extra)
        m.fit(X, dim) if fam == "single" else m.fit(X, Y, dim)
        return m, Mx, My, tlabels
    b = getattr(pkg, basecls)(**basekw, **extra)
    b.fit(X, dim) if fam == "single" else b.fit(X, Y, dim)
    r = getattr(pkg, cls)(**kw)
    r.fit(b)
    return r, Mx, My, tlabels


def call_transform(m, fam, args, normalized, X, Y):
    """-> dict field -> returned object"""
    if fam == "single":
        return {"X": m.transform(X, normalized=normalized)}
    if fam == "multi":
        return _pair(m.transform([X, Y]))
    if args == "XY":
        return _pair(m.transform(X, Y, normalized=normalized))
    if args == "X":
        return {"X": m.transform(X=X, normalized=normalized)}
    return {"Y": m.transform(Y=Y, normalized=normalized)}


def _pair(r):
    if not isinstance(r, (list, tuple)) or len(r) != 2:
        raise Bad("result_dims", "transform of two fields returned %s%s, not two score arrays" % (type(r).__name__, " of length %d" % len(r) if isinstance(r, (list, tuple)) else ""))
    return {"X": r[0], "Y": r[1]}


def call_scores(m, fam, normalized):
    if fam == "single":
        return {"X": m.scores(normalized=normalized)}
    if fam == "multi":
        r = m.scores()
        return {"X": r[0], "Y": r[1]}
    r = m.scores(normalized=normalized)
    return {"X": r[0], "Y": r[1]}


class Bad(Exception):
    def __init__(self, check, msg, **features):
        super().__init__(msg)
        self.check, self.msg, self.features = check, msg, features


def observe(obj, sample_dims, want_mi, want_modes):
    """Returned object -> list of (label tuple, complex row over modes 1..k), in the object's own order."""
    if not isinstance(obj, xr.DataArray):
        raise Bad("result_dims", "transform returned %s, not a DataArray" % type(obj).__name__)
    if set(obj.dims) != set(sample_dims) | {"mode"}:
        raise Bad("result_dims", "result dims %s, expected %s + mode" % (tuple(obj.dims), tuple(sample_dims)))
    modes = list(np.asarray(obj["mode"].values).tolist())
    if sorted(modes) != list(want_modes):
        raise Bad("result_dims", "mode labels %s, the fitted model's are %s" % (modes, list(want_modes)))
    o = obj.transpose(*sample_dims, "mode").isel(mode=list(np.argsort(modes)))
    vals = np.asarray(o.values)
    if len(sample_dims) == 1:
        d = sample_dims[0]
        if d not in o.coords:
            raise Bad("sample_labels", "sample dimension %s has no coordinate" % d, got="no_coordinate")
        idx = o.indexes[d]
        if want_mi:
            if not isinstance(idx, pd.MultiIndex):
                raise Bad("sample_labels", "new data has a MultiIndex on %s, result has %s" % (d, type(idx).__name__), got="not_multiindex")
            if list(idx.names) != ["year", "month"]:
                raise Bad("sample_labels", "MultiIndex level names %s, the new data's are ['year','month']" % list(idx.names), got="level_names")
            labels = [tuple(int(v) for v in t) for t in idx.tolist()]
        else:
            if isinstance(idx, pd.MultiIndex):
                raise Bad("sample_labels", "new data has a plain index on %s, result has a MultiIndex" % d, got="unexpected_multiindex")
            labels = [(_py(v),) for v in idx.tolist()]
        rows = [vals[i] for i in range(vals.shape[0])]
    else:
        for d in sample_dims:
            if d not in o.coords:
                raise Bad("sample_labels", "sample dimension %s has no coordinate" % d, got="no_coordinate")
        la = [_py(v) for v in o[sample_dims[0]].values.tolist()]
        lb = [_py(v) for v in o[sample_dims[1]].values.tolist()]
        labels = [(a, b) for a in la for b in lb]
        rows = [vals[i, j] for i in range(len(la)) for j in range(len(lb))]
    return list(zip(labels, rows))


def _py(v):
    if isinstance(v, (np.integer,)):
        return int(v)
    if isinstance(v, float) and v == int(v):
        return int(v)
    return v


def group(pairs):
    g = {}
    for lab, row in pairs:
        g.setdefault(lab, []).append(row)
    return g


def match_rows(need, have, tol):
    """multiset inclusion within tol: every row of `need` matched to a distinct row of `have`. Returns (ok, worst distance of the best assignment)."""
    have = list(have)
    if len(need) > len(have):
        return False, np.inf
    best = np.inf
    for perm in itertools.permutations(range(len(have)), len(need)):
        d = max([float(np.max(np.abs(need[i] - have[j]))) for i, j in enumerate(perm)], default=0.0)
        if not np.isfinite(d):
            d = np.inf
        best = min(best, d)
        if best <= tol:
            return True, best
    return best <= tol, best


# ----------------------------------------------------------------------------- one case = one lattice


def _where(e):
    tb = traceback.extract_tb(e.__traceback__)
    for fr in reversed(tb):
        if "/xeofs/" in fr.filename:
            return "%s:%s" % (os.path.basename(fr.filename), fr.name)
    return "%s:%s" % (os.path.basename(tb[-1].filename), tb[-1].name) if tb else "?"


def run_case(case, seed):
    fam = MODELS[case["model"]][0]
    cplx = MODELS[case["model"]][5]
    mname = class_of(case["model"])
    structure, coords = case["structure"], case["coords"]
    feats = dict(structure=structure, coords=coords)
    if "_a05" in case["model"]:
        feats["alpha_lt_1"] = True
    if MODELS[case["model"]][3].get("power", 1) > 1:
        feats["oblique"] = True
    V, seen = [], set()

    def bad(check, msg, **extra):
        f = dict(feats)
        f.update(extra)
        key = (check, tuple(sorted(f.items())))
        if key not in seen:
            seen.add(key)
            V.append(viol(check, mname, msg, **f))

    if case["model"].endswith(("_cyc", "_cyc_p2")) and cyc_salt(case["model"], seed) is None:
        return dict(violations=[], outcome="vacuous:no_cyclic_ranking:" + case["model"], nontrivial=False)
    tot = Counter()
    anchor_check = "train_subset_scores" if coords in ("train_subset", "train_moved") else "per_sample_value"
    sink = io.StringIO()
    with warnings.catch_warnings(), contextlib.redirect_stdout(sink):
        warnings.simplefilter("ignore")
        model, Mx, My, train_labels = build_model(case, seed)
        sc = call_scores(model, fam, case["normalized"])
        # the fitted model's own mode labels (what 'mode' of a transform result must carry)
        modes = sorted(int(v) for v in np.asarray(sc["X"]["mode"].values).tolist())
        for n in case["sizes"]:
            n = tuple(n) if isinstance(n, list) else n
            _explore(case, seed, model, fam, cplx, Mx, My, train_labels, sc, modes, n, bad, tot, anchor_check)

    return dict(
        violations=V,
        outcome="violation" if V else "ok",
        nontrivial=not V and tot["compared"] > 0 and tot["nonzero"] > 0,
        states=int(tot["states"]),
        transitions=int(tot["edges_checked"]),
        traces=int(tot["traces"]),
        info=dict(states=int(tot["states"]), states_ok=int(tot["states_ok"]), edges=int(tot["edges"]), compared=int(tot["compared"]), anchor=anchor_check, multi_sample_states=int(tot["multi"])),
    )


def _explore(case, seed, model, fam, cplx, Mx, My, train_labels, sc, modes, n, bad, tot, anchor_check):
    """Explore the complete lattice of one new data set on the live fitted model."""
    structure, coords = case["structure"], case["coords"]
    ds = new_data(structure, coords, n, cplx, seed, Mx, My)
    sels, edges = lattice(ds)
    fields = {"XY": ("X", "Y"), "X": ("X",), "Y": ("Y",), "views": ("X", "Y")}[case["args"]]
    train_label_set = Counter(train_labels)

    # ---- anchor: the row predicted for every flat sample position
    anchor = {}
    if ds["train_rows"] is not None:
        tdims = ("time", "run") if structure == "two_dims" else ("time",)
        for f in fields:
            g = group(observe(sc[f], tdims, _fit_is_mi(structure), modes))
            anchor[f] = [g[train_labels[r]][0] for r in ds["train_rows"]]
    else:
        bds = new_data(structure, coords, n, cplx, seed, Mx, My, base=True)
        one = len(bds["labels"]) == 1
        try:
            res = call_transform(model, fam, case["args"], case["normalized"], bds["X"], bds["Y"])
            for f in fields:
                g = group(observe(res[f], bds["sample_dims"], bds["mi"], modes))
                got = Counter({k: len(v) for k, v in g.items()})
                if got != Counter(bds["labels"]):
                    raise Bad("sample_labels", "field %s: returned sample labels %s, the data's own are %s" % (f, sorted(got.elements(), key=repr)[:12], bds["labels"]), got=_got_kind(list(got.elements()), train_label_set, Counter(bds["labels"])))
                anchor[f] = [g[lab][0] for lab in bds["labels"]]
        except Bad as b:
            bad(b.check, "base data set (same values, disjoint unique coordinates): " + b.msg, **dict(b.features, coords="disjoint", single_sample=one))
            anchor = None
        except Exception as e:
            bad("raised", "transform of the base data set (same values, disjoint unique coordinates) raised %s: %s" % (type(e).__name__, str(e)[:200]), coords="disjoint", exc=type(e).__name__, at=_where(e), single_sample=one)
            anchor = None
    scale = 1e-300
    if anchor:
        for f in fields:
            for row in anchor[f]:
                if np.isfinite(row).all():
                    scale = max(scale, float(np.max(np.abs(row))))
    tol = TOL * max(scale, 1e-12)
    if scale > 1e-12:
        tot["nonzero"] += 1

    # ---- states
    obs = [None] * len(sels)  # per state: dict field -> rows grouped by label; None if the state failed
    for i, sel in enumerate(sels):
        pos = flat(ds, sel)
        single = len(pos) == 1
        exp_labels = [ds["labels"][p] for p in pos]
        Xs, Ys = subset(ds["X"], sel), subset(ds["Y"], sel)
        try:
            res = call_transform(model, fam, case["args"], case["normalized"], Xs, Ys)
        except Bad as b:
            bad(b.check, "samples %s: %s" % (exp_labels, b.msg), single_sample=single, **b.features)
            continue
        except Exception as e:
            bad("raised", "transform of samples %s raised %s: %s" % (exp_labels, type(e).__name__, str(e)[:200]), exc=type(e).__name__, at=_where(e), single_sample=single)
            continue
        ok = True
        st = {}
        for f in fields:
            nanpos = ds["nan"] if f == "X" else set()
            try:
                pairs = observe(res[f], ds["sample_dims"], ds["mi"], modes)
            except Bad as b:
                bad(b.check, "field %s, samples %s: %s" % (f, exp_labels, b.msg), single_sample=single, **b.features)
                ok = False
                continue
            # (i) labels: entirely missing samples may be absent, or present with all-NaN scores
            missing_ok = Counter(ds["labels"][p] for p in pos if p in nanpos)
            kept = []
            for lab, row in pairs:
                if missing_ok.get(lab, 0) > 0 and np.isnan(row).all():
                    missing_ok[lab] -= 1
                    continue
                kept.append((lab, row))
            exp_valid = Counter(ds["labels"][p] for p in pos if p not in nanpos)
            got_c = Counter(lab for lab, _ in kept)
            if got_c != exp_valid:
                bad(
                    "sample_labels",
                    "field %s: transform of samples %s returned sample labels %s" % (f, exp_labels, [lab for lab, _ in pairs][:12]),
                    got="incomplete_sample_scored" if any(missing_ok.get(lab, 0) > 0 for lab, _ in kept) else _got_kind([lab for lab, _ in pairs], train_label_set, exp_valid),
                    single_sample=single,
                )
                ok = False
                continue
            # (ii) no spurious NaN
            if any(np.isnan(row).any() for _, row in kept):
                bad("spurious_nan", "field %s: NaN in the scores of samples %s, none of which is entirely missing" % (f, [lab for lab, row in kept if np.isnan(row).any()]), single_sample=single)
                ok = False
                continue
            g = group(kept)
            st[f] = g
            # per-sample prediction (iv) / per_sample_value
            if anchor:
                need = {}
                for p in pos:
                    if p not in nanpos:
                        need.setdefault(ds["labels"][p], []).append(anchor[f][p])
                for lab, rows in need.items():
                    good, dist = match_rows(rows, g[lab], tol)
                    if not good:
                        what = "scores() of the fitted model" if anchor_check == "train_subset_scores" else "the scores the same feature vector gets under other coordinates"
                        bad(anchor_check, "field %s: scores of sample %s in transform(samples %s) differ from %s by %.3e (scale %.3e)" % (f, lab, exp_labels, what, dist, scale), single_sample=single)
                        ok = False
                        break
                tot["compared"] += 1
        if ok:
            obs[i] = st

    # ---- edges: (iii) restriction relation
    edge_ok = [False] * len(edges)
    for e, (a, b) in enumerate(edges):
        if obs[a] is None or obs[b] is None:
            continue
        tot["edges_checked"] += 1
        pa, pb = flat(ds, sels[a]), flat(ds, sels[b])
        good_edge = True
        for f in fields:
            nanpos = ds["nan"] if f == "X" else set()
            ga, gb = obs[a][f], obs[b][f]
            added = Counter(ds["labels"][p] for p in pb if p not in nanpos) - Counter(ds["labels"][p] for p in pa if p not in nanpos)
            for lab in gb:
                small = ga.get(lab, [])
                good, dist = match_rows(small, gb[lab], tol)
                if not good or len(gb[lab]) - len(small) != added.get(lab, 0):
                    bad(
                        "subset_commutes",
                        "field %s: transform(X[S]) != transform(X[T])[S] at label %s for S=%s, T=%s (distance %.3e, scale %.3e)" % (f, lab, [ds["labels"][p] for p in pa], [ds["labels"][p] for p in pb], dist, scale),
                        single_sample=len(pa) == 1,
                    )
                    good_edge = False
                    break
            if not good_edge:
                break
        edge_ok[e] = good_edge

    # ---- traces: maximal chains (minimal state -> whole data set) all of whose states and edges were validated
    chains = [0] * len(sels)
    lower = {i: [] for i in range(len(sels))}
    for e, (a, b) in enumerate(edges):
        lower[b].append((a, e))
    for i in range(len(sels)):  # smallest first, so lower covers come earlier
        if obs[i] is None:
            continue
        chains[i] = 1 if not lower[i] else sum(chains[a] for a, e in lower[i] if edge_ok[e])
    tot["traces"] += chains[-1] if sels else 0
    tot["states"] += len(sels)
    tot["states_ok"] += sum(1 for o in obs if o is not None)
    tot["edges"] += len(edges)
    tot["multi"] += sum(1 for s in sels if len(flat(ds, s)) > 1)


def _got_kind(got_labels, train_label_set, expected):
    """Small stable description of a wrong label set."""
    g = Counter(got_labels)
    if g and g == train_label_set:
        return "training_labels"
    if expected is not None:
        if not (g - expected) and (expected - g):
            return "labels_missing"
        if (g - expected) and not (expected - g):
            return "labels_extra"
    return "other_labels"


# ----------------------------------------------------------------------------- cross-case summary, vacuity


def finalize(cases, results, tier, seed):
    ok_states = sum(r.get("info", {}).get("states_ok", 0) for r in results)
    edges = sum(r.get("info", {}).get("edges", 0) for r in results)
    largest = max((r.get("info", {}).get("states", 0) for r in results), default=0)
    return [], dict(
        lattices=len(cases),
        states_passing_all_invariants=int(ok_states),
        cover_edges_in_lattices=int(edges),
        largest_lattice_states=int(largest),
        model_classes=sorted({class_of(c["model"]) for c in cases}),
    )



def vacuity(outcomes, results, tier):
    for o in outcomes:
        if o.startswith("vacuous:"):
            return "%s: no catalogue matrix (salts %d..%d) gives that rotator a variance ranking with a cycle of length >= 3" % (o, CYC_SALTS[0], CYC_SALTS[-1])
    anchors = Counter()
    multi = 0
    edges = 0
    for r in results:
        i = r.get("info", {})
        if r.get("nontrivial"):
            anchors[i.get("anchor")] += 1
            multi += i.get("multi_sample_states", 0)
            edges += r.get("transitions", 0)
    if anchors.get("train_subset_scores", 0) == 0:
        return "clause (iv) (training subsets against scores()) was never evaluated on a passing case"
    if anchors.get("per_sample_value", 0) == 0:
        return "no new-data case passed: clauses (i)-(iii) never evaluated non-trivially"
    if multi == 0 or edges == 0:
        return "no lattice with more than one sample was explored"
    return None
