"""C12 — Dask-backed and deferred fits equal the in-memory fit and stay lazy until asked. Explorer S (+ layouts).

Each execution runs a real workload (fit [+ rotator fit] [+ compute()] + read-out) under the controlled scheduler of
xmc/sched.py with a prescription of deviations from the default (LIFO) schedule.  Round 0 runs the default schedule of
every (model, chunk layout, compute, check_nans) configuration and records the number of ready tasks at every step;
round 1 runs EVERY schedule with exactly one deviation; round 2 (thorough, smallest layouts) every schedule with two.
"""

from __future__ import annotations

import functools
import warnings

import numpy as np

from .. import data as D
from ..core import viol
from ..sched import ControlledScheduler, ScheduleDivergence

ID = "C12"
LEVEL = "model_checking"
TECHNIQUE = "deviation-bounded exhaustive exploration of dask task schedules (controlled sequential scheduler on the real task graphs) + scheduler-call counting"
RULE = (
    "states = distinct (scheduler call, set of completed tasks) reached; transitions = task executions; a trace is one complete "
    "schedule (default, or default with 1 (quick/thorough) or 2 (thorough, two smallest layouts) deviations) of the workload "
    "model x chunk layout x compute x check_nans, validated against the in-memory numpy fit and the default schedule's result"
)
LEVEL_TEXT = (
    "all schedules within the deviation bound of every explored configuration are executed on the real xeofs/dask graphs; "
    "laziness is decided by counting scheduler invocations during fit; equality with the eager fit is checked for every schedule"
)
ASSUMPTIONS = [
    "task-granular sequential scheduler: races inside concurrently running numpy kernels are outside the model (DESIGN 6)",
    "deviation bound 1 (2 on the smallest layouts in the thorough tier); deferred SparsePCA max_iter<=4, deferred rotators max_iter<=16",
    "free-running synchronous/threaded runs are a cross-check only, not the deciding step",
]
TALLY_KEYS = ("model", "layout", "compute", "kind")
TRUSTED = ["dask._task_spec graph conversion", "statsmodels import shim (cross-set constructors)"]
MAX_REFUSED_FRACTION = 0.5

LAYOUTS = {
    "one": {"time": 12, "lat": 3, "lon": 2},
    "samples": {"time": 4, "lat": 3, "lon": 2},
    "feature": {"time": 12, "lat": 1, "lon": 2},
    "both": {"time": 6, "lat": 3, "lon": 1},
    "element": {"time": 1, "lat": 1, "lon": 1},
}
YLAYOUT = {"one": {"time": 12, "station": 4}, "samples": {"time": 4, "station": 4}, "feature": {"time": 12, "station": 2}, "both": {"time": 6, "station": 2}, "element": {"time": 1, "station": 1}}

MODELS_Q = ["EOF", "MCA", "EOFRotator"]
MODELS_T = ["EOF", "EOF+w", "EOF+opts", "EOF+kwargs", "SparsePCA", "POP", "POP-nopca", "OPA", "ExtendedEOF", "ExtendedEOF+pca", "EOFRotator", "EOFRotator2", "MCA", "MCA+w", "CPCCA", "MCARotator", "MCARotator2"]
CROSS = {"MCA", "MCA+w", "CPCCA", "MCARotator", "MCARotator2"}
ROTATORS = {"EOFRotator", "EOFRotator2", "MCARotator", "MCARotator2"}


def inputs(seed, small=False):
    n = 12
    X = D.make_matrix(n, 6, "geometric", 1.0, False, seed, salt=1)
    x = D.da_grid(X, 3, 2, lats=[-40.0, 0.0, 55.0])
    Y = D.make_matrix(n, 4, "geometric", 1.0, False, seed, salt=2)
    y = D.da_2d(Y, "time", "station", fcoord=["a", "b", "c", "d"], name="y")
    return x, y


def inputs_big(seed):
    """40 x (6 x 5) field whose spectrum has a gap after the third mode: the randomized routes (sklearn in memory, dask
    svd_compressed on chunks) are then accurate to ~1e-9 for 3 modes, but only thanks to their power iterations -
    k + n_oversamples = 13 < rank = 30, so the sketch alone is lossy."""
    rng = np.random.default_rng([seed, 4030])
    n, p = 40, 30
    U, _ = np.linalg.qr(rng.standard_normal((n, p)) - 0.0)
    U = U - U.mean(axis=0, keepdims=True)
    U, _ = np.linalg.qr(U)
    V, _ = np.linalg.qr(rng.standard_normal((p, p)))
    s = np.concatenate([[10.0, 9.0, 8.0], np.linspace(1.0, 0.5, p - 3)])
    X = (U * s) @ V.T + rng.standard_normal(p)
    x = D.da_grid(X, 6, 5, lats=np.linspace(-50, 50, 6))
    return x, None


def build(model, compute, check_nans, deferred):
    import xeofs as xe

    kw = dict(compute=compute, check_nans=check_nans, random_state=7)
    rot = None
    if model in ("EOF", "EOF+w"):
        m = xe.single.EOF(n_modes=3, **kw)
    elif model == "EOF+opts":
        m = xe.single.EOF(n_modes=3, standardize=True, use_coslat=True, **kw)
    elif model == "EOF+kwargs":
        # a documented pass-through solver option (its default value): must change nothing, also on the dask route
        m = xe.single.EOF(n_modes=3, solver="randomized", solver_kwargs={"n_oversamples": 10}, **kw)
    elif model == "SparsePCA":
        m = xe.single.SparsePCA(n_modes=2, alpha=1e-3, max_iter=4, **kw)
    elif model == "POP":
        m = xe.single.POP(n_modes=2, n_pca_modes=3, **kw)
    elif model == "POP-nopca":
        # no PCA step: the POP system is solved on the raw, user-chunked (sample x feature) matrix
        m = xe.single.POP(n_modes=2, use_pca=False, **kw)
    elif model == "OPA":
        m = xe.single.OPA(n_modes=2, tau_max=3, n_pca_modes=3, **kw)
    elif model == "ExtendedEOF":
        m = xe.single.ExtendedEOF(n_modes=2, tau=1, embedding=2, **kw)
    elif model == "ExtendedEOF+pca":
        m = xe.single.ExtendedEOF(n_modes=2, tau=1, embedding=2, n_pca_modes=3, **kw)
    elif model in ("EOFRotator", "EOFRotator2"):
        m = xe.single.EOF(n_modes=3, **kw)
        rot = xe.single.EOFRotator(n_modes=3, power=1 if model == "EOFRotator" else 2, max_iter=16 if deferred else 1000, compute=compute)
    elif model in ("MCA", "MCA+w"):
        m = xe.cross.MCA(n_modes=2, use_pca=False, **kw)
    elif model == "CPCCA":
        m = xe.cross.CPCCA(n_modes=2, alpha=0.5, use_pca=True, n_pca_modes=3, **kw)
    elif model in ("MCARotator", "MCARotator2"):
        m = xe.cross.MCA(n_modes=2, use_pca=False, **kw)
        rot = xe.cross.MCARotator(n_modes=2, power=1 if model == "MCARotator" else 2, max_iter=16 if deferred else 1000, compute=compute)
    return m, rot


def readout(model, m, rot):
    """dict name -> numpy array of the fitted results (computing whatever is still lazy)."""
    obj = rot if rot is not None else m
    out = {}
    for k, v in obj.data.items():
        if k == "input_data" or k.startswith("input_data"):
            continue
        out[k] = np.asarray(v.values)
    return out


def is_dask(a):
    return type(a.data).__module__.startswith("dask")


def workload(case, seed, scheduler_ctx):
    """Run fit(+rot)(+compute) on chunked input inside `scheduler_ctx`; returns (results, observations)."""
    model, layout, compute, check_nans = case["model"], case["layout"], case["compute"], case["check_nans"]
    x, y = inputs(seed) if model != "EOF+kwargs" else inputs_big(seed)
    obs = {}
    if layout != "numpy":
        x = x.chunk(LAYOUTS[layout])
        y = y.chunk(YLAYOUT[layout]) if y is not None else None
    m, rot = build(model, compute, check_nans, deferred=not compute)
    sch = scheduler_ctx
    c0 = sch.calls if sch is not None else 0
    # user weights derived from the (possibly chunked) data itself, e.g. inverse standard deviation: lazy when the data are
    wx = (1.0 / x.std("time")) if model.endswith("+w") else None
    wy = (1.0 / (1.0 + y.var("time"))) if model == "MCA+w" else None
    if wx is not None and layout != "numpy":
        assert is_dask(wx), "harness error: weights are expected to be lazy"
    if model in CROSS:
        m.fit(x, y, dim="time", weights_X=wx, weights_Y=wy)
    else:
        m.fit(x, dim="time", weights=wx)
    obs["calls_fit"] = (sch.calls - c0) if sch is not None else None
    obs["lazy_after_fit"] = {k: is_dask(v) for k, v in m.data.items()}
    if rot is not None:
        c1 = sch.calls if sch is not None else 0
        rot.fit(m)
        obs["calls_rot_fit"] = (sch.calls - c1) if sch is not None else None
        obs["lazy_after_rot_fit"] = {k: is_dask(v) for k, v in rot.data.items()}
    obj = rot if rot is not None else m
    if layout != "numpy":
        obs["input_dask_before"] = {k: is_dask(v) for k, v in obj.data.items() if k.startswith("input_data")}
    if not compute:
        (rot if rot is not None else m).compute()
        if rot is not None and any(is_dask(v) for k, v in m.data.items() if not k.startswith("input_data")):
            m.compute()
    if layout != "numpy":
        obs["input_dask_after"] = {k: is_dask(v) for k, v in obj.data.items() if k.startswith("input_data")}
        obs["lazy_after_compute"] = {k: is_dask(v) for k, v in obj.data.items() if not k.startswith("input_data")}
        # compute() once more (what save() does on an already computed model): the input must still not be materialised
        obj.compute()
        obs["input_dask_after_second_compute"] = {k: is_dask(v) for k, v in obj.data.items() if k.startswith("input_data")}
    res = readout(model, m, rot)
    return res, obs


@functools.lru_cache(maxsize=None)
def eager_reference(model, seed, deferred=False):
    """The same model on the same data held in memory. A deferred rotator runs a fixed number of iterations (no
    convergence test is possible lazily), so its in-memory counterpart is the same fixed-iteration rotation on numpy
    input (compute=False on in-memory data), not the eagerly converged one."""
    fixed_iter = deferred and model in ROTATORS
    with warnings.catch_warnings():
        warnings.simplefilter("ignore")
        res, _ = workload(dict(model=model, layout="numpy", compute=not fixed_iter, check_nans=True), seed, None)
    return res


_DEFAULT = {}


def default_result(case, seed):
    key = (case["model"], case["layout"], case["compute"], case["check_nans"])
    if key not in _DEFAULT:
        import dask

        s = ControlledScheduler({}, record_states=False)
        with warnings.catch_warnings():
            warnings.simplefilter("ignore")
            with dask.config.set(scheduler=s):
                _DEFAULT[key] = workload(case, seed, s)[0]
    return _DEFAULT[key]


SIGN_FREE = {"OPA": ("components", "scores", "filter_patterns")}


def _align_signs(model, ref, res):
    """OPA fixes no sign convention; orient each mode of `res` like `ref` (by the scores) before comparing."""
    if model not in SIGN_FREE or "scores" not in ref or "scores" not in res or ref["scores"].shape != res["scores"].shape:
        return res
    sr, sx = ref["scores"], res["scores"]
    ax = 0 if sr.shape[0] != ref["decorrelation_time"].shape[0] else 1  # sample axis
    sg = np.sign(np.sum(sr * sx, axis=ax))
    sg[sg == 0] = 1
    out = dict(res)
    for k in SIGN_FREE[model]:
        v = res[k]
        modeax = [i for i, n in enumerate(v.shape) if n == sg.size][-1]
        shp = [1] * v.ndim
        shp[modeax] = sg.size
        out[k] = v * sg.reshape(shp)
    return out


def _cmp(a, b, tol):
    bad = []
    for k in a:
        if k not in b:
            bad.append("%s missing" % k)
            continue
        e = D.relerr(np.asarray(b[k]), np.asarray(a[k]))
        if not e <= tol:
            bad.append("%s: rel err %.2e" % (k, e))
    return bad


def _tol_vs_eager(model, deferred):
    if model in ROTATORS:
        return 1e-7
    if model == "SparsePCA":
        return 1e-6
    return 1e-7


def _layout_refusal(e):
    # SparsePCA's own documented refusal of inputs chunked along the feature dimension
    return "Data not chunked correctly" in str(e)


def configs(tier):
    """Each config carries `bound`: the number of deviations explored exhaustively for it (0 = default schedule only)."""
    out = []

    def add(model, layout, compute=False, check_nans=False, bound=0):
        out.append(dict(model=model, layout=layout, compute=compute, check_nans=check_nans, bound=bound))

    if tier == "quick":
        for layout in ("one", "samples"):
            add("EOF", layout, bound=1)
        add("POP", "one", bound=1)
        add("MCA", "one", bound=1)
        add("EOF", "samples", compute=True, check_nans=True, bound=0)
        for mname in MODELS_T:
            for layout in ("samples", "both"):
                if (mname, layout) not in (("EOF", "samples"),):
                    add(mname, layout)
        add("EOF+kwargs", "samples", compute=True, check_nans=True)
        return out
    for mname in MODELS_T:
        for layout in LAYOUTS:
            if layout == "element" and mname not in ("EOF", "POP", "MCA", "ExtendedEOF", "EOFRotator"):
                continue  # one task per element: 5-30 k tasks per compute for the larger models
            for compute, cn in ((False, False), (False, True), (True, True)):
                bound = 0
                if not compute and not cn and layout != "element":
                    if mname in ("EOF", "POP", "OPA", "ExtendedEOF", "MCA"):
                        bound = 1
                    if mname in ("EOFRotator", "CPCCA") and layout == "one":
                        bound = 1
                    if mname == "EOF" and layout == "one":
                        bound = 2
                if compute and mname in ("EOF", "MCA") and layout == "samples":
                    bound = 1
                add(mname, layout, compute, cn, bound)
    return out


REAL = [("synchronous", 1), ("threads", 1), ("threads", 2), ("threads", 4), ("threads", 16)]


def rounds(tier, seed):
    cfgs = configs(tier)
    batch = [dict(c, kind="schedule", deviations=[]) for c in cfgs]
    # free-running real schedulers (cross-check)
    for c in cfgs:
        if (c["layout"] == "samples" and c["model"] in ("EOF", "MCA", "EOFRotator")) or tier == "thorough":
            for sname, nw in REAL if tier == "thorough" else REAL[:3]:
                batch.append(dict(model=c["model"], layout=c["layout"], compute=c["compute"], check_nans=c["check_nans"], kind="real", scheduler=sname, workers=nw, deviations=[]))
    res = yield batch
    while True:
        nxt = []
        for c, r in zip(batch, res):
            if c["kind"] != "schedule" or r.get("violations") or r["outcome"] != "ok":
                continue
            if len(c["deviations"]) >= c.get("bound", 0):
                continue
            steps = r["info"]["steps"]
            start = c["deviations"][-1][0] + 1 if c["deviations"] else 0
            for i in range(start, len(steps)):
                for alt in range(1, steps[i]):
                    nxt.append(dict(c, deviations=c["deviations"] + [[i, alt]]))
        if not nxt:
            return
        batch = nxt
        res = yield batch


def run_case(case, seed):
    import dask

    model = case["model"]
    V = []
    feats = dict(layout=case["layout"], compute=case["compute"], check_nans=case["check_nans"])

    def bad(check, msg, **extra):
        V.append(viol(check, model, msg, **feats, **extra))

    with warnings.catch_warnings():
        warnings.simplefilter("ignore")
        ref = eager_reference(model, seed, not case["compute"])
        if case["kind"] == "real":
            try:
                with dask.config.set(scheduler=case["scheduler"], num_workers=case["workers"]):
                    res, obs = workload(case, seed, None)
            except NotImplementedError as e:
                return dict(outcome="refused:NotImplementedError", nontrivial=False, info=dict(msg=str(e)[:80]))
            except ValueError as e:
                if _layout_refusal(e):
                    return dict(outcome="refused:ValueError", nontrivial=False, info=dict(msg=str(e)[:80]))
                raise
            for d in _cmp(ref, _align_signs(model, ref, res), _tol_vs_eager(model, not case["compute"])):
                bad("real_scheduler_vs_eager", "%s(%d): %s" % (case["scheduler"], case["workers"], d), scheduler=case["scheduler"])
            return dict(violations=V, outcome="violation" if V else "ok", nontrivial=not V, states=0, transitions=0, traces=0, info={})
        pres = {int(i): int(a) for i, a in case["deviations"]}
        s = ControlledScheduler(pres)
        try:
            with dask.config.set(scheduler=s):
                res, obs = workload(case, seed, s)
        except NotImplementedError as e:
            return dict(outcome="refused:NotImplementedError", nontrivial=False, info=dict(msg=str(e)[:80]))
        except ValueError as e:
            if _layout_refusal(e):
                return dict(outcome="refused:ValueError", nontrivial=False, info=dict(msg=str(e)[:80]))
            raise
        except ScheduleDivergence as e:
            # the graph of this workload is not identical from run to run (unseeded sketches inside deferred rotations
            # get fresh random key names, which decide ties between structurally equal tasks): the prescribed deviation
            # does not exist in this run. Reported, never judged.
            return dict(outcome="skipped:schedule_not_reproducible", nontrivial=False, info=dict(msg=str(e)[:80]))
        try:
            s.check_prescription_consumed()
        except ScheduleDivergence as e:
            return dict(outcome="skipped:schedule_not_reproducible", nontrivial=False, info=dict(msg=str(e)[:80]))
        deferred = not case["compute"]
        if not case["deviations"]:
            # (a) laziness: no scheduler call during fit / rotator fit, results still dask-backed
            if deferred and not case["check_nans"]:
                if obs["calls_fit"] != 0:
                    bad("fit_triggers_compute", "fit invoked the dask scheduler %d times with compute=False, check_nans=False" % obs["calls_fit"], stage="fit")
                nl = sorted(k for k, v in obs["lazy_after_fit"].items() if not v)
                if nl:
                    bad("fit_leaves_eager_results", "not dask-backed after deferred fit: %s" % nl, stage="fit")
                if "calls_rot_fit" in obs:
                    if obs["calls_rot_fit"] != 0:
                        bad("fit_triggers_compute", "rotator.fit invoked the dask scheduler %d times" % obs["calls_rot_fit"], stage="rot.fit")
                    nl = sorted(k for k, v in obs["lazy_after_rot_fit"].items() if not v)
                    if nl:
                        bad("fit_leaves_eager_results", "not dask-backed after deferred rotator fit: %s" % nl, stage="rot.fit")
            # (e) the input data stays dask-backed inside the model
            for when in ("input_dask_before", "input_dask_after", "input_dask_after_second_compute"):
                if model in ("OPA", "ExtendedEOF+pca") and case["compute"]:
                    # OPA files the scores of its PCA pre-step under 'input_data', ExtendedEOF (whose container is the
                    # one of its inner EOF) the delay-embedded matrix built from them - not the user's data; with
                    # compute=True those derived PCA scores are computed like every other result
                    continue
                nl = sorted(k for k, v in obs[when].items() if not v)
                if nl:
                    bad("input_data_materialised", "%s: %s replaced by an in-memory copy" % (when, nl), when=when.replace("input_dask_", ""))
            # (b) after compute() everything is in memory
            nl = sorted(k for k, v in obs["lazy_after_compute"].items() if v)
            if nl:
                bad("compute_leaves_lazy", "still dask-backed after compute(): %s" % nl)
        # (d) equality with the in-memory fit
        for d in _cmp(ref, _align_signs(model, ref, res), _tol_vs_eager(model, deferred)):
            bad("dask_vs_eager", "schedule %s: %s" % (case["deviations"], d))
        # (c) confluence: equal to the default schedule's result
        if case["deviations"]:
            dflt = default_result(case, seed)
            tol = 1e-11 if model not in ROTATORS else 1e-9
            for d in _cmp(dflt, _align_signs(model, dflt, res), tol):
                bad("schedule_dependent_result", "schedule %s vs default: %s" % (case["deviations"], d))
    info = dict(steps=s.steps if len(case["deviations"]) < case.get("bound", 0) else [], calls=s.calls, tasks=s.tasks_run, max_ready=max(s.steps) if s.steps else 0)
    return dict(violations=V, outcome="violation" if V else "ok", nontrivial=not V and s.tasks_run > 0, states=len(s.states), transitions=s.tasks_run, traces=1, info=info)


def finalize(cases, results, tier, seed):
    dev = max(len(c["deviations"]) for c in cases)
    sched = [c for c in cases if c["kind"] == "schedule"]
    return [], dict(deviation_bound_completed=dev, schedules=len(sched), real_scheduler_runs=len(cases) - len(sched), max_ready=max((r.get("info", {}).get("max_ready", 0) for r in results), default=0))


def vacuity(outcomes, results, tier):
    if max((r.get("info", {}).get("max_ready", 0) for r in results), default=0) < 2:
        return "no graph with more than one ready task was seen"
    return None
