"""C09 — Cross-set models diagonalise the (partially whitened) cross-covariance. Explorer P.

Every CPCCA-family class is fitted on every element of a finite product of data pairs x whitening degrees x PCA
settings x n_modes, and what it reports is compared with a reference written in plain numpy on the plain matrices:
centre, (PCA by numpy svd), (analytic signal), whiten with C^((alpha-1)/2) from eigh with C = Z^H Z/(N-1),
cross-covariance with 1/(N-1), numpy svd.  The reference contains none of xeofs' conventions (its whitener uses 1/N);
the property leaves exactly that freedom ("proportional ... the factor depends only on sample count and alpha and is
one for MCA"), and clause (c) checks it as stated: one constant per case, the same constant for every case of the run
sharing (N, alpha_x, alpha_y) (cross-case step in `finalize`), and one for MCA.
"""

from __future__ import annotations

import itertools
import warnings

import numpy as np

from .. import data as D
from ..core import viol

ID = "C09"
LEVEL = "exploration"
TECHNIQUE = (
    "bounded exhaustive enumeration (class x data pair x alpha^2 x PCA setting x n_modes x solver) of real cross-set fits "
    "against a numpy eigh/svd reference of the fractionally whitened cross-covariance and numpy Pearson correlations"
)
RULE = (
    "full product of class in {CPCCA, MCA, CCA, RDA} x family in {real, Complex* on complex data, Hilbert* on real data (padding None/exp)} "
    "x data pair (9x4|9x3, 6x4|6x6, 5x6|5x4 i.e. p>n, plus 12x6|12x4 thorough) x spectrum x alpha in {0,.3,.5,1}^2 (CPCCA; fixed for the named classes) "
    "x PCA in {off, 2, all, mixed (thorough)} x n_modes in 1..rank x solver (auto/randomized: thorough, real family); rank counts n-1 sample dimensions "
    "(n//2 for an un-padded analytic signal); alpha<1 without PCA is enumerated only on fields with non-singular covariance (p <= that count). "
    "x sample labels of Y in {same, disjoint shift, shift by one (overlapping), same labels reversed} - samples are paired by position, so the same "
    "oracle applies unchanged (quick: real family, named classes + CPCCA at alpha (.3,.5),(1,0); thorough: every family, geometric spectrum, solver full). "
    "Plus ill-scaled fields: the last 1-2 columns of one field are 1e-2/1e-4/1e-6 times the others (un-standardised; base spectrum within 5 %, "
    "p <= n-1, PCA off/all) x all 16 alpha pairs + named classes (quick: 9x4|9x3 real, X field, k = rank; thorough: + 12x6|12x4, Complex*, Y field, two small columns, every k for the named classes and k in {1, rank} on the alpha grid). "
    "A case is non-trivial when the fit returned and the clauses (a) s>=0 descending, (b) S1^H S2/(N-1)=diag(s), (c) s/s_ref constant, "
    "(f) all reported correlations = numpy Pearson, in [-1,1], self=1 were evaluated on non-empty arrays; (d) MCA and (e) CCA clauses where alpha says so"
)
ASSUMPTIONS = [
    "the numeric catalogue (fixed spectra/shapes, orthogonal factors drawn from VERIF_SEED) stands for 'all pairs of data sets'",
    "numpy.linalg.eigh / svd / qr and scipy.signal.hilbert are correct",
    "fields whose covariance is singular (p > n-1) are whitened (alpha<1) only after PCA, as the quantifier says ('p > n after PCA'); "
    "xeofs itself warns that the un-reduced case is ill-conditioned",
    "the reference whitens through numpy's svd of the data matrix itself (accurate to eps relative to the largest singular value): directions with "
    "relative singular value < 1e-10 are null (rank deficiency shows at ~1e-15), everything above - an ill-scaled group sits at 1e-6, relative variance 1e-12 - is kept; "
    "tolerances are widened to 100 eps sqrt(cond(C)) (2e-8 at cond 1e12; xeofs measured <= 3e-10 there)",
    "standardize/use_coslat/weights are pinned off (C08 decides them); correction=None everywhere",
    "Hilbert* with padding='exp': the padded analytic signal of the reference PCs is produced by xeofs.utils.hilbert_transform "
    "(a column-wise linear map checked by C01); with padding=None it is scipy.signal.hilbert",
    "truncating PCA: squared-covariance fractions and correlation patterns are accepted against either the reduced or the unreduced field "
    "(the property does not say which one 'the cross-covariance' / 'X' is)",
]
TALLY_KEYS = ("model", "pair", "pca", "solver", "spec", "labels", "illscale")
TRUSTED = ["statsmodels import shim (/verif/shims) so that xeofs.cross constructors can be called; correction=None never reaches it"]
MAX_REFUSED_FRACTION = 0.05

ALPHAS = (0.0, 0.3, 0.5, 1.0)
NAMED = {"MCA": (1.0, 1.0), "CCA": (0.0, 0.0), "RDA": (0.0, 1.0)}
PAIRS_Q = [(9, 4, 3), (6, 4, 6), (5, 6, 4), (13, 4, 3)]
PAIRS_T = [(9, 4, 3), (6, 4, 6), (5, 6, 4), (12, 6, 4), (13, 4, 3)]
PRIME_PAIR = (13, 4, 3)  # 13 samples: an odd prime length (no FFT fast path, no Nyquist bin) - explored for the Hilbert family only
# sample coordinate labels of the Y field relative to X's: fit pairs samples by POSITION (lagged analysis X(t) vs Y(t+lag),
# shifted dates), so nothing the property speaks of may depend on them
LABELS = ("same", "disjoint", "overlap", "reversed")
# ill-scaled fields: a group of columns of one field (K next to kg/kg) is 10^-e times the others, un-standardised. Such a
# field is well conditioned in double precision (relative variance 10^-2e >= 1e-12): fractional whitening has to keep the
# small directions, and CCA must not notice the units at all.  [field, e, number of small columns]
ILL_Q = [["X", 2, 1], ["X", 4, 1], ["X", 6, 1]]
ILL_T = ILL_Q + [["Y", 2, 1], ["Y", 4, 1], ["Y", 6, 1], ["X", 4, 2], ["X", 6, 2]]
EPS = float(np.finfo(float).eps)


# ----------------------------------------------------------------------------- alphabet


def _pca_opts(tier):
    opts = ["off", 2, "all"]
    if tier == "thorough":
        opts += [["all", "off"], ["off", 2]]
    return opts


def _pca_pair(pca):
    return list(pca) if isinstance(pca, (list, tuple)) else [pca, pca]


def _sample_rank(n, family, padding):
    """dimension of the space the centred (or analytic) sample series live in: n-1, but only the positive
    frequencies 1..n//2 for an un-padded analytic signal."""
    return n // 2 if (family == "Hilbert" and padding is None) else n - 1


def _field_rank(n, p, pca, family="real", padding=None):
    r = min(_sample_rank(n, family, padding), p)
    if isinstance(pca, int):
        r = min(r, pca)
    return r


def _admissible(n, p1, p2, alpha, pca, family="real", padding=None):
    """alpha<1 on a field with singular covariance only after PCA."""
    px, py = _pca_pair(pca)
    for p, a, pc in ((p1, alpha[0], px), (p2, alpha[1], py)):
        if a < 1.0 and pc == "off" and p > _sample_rank(n, family, padding):
            return False
    return True


def _zero_pc_whitened(case):
    """a field keeps a zero-variance principal component (n_pca_modes='all' with p >= n, or more PCs than an
    un-padded analytic signal has dimensions) and is then whitened."""
    n, p1, p2 = case["shape"]
    px, py = _pca_pair(case["pca"])
    fam, pad = case["family"], case.get("padding")
    for p, a, pc in ((p1, case["alpha"][0], px), (p2, case["alpha"][1], py)):
        if a < 1.0 and pc != "off":
            kept = min(n, p) if pc == "all" else int(pc)
            if kept > min(_sample_rank(n, fam, pad), p):
                return True
    return False


def _labels_enumerated(tier, prefix, kind, alpha, spec, pca, solver, k, rank):
    """where the three non-identical labellings of Y are added to the product."""
    if spec != "geometric" or solver != "full" or isinstance(pca, list):
        return False
    if tier == "quick":  # real family: the three named classes, and CPCCA at two mixed whitening degrees
        return prefix == "" and (kind != "CPCCA" or alpha in ([0.3, 0.5], [1.0, 0.0]))
    # thorough: every family; all modes for the named classes, first and last for the alpha grid
    return kind != "CPCCA" or k in (1, rank)


def y_labels(t, labels):
    t = np.asarray(t)
    step = int(t[1] - t[0])
    if labels == "same":
        return t
    if labels == "disjoint":
        return t + step * len(t)
    if labels == "overlap":
        return t + step
    if labels == "reversed":
        return t[::-1].copy()
    raise ValueError(labels)


def _ill_cases(tier):
    """ill-scaled field x whitening degrees: only fields of full column rank (p <= n-1), PCA off or 'all' (a truncating
    PCA would drop the small group), well-conditioned base spectrum (all singular values within 5 %), solver full."""
    out = []
    pairs = [(9, 4, 3)] if tier == "quick" else [(9, 4, 3), (12, 6, 4)]
    fams = [("", False)] if tier == "quick" else [("", False), ("Complex", True)]
    for (n, p1, p2) in pairs:
        for (prefix, cplx) in fams:
            for ill in (ILL_Q if tier == "quick" else ILL_T):
                kinds = [("CPCCA", [ax, ay]) for ax in ALPHAS for ay in ALPHAS] + [(k, list(a)) for k, a in NAMED.items()]
                for kind, alpha in kinds:
                    for pca in ("off", "all"):
                        rank = min(n - 1, p1, p2)
                        for k in ([rank] if tier == "quick" else range(1, rank + 1)):
                            if kind == "CPCCA" and k not in (1, rank):
                                continue
                            out.append(dict(
                                model=prefix + kind, kind=kind, family=prefix or "real", cplx=cplx, pair="%dx%d|%dx%d" % (n, p1, n, p2),
                                shape=[n, p1, p2], spec="near_equal_var", alpha=alpha, pca=pca, n_modes=k, solver="full", labels="same",
                                illscale=ill,
                            ))
    return out


def cases(tier, seed):
    out = []
    pairs = PAIRS_Q if tier == "quick" else PAIRS_T
    specs = ["geometric"] if tier == "quick" else ["geometric", "flat_pair", "near_equal_var"]
    families = [("", False, None), ("Complex", True, None), ("Hilbert", False, None), ("Hilbert", False, "exp")]
    for (n, p1, p2) in pairs:
        for spec in specs:
            for (prefix, cplx, padding) in families:
                if padding == "exp" and ((tier == "quick" and (n, p1, p2) != (9, 4, 3)) or spec != "geometric"):
                    continue
                if (n, p1, p2) == PRIME_PAIR and (prefix != "Hilbert" or spec != "geometric"):
                    continue
                kinds = [("CPCCA", [ax, ay]) for ax in ALPHAS for ay in ALPHAS] + [(k, list(a)) for k, a in NAMED.items()]
                for kind, alpha in kinds:
                    if tier == "quick" and kind == "CPCCA" and prefix == "Hilbert" and (alpha[0] in (0.3,) or alpha[1] in (0.5,)):
                        continue
                    for pca in _pca_opts(tier):
                        fam = prefix or "real"
                        if not _admissible(n, p1, p2, alpha, pca, fam, padding):
                            continue
                        if spec != "geometric" and isinstance(pca, list):
                            continue  # mixed PCA settings on the well-separated spectrum only
                        # (flat_pair: the cut after PC 2 keeps the whole degenerate pair, so every quantity compared is decidable)
                        px, py = _pca_pair(pca)
                        rank = min(_field_rank(n, p1, px, fam, padding), _field_rank(n, p2, py, fam, padding))
                        for k in range(1, rank + 1):
                            if tier == "quick" and prefix != "" and k not in (1, rank):
                                continue
                            solvers = ["full"]
                            if tier == "thorough" and spec == "geometric" and not cplx and prefix == "":
                                solvers = ["full", "auto", "randomized"]
                            for solver, labels in itertools.product(solvers, LABELS):
                                if labels != "same" and not _labels_enumerated(tier, prefix, kind, alpha, spec, pca, solver, k, rank):
                                    continue
                                c = dict(
                                    model=prefix + kind,
                                    kind=kind,
                                    family=prefix or "real",
                                    cplx=cplx,
                                    pair="%dx%d|%dx%d" % (n, p1, n, p2),
                                    shape=[n, p1, p2],
                                    spec=spec,
                                    alpha=alpha,
                                    pca=pca,
                                    n_modes=k,
                                    solver=solver,
                                    labels=labels,
                                )
                                if prefix == "Hilbert":
                                    c["padding"] = padding
                                out.append(c)
    out += _ill_cases(tier)
    # physical units: a global factor per field, far below float32 eps / far above 1/eps (mol/mol, kg m-2 s-1, Pa); every
    # clause is relative to the field, so nothing may change
    units = [[1e-10, 1.0], [1.0, 1e-10], [1e-9, 1e9]] if tier == "quick" else [[1e-10, 1.0], [1.0, 1e-10], [1e-9, 1e9], [1e-12, 1e-12], [1e8, 1e8]]
    for (prefix, cplx, padding) in ([("", False, None), ("Hilbert", False, None)] if tier == "quick" else families[:3]):
        kinds = [(k, list(a)) for k, a in NAMED.items()] + [("CPCCA", [1.0, 0.5]), ("CPCCA", [0.5, 1.0])]
        for kind, alpha in kinds:
            for pca in ("off", "all"):
                fam = prefix or "real"
                if not _admissible(9, 4, 3, alpha, pca, fam, padding):
                    continue
                for k in ((3,) if tier == "quick" else (1, 2, 3)):
                    for unit in units:
                        c = dict(model=prefix + kind, kind=kind, family=fam, cplx=cplx, pair="9x4|9x3", shape=[9, 4, 3], spec="geometric", alpha=alpha,
                                 pca=pca, n_modes=k, solver="full", labels="same", unit=unit)
                        if prefix == "Hilbert":
                            c["padding"] = padding
                        out.append(c)
    out.sort(key=lambda c: (c["family"] != "real", c["kind"] != "MCA", c["shape"][0] != 9, c["pca"] != "off", c["labels"] != "same", c.get("illscale") is not None))
    return out


# ----------------------------------------------------------------------------- reference (numpy only)


def pearson(A, B):
    """Pearson correlation matrix between the columns of A (n x a) and of B (n x b); for complex series the
    convention E[conj(a) b]. Equals numpy.corrcoef on real input (asserted on every real case in `run_case`)."""
    A = A - A.mean(axis=0, keepdims=True)
    B = B - B.mean(axis=0, keepdims=True)
    na = np.sqrt(np.sum(np.abs(A) ** 2, axis=0))
    nb = np.sqrt(np.sum(np.abs(B) ** 2, axis=0))
    with np.errstate(divide="ignore", invalid="ignore"):
        return (A.conj().T @ B) / np.outer(na, nb)


def _pca_ref(Zc, pca):
    """PCA by numpy svd: returns (PC matrix Z V, V) ; 'off' -> identity."""
    if pca == "off":
        return Zc, None
    _, s, Vh = np.linalg.svd(Zc, full_matrices=False)
    m = min(Zc.shape) if pca == "all" else int(pca)
    V = Vh.conj().T[:, :m]
    return Zc @ V, V


def _analytic(Z, padding):
    if padding is None:
        import scipy.signal

        H = scipy.signal.hilbert(np.asarray(Z).real, axis=0)
        return H - H.mean(axis=0, keepdims=True)
    from xeofs.utils.hilbert_transform import _hilbert_transform_with_padding

    return _hilbert_transform_with_padding(np.asarray(Z).real.copy(), padding=padding, decay_factor=0.2)


NULL_CUT = 1e-10  # relative singular value of Z below which a direction is genuinely null (rank deficiency shows at ~1e-15;
#                   the smallest real direction of the catalogue, an ill-scaled group at 1e-6, is four orders above the cut)


def _whiten_ref(Z, a):
    """Z C^((a-1)/2) with C = Z^H Z/(N-1), through the svd of Z itself: singular values of Z are accurate to eps relative to
    the largest one, so a direction of relative variance 1e-12 is resolved to ~1e-10 (eigh of C would resolve it to 1e-4).
    Genuinely null directions stay null (pseudo power)."""
    if a >= 1.0:
        return Z, 1.0
    N = Z.shape[0]
    _, sv, Vh = np.linalg.svd(Z, full_matrices=False)
    keep = sv > max(sv[0], 1e-300) * NULL_CUT
    V = Vh.conj().T[:, keep]
    lam = sv[keep] ** 2 / (N - 1)
    T = (V * lam ** ((a - 1.0) / 2.0)) @ V.conj().T
    return Z @ T, float(lam[0] / lam[-1])


def _orth_basis(Z):
    U, s, _ = np.linalg.svd(Z, full_matrices=False)
    keep = s > max(s[0], 1e-300) * NULL_CUT
    return U[:, keep]


def reference(X, Y, alpha, pca, hilbert, padding):
    """All reference quantities from the two raw matrices."""
    N = X.shape[0]
    Xc = X - X.mean(axis=0, keepdims=True)
    Yc = Y - Y.mean(axis=0, keepdims=True)
    px, py = _pca_pair(pca)
    Zx, Vx = _pca_ref(Xc, px)
    Zy, Vy = _pca_ref(Yc, py)
    # fields in the original feature space: as reduced by the PCA, and unreduced
    Fx_red = Zx @ Vx.conj().T if Vx is not None else Xc
    Fy_red = Zy @ Vy.conj().T if Vy is not None else Yc
    Fx_full, Fy_full = Xc, Yc
    if hilbert:
        Zx, Zy = _analytic(Zx, padding), _analytic(Zy, padding)
        Fx_red, Fy_red = _analytic(Fx_red, padding), _analytic(Fy_red, padding)
        Fx_full, Fy_full = _analytic(Fx_full, padding), _analytic(Fy_full, padding)
    Wx, cx = _whiten_ref(Zx, alpha[0])
    Wy, cy = _whiten_ref(Zy, alpha[1])
    Cw = Wx.conj().T @ Wy / (N - 1)
    sref = np.linalg.svd(Cw, compute_uv=False)
    C_red = Zx.conj().T @ Zy / (N - 1)  # un-whitened cross-covariance of the decomposed fields
    C_full = Fx_full.conj().T @ Fy_full / (N - 1)
    # canonical correlations, normalisation-free (Bjoerck-Golub: cosines of the principal angles)
    rho = np.linalg.svd(_orth_basis(Zx).conj().T @ _orth_basis(Zy), compute_uv=False)
    return dict(
        N=N, sref=sref, fro2_red=float(np.sum(np.abs(C_red) ** 2)), fro2_full=float(np.sum(np.abs(C_full) ** 2)),
        cond=max(cx, cy), rho=np.clip(rho, 0, 1), Fx=[Fx_red, Fx_full], Fy=[Fy_red, Fy_full], rankC=int(np.sum(sref > sref[0] * 1e-9)),
    )


# ----------------------------------------------------------------------------- the real thing


def build_input(case, seed):
    import xarray as xr

    n, p1, p2 = case["shape"]
    X = D.make_matrix(n, p1, case["spec"], 1.0, case["cplx"], seed, salt=1)
    Y = D.make_matrix(n, p2, case["spec"], 1.0, case["cplx"], seed, salt=2)
    ill = case.get("illscale")
    if ill:
        M = X if ill[0] == "X" else Y
        M[:, M.shape[1] - int(ill[2]):] *= 10.0 ** (-int(ill[1]))  # mean row included: it is the variable that is small
    if case.get("unit"):
        X, Y = X * case["unit"][0], Y * case["unit"][1]
    t = np.arange(n) * 2 + 1
    dx = xr.DataArray(X, dims=("time", "x"), coords={"time": t, "x": np.arange(p1) * 10}, name="left")
    dy = xr.DataArray(Y, dims=("time", "y"), coords={"time": y_labels(t, case.get("labels", "same")), "y": np.arange(p2) * 5 + 100}, name="right")
    return X, Y, dx, dy


def make_model(case):
    import xeofs as xe

    cls = getattr(xe.cross, case["model"])
    kw = dict(n_modes=case["n_modes"], standardize=False, use_coslat=False, solver=case["solver"], random_state=7)
    px, py = _pca_pair(case["pca"])
    kw["use_pca"] = [px != "off", py != "off"]
    kw["n_pca_modes"] = [px if px != "off" else "all", py if py != "off" else "all"]
    if case["kind"] == "CPCCA":
        kw["alpha"] = list(case["alpha"])
    if case["family"] == "Hilbert":
        kw["padding"] = case["padding"]
    return cls(**kw)


def _scaled_by(rep, ref, N):
    """Classify a deviation between reported and reference correlations: a uniform factor N/(N-1), or 'other'."""
    rep = np.asarray(rep).ravel()
    ref = np.asarray(ref).ravel()
    m = np.abs(ref) > 1e-6
    if not m.any():
        return "other"
    q = rep[m] / ref[m]
    f = N / (N - 1.0)
    if np.max(np.abs(q - f)) <= 1e-7:
        return "N/(N-1)"
    if np.max(np.abs(q - 1 / f)) <= 1e-7:
        return "(N-1)/N"
    return "other"


def _either_conj(rep, refs):
    """smallest max-abs deviation of rep from any candidate reference, in either conjugation convention."""
    best = np.inf
    arg = None
    for r_ in refs:
        for cand in (r_, r_.conj()) if np.iscomplexobj(r_) else (r_,):
            if cand.shape != rep.shape:
                continue
            e = float(np.max(np.abs(rep - cand))) if rep.size else 0.0
            if e < best:
                best, arg = e, cand
    return best, arg


def run_case(case, seed):
    X, Y, dx, dy = build_input(case, seed)
    n, p1, p2 = case["shape"]
    k = case["n_modes"]
    alpha = [float(a) for a in case["alpha"]]
    mname = case["model"]
    hilb = case["family"] == "Hilbert"
    is_mca = alpha == [1.0, 1.0]
    is_cca = alpha == [0.0, 0.0]
    trunc = any(isinstance(p, int) for p in _pca_pair(case["pca"]))
    feats = dict(pca=case["pca"] != "off", cplx=bool(case["cplx"] or hilb))
    lbl = {} if case.get("labels", "same") == "same" else {"labels": case["labels"]}  # only where it can matter: old signatures stay
    if case.get("illscale"):
        lbl["illscale"] = "1e-%d" % int(case["illscale"][1])
    errs = {}
    V = []
    done = []

    def bad(check, msg, _plain=False, **extra):
        f = dict(extra, **lbl) if _plain else dict(feats, **extra, **lbl)
        V.append(viol(check, mname, msg, **f))

    m = make_model(case)
    with warnings.catch_warnings():
        warnings.simplefilter("ignore")
        m.fit(dx, dy, dim="time")
        # accessors are pure queries: asking for the normalised variants first must not change anything read below
        m.scores(normalized=True)
        m.components(normalized=False)
        sc1, sc2 = m.scores()
        cp1, cp2 = m.components()
        sv = m.data["singular_values"]
        ccc = m.cross_correlation_coefficients()
        ccx = m.correlation_coefficients_X()
        ccy = m.correlation_coefficients_Y()
        scf = m.squared_covariance_fraction() if alpha == [1.0, 1.0] else None
        (hom1, hom2), _ = m.homogeneous_patterns(correction=None)
        (het1, het2), _ = m.heterogeneous_patterns(correction=None)

    ref = reference(X, Y, alpha, case["pca"], hilb, case.get("padding"))
    N = ref["N"]
    modes = np.arange(1, k + 1)
    lab = {"time": dx.time.values, "x": dx.x.values, "y": dy.y.values, "mode": modes}
    S1 = D.to_matrix(sc1, ["time"], ["mode"], lab)
    S2 = D.to_matrix(sc2, ["time"], ["mode"], dict(lab, time=dy.time.values))  # rows in Y's own (positional) sample order
    P1 = D.to_matrix(cp1, ["x"], ["mode"], lab)
    P2 = D.to_matrix(cp2, ["y"], ["mode"], lab)
    s = np.asarray(sv.sel(mode=modes).values)
    sref = ref["sref"]
    exact = case["solver"] == "full" and not trunc
    tol = 1e-9 if exact else 1e-7
    # a whitened field is a data matrix of condition sqrt(cond(C)): rounding is amplified by that much and no more
    # (measured on the ill-scaled fields: <= 3e-10 at cond(C) = 1e12). Below 1e7 this changes nothing.
    tol = max(tol, 100 * EPS * float(np.sqrt(ref["cond"])))

    # (a) non-negative, descending, real
    if np.iscomplexobj(s) and np.abs(s.imag).max() > 0:
        bad("sv_real", "singular values have an imaginary part: %s" % s)
    s = s.real
    if not np.all(np.isfinite(s)):
        bad("sv_finite", "non-finite singular values %s" % s)
        return dict(violations=V, outcome="violation", nontrivial=True)
    if np.any(s < -tol * max(sref[0], 1e-300)):
        bad("sv_nonnegative", "negative singular value: %s" % s)
    if np.any(np.diff(s) > tol * max(sref[0], 1e-300)):
        bad("sv_descending", "singular values not descending: %s" % s)
    done.append("a")

    # (b) cross-covariance of the two score sets is diag(s)
    G = S1.conj().T @ S2 / (N - 1)
    e = np.abs(G - np.diag(s)).max() / max(s[0], sref[0], 1e-300)
    errs["b"] = float(e)
    if not e <= tol:
        off = np.abs(G - np.diag(np.diag(G))).max() / max(s[0], 1e-300)
        bad("scores_crosscov_diag", "|S1^H S2/(N-1) - diag(s)|/s1 = %.3e (off-diagonal part %.3e); diag %s vs s %s" % (e, off, np.diag(G)[:4], s[:4]),
            offdiag=bool(off > tol))
    done.append("b")

    # (c) proportional to the reference singular values, factor one for MCA
    sig = sref[:k]
    ok = sig > sref[0] * 1e-8
    ratio = None
    if ok.any():
        q = s[ok] / sig[ok]
        ratio = float(q[0])
        errs["c"] = float(np.max(np.abs(q - q[0])) / abs(q[0]))
        if not np.max(np.abs(q - q[0])) <= 10 * tol * abs(q[0]):
            bad("sv_proportional", "reported/reference ratio differs between modes: %s (reported %s, reference %s)" % (q, s, sig), mca=is_mca)
        elif is_mca and not abs(q[0] - 1.0) <= 10 * tol:
            bad("sv_factor_mca", "MCA: reported singular values are %.9f x those of the cross-covariance (N=%d)" % (q[0], N))
        done.append("c")
    if (~ok).any() and np.abs(s[~ok]).max() > 1e-6 * sref[0]:
        bad("sv_proportional", "reference singular value is zero where %s is reported" % s[~ok], mca=is_mca)

    # (d) MCA
    if is_mca:
        for nm, P in (("X", P1), ("Y", P2)):
            e = np.abs(P.conj().T @ P - np.eye(k)).max()
            if not e <= tol:
                bad("mca_components_orthonormal", "field %s: |P^H P - I| = %.3e" % (nm, e), field=nm)
        scfv = np.asarray(scf.sel(mode=modes).values).real
        cands = [sig**2 / ref["fro2_red"]] + ([sig**2 / ref["fro2_full"]] if trunc else [])
        e = min(np.abs(scfv - c).max() for c in cands)
        if not e <= 10 * tol:
            bad("mca_scf", "SCF %s vs sigma^2/|C|_F^2 %s" % (scfv[:4], cands[0][:4]))
        if k == ref["rankC"] and not trunc:
            if not abs(scfv.sum() - 1.0) <= 10 * tol:
                bad("mca_scf_sum", "SCF sums to %.12f at full rank" % scfv.sum())
        done.append("d")

    # (e) CCA: Pearson correlation of paired scores = canonical correlations
    if is_cca:
        pc = np.diag(pearson(S1, S2))
        rho = ref["rho"][:k]
        e = np.abs(pc - rho).max()
        errs["e"] = float(e)
        if not e <= 100 * tol:
            bad("cca_score_correlation", "corr(scores) %s vs canonical correlations %s" % (pc[:4], rho[:4]))
        done.append("e")

    # (f) every reported correlation is a genuine correlation
    def corr_clause(which, rep, refs, self_diag=False):
        # "equals the numpy Pearson correlation of the two series it names" implies the other two statements of the
        # clause (|r| <= 1, self-correlation 1); they are reported on their own only when the first one holds.
        group = "patterns" if "patterns" in which else "score_correlations"
        rep = np.asarray(rep)
        if not np.all(np.isfinite(rep)):
            bad("corr_finite", "%s has non-finite entries" % which, group=group)
            return
        e, arg = _either_conj(rep, refs)
        if arg is None:
            bad("corr_shape", "%s has shape %s" % (which, rep.shape), group=group)
            return
        errs["f"] = max(errs.get("f", 0.0), float(e))
        mx = float(np.abs(rep).max()) if rep.size else 0.0
        d = np.diag(rep) if self_diag else np.ones(1)
        if not e <= 100 * tol:
            bad("corr_is_pearson", "%s: max |reported - Pearson| = %.3e; reported %s vs numpy %s (N=%d); max |value| %.6f%s"
                % (which, e, np.round(rep.ravel()[:3], 6), np.round(arg.ravel()[:3], 6), N, mx, ("; self-correlation %s" % np.round(d[:3], 6)) if self_diag else ""),
                _plain=True, group=group, scaled_by=_scaled_by(rep, arg, N), **({"zero_pc_whitened": _zero_pc_whitened(case)} if group == "patterns" else {}))
            return
        if mx > 1 + 100 * tol:
            bad("corr_range", "%s: |value| up to %.6f > 1" % (which, mx), _plain=True, group=group)
        if self_diag and not np.abs(d - 1.0).max() <= 100 * tol:
            bad("corr_self_is_one", "%s: self-correlation %s" % (which, d[:4]), _plain=True, group=group)

    if not np.iscomplexobj(S1) and not np.iscomplexobj(S2):  # harness sanity: the reference IS numpy's Pearson correlation
        cc = np.corrcoef(S1.T, S2.T)[:k, k:]
        assert np.allclose(cc, pearson(S1, S2), rtol=0, atol=1e-12, equal_nan=True), "harness error: pearson() != numpy.corrcoef"
    lab2 = dict(lab, mode_x=modes, mode_y=modes)
    corr_clause("cross_correlation_coefficients", np.asarray(ccc.sel(mode=modes).values), [np.diag(pearson(S1, S2)).real])
    corr_clause("correlation_coefficients_X", D.to_matrix(ccx, ["mode_x"], ["mode_y"], lab2), [pearson(S1, S1)], self_diag=True)
    corr_clause("correlation_coefficients_Y", D.to_matrix(ccy, ["mode_x"], ["mode_y"], lab2), [pearson(S2, S2)], self_diag=True)
    corr_clause("homogeneous_patterns_X", D.to_matrix(hom1, ["x"], ["mode"], lab), [pearson(F, S1) for F in ref["Fx"]])
    corr_clause("homogeneous_patterns_Y", D.to_matrix(hom2, ["y"], ["mode"], lab), [pearson(F, S2) for F in ref["Fy"]])
    corr_clause("heterogeneous_patterns_X", D.to_matrix(het1, ["x"], ["mode"], lab), [pearson(F, S2) for F in ref["Fx"]])
    corr_clause("heterogeneous_patterns_Y", D.to_matrix(het2, ["y"], ["mode"], lab), [pearson(F, S1) for F in ref["Fy"]])
    done.append("f")

    return dict(
        violations=V,
        outcome="violation" if V else "ok",
        nontrivial=bool(S1.size and S2.size and "c" in done and "f" in done),
        info=dict(ratio=ratio, N=N, alpha=alpha, clauses="".join(done), s1=float(sref[0]), labels=case.get("labels", "same"), cond=ref["cond"], errs=errs),
    )


# ----------------------------------------------------------------------------- cross-case clause (c)


def finalize(cases_, results, tier, seed):
    """reported/reference factor must be one constant for all cases sharing (N, alpha_x, alpha_y)."""
    groups = {}
    for c, r in zip(cases_, results):
        info = r.get("info") or {}
        if info.get("ratio") is None:
            continue
        key = (info["N"], float(info["alpha"][0]), float(info["alpha"][1]))
        groups.setdefault(key, []).append((info["ratio"], c))
    out = []
    factors = {}
    for key, lst in sorted(groups.items()):
        q = np.array([x[0] for x in lst])
        med = float(np.median(q))
        factors["N=%d,alpha=(%g,%g)" % key] = round(med, 9)
        dev = np.abs(q - med)
        i = int(np.argmax(dev))
        if dev[i] > 1e-6 * abs(med):
            c = lst[i][1]
            v = viol("sv_factor_depends_only_on_N_alpha", c["model"],
                     "cases sharing N=%d alpha=(%g,%g) report singular values that are %.9f x and %.9f x the reference ones" % (key + (med, q[i])),
                     pca=c["pca"] != "off", cplx=bool(c["cplx"] or c["family"] == "Hilbert"))
            v["case"] = c
            out.append(v)
    distinct = sorted(set(factors.values()))
    return out, dict(factor_groups=len(groups), factors_observed=factors if len(factors) <= 70 else None, distinct_factors=len(distinct))


def vacuity(outcomes, results, tier):
    seen = set()
    alphas = set()
    n = 0
    for r in results:
        info = r.get("info") or {}
        seen |= set(info.get("clauses", ""))
        if info.get("ratio") is not None:
            alphas.add(tuple(info["alpha"]))
        n += bool(r.get("nontrivial"))
    missing = set("abcdef") - seen
    if missing:
        return "oracle clauses never evaluated: %s" % sorted(missing)
    lab_seen = set((r.get("info") or {}).get("labels") for r in results if r.get("nontrivial"))
    if not set(LABELS) <= lab_seen:
        return "sample labellings of Y never compared: %s" % sorted(set(LABELS) - lab_seen)
    ill_seen = set(r["info"].get("cond", 0) > 1e11 for r in results if r.get("nontrivial") and r.get("info"))
    if True not in ill_seen:
        return "no whitened field of condition > 1e11 was compared with the reference (ill-scaled dimension did not vary)"
    if len(alphas) < 16:
        return "only %d of the 16 whitening degrees were compared with the reference" % len(alphas)
    if n < 0.9 * len(results):
        return "only %d of %d cases reached all clauses" % (n, len(results))
    return None
