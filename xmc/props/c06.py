"""C06 — Fully missing features/samples are ignored exactly; isolated NaNs are refused. Explorer P.

Every case builds a small labelled input from a catalogue matrix, writes one NaN mask into it and runs the REAL xeofs
model on it.  The oracle is

* differential for masks made of fully missing features and/or samples: the masked fit must be the fit of a *plain*
  two-dimensional array from which those rows/columns were deleted beforehand (same numbers at the remaining labels,
  NaN at exactly the deleted labels of components, scores and reconstructions, every label still present), plus two
  absolute anchors in plain numpy (singular values = numpy svd of the centred sub-matrix; a full-rank reconstruction
  returns the input values at the remaining cells);
* a demanded rejection for every mask with an isolated NaN (fit and transform) and for transform data whose set of
  fully missing features differs from the training data;
* for cross-set models, every pair (missing samples of X, missing samples of Y): equal positions -> as above with the
  samples deleted from both fields; different positions -> an exception, or the fit with the union deleted from both
  fields.  Numbers from any other alignment are a violation.

The reference never reads a sanitizer/stacker attribute of xeofs: it only uses the public results, addressed by label.
"""

from __future__ import annotations

import itertools
import warnings

import numpy as np

from .. import data as D
from ..core import viol

ID = "C06"
LEVEL = "exploration"
TECHNIQUE = (
    "bounded exhaustive enumeration of NaN masks (every pair of fully-missing feature subset x sample subset, every isolated cell, "
    "every row/column minus one cell, every one-feature transform mismatch, every pair of per-field sample masks for cross-set models) "
    "on real fits (one and two sample dimensions; cross-set with and without the PCA step), compared with the real fit of the pre-deleted plain matrix "
    "and with numpy svd / the input values"
)
RULE = (
    "single-set (EOF with standardize off/on, EOFRotator) x container {DataArray with two feature dims, Dataset of two variables, list of two arrays} "
    "x every (feature subset, sample subset) fully NaN leaving >= 2 features and >= 3 samples of an n x 4 input (n = 4 quick, 5 thorough); "
    "list inputs whose two items miss samples at different positions (all pairs of <= 1 sample each); "
    "isolated masks: every single cell, every row-minus-one-cell, every column-minus-one-cell, every cyclic diagonal, and (thorough) every cell combined with a "
    "fully missing feature or sample, each at fit and at transform; every (training feature subset, one feature added/removed/moved) transform mismatch with center on/off; "
    "cross-set (MCA, CPCCA alpha=.5, MCARotator) x every pair (sample mask of X, sample mask of Y) with <= 2 missing samples each "
    "(quick: at most 2 in total, n = 6; thorough: n = 8) and every pair of <= 1 missing feature per field with and without a missing sample; "
    "cross-set with the PCA step on (MCA all/2 PCs, CPCCA, CCA, RDA, MCARotator, CPCCARotator with all PCs; CCA, RDA, CPCCARotator also without PCA) x "
    "fully missing samples at equal positions of both fields (quick: none, every single sample, one pair; thorough: every set of <= 2) and one missing feature per field; "
    "two sample dimensions (time x member = 3x2 quick, 4x2 thorough): EOF x every set of <= 2 (thorough <= 3) fully missing samples of the grid, whole slices and ragged "
    "sets alike, x (center, standardize) in {(T,F),(T,T),(F,F)} (+(F,T) thorough) x {no, one} missing feature (quick: the full mask set for the centred models), "
    "reference = fit of the stacked grid with those samples dropped beforehand; "
    "accessors: ComplexEOF, HilbertEOF and their rotators (one sample dim on a 2x2 feature grid, and a 3x2 time-member grid) and ComplexMCA, HilbertMCA, MCA, CPCCA, "
    "Complex/HilbertMCARotator x fully missing samples x one missing feature (per field) -- every public accessor on the sample axis or the feature grid "
    "(components/scores and their _amplitude/_phase, homogeneous/heterogeneous patterns and p-values) must carry all labels, NaN at exactly the deleted ones, "
    "and equal the accessor of the pre-deleted fit (phases on the unit circle); "
    "every isolated cell of X and of Y at fit and at transform of MCA. A case is non-trivial when a numeric comparison with the "
    "pre-deleted fit was evaluated on non-empty arrays; demanded rejections are tallied as outcome 'rejected:*'"
)
ASSUMPTIONS = [
    "the numeric catalogue (geometric spectrum, orthogonal factors drawn from VERIF_SEED) stands for 'all inputs'; sizes are n<=8, p<=4",
    "'the model obtained by deleting them beforehand' is the fit of a plain (time, f) DataArray holding the remaining rows and columns "
    "(independence of the container is C07's subject)",
    "numpy.linalg.svd is correct",
    "'rejected with an error' is any exception raised by fit/transform; its type is tallied in the outcome",
    "transform may either omit fully missing samples or return NaN for them (DESIGN 4.2)",
    "a sample that is missing in only one item of a list input (single-set) or in only one field (cross-set) may be refused or treated as deleted everywhere; "
    "a value at such a label in the field/item that does have data is not checked",
    "a call that raises the same exception type on NaN-free data in the same container is not a C06 matter (DESIGN 4.2): the clause is skipped and counted",
    "solver='full'; use_pca and (center, standardize) vary only in the families that say so (n_pca_modes 'all' or 2, never the variance threshold); "
    "other preprocessing flags are C08's subject",
]
TALLY_KEYS = ("kind", "model", "container", "stage", "pattern")
TRUSTED = ["statsmodels import shim (/verif/shims) so that xeofs.cross constructors can be called"]
MAX_REFUSED_FRACTION = 0.0  # nothing here is a documented refusal; demanded rejections are 'rejected:*'

P = 4
TOL = 1e-9
TOL_ROT = 1e-7
LAT = [-30.0, 50.0]
LON = [0.0, 30.0]
XC = [0, 10]
YC = [5, 6]


def _tlab(n):
    return np.arange(n) * 3 + 101


# ----------------------------------------------------------------------------- alphabet


def _subsets(n, max_removed):
    out = []
    for r in range(0, max_removed + 1):
        out += [list(c) for c in itertools.combinations(range(n), r)]
    return out


def cases(tier, seed):
    quick = tier == "quick"
    out = []
    n = 4 if quick else 5
    fsubs = _subsets(P, P - 2)  # leaves >= 2 features
    ssubs = _subsets(n, n - 3)  # leaves >= 3 samples
    containers = ["da2", "ds", "list"]
    singles = [("EOF", False), ("EOFRotator", False)] + ([] if quick else [("EOF", True)])

    # ---- A: fully missing features x samples, single-set
    for model, std in singles:
        for cont in containers:
            if quick and model == "EOFRotator" and cont != "da2":
                continue  # ~1 s per rotated case; the other containers are rotated in the thorough tier
            for fm in fsubs:
                for sm in ssubs:
                    out.append(dict(kind="single_mask", model=model, container=cont, n=n, standardize=std, fmask=fm, smask=sm))
    # ---- A': list items missing samples at different positions
    one = _subsets(n, 1)
    for model in ["EOF"] + ([] if quick else ["EOFRotator"]):
        for stage in ("fit", "transform"):
            for s0 in one:
                for s1 in one:
                    if s0 == s1:
                        continue
                    out.append(dict(kind="single_listitem", model=model, container="list", n=n, stage=stage, smask0=s0, smask1=s1))
    # ---- B: isolated NaNs
    pats = []
    for i in range(n):
        for j in range(P):
            pats.append(("cell", i, j))
            pats.append(("rowm", i, j))
            pats.append(("colm", i, j))
            if not quick:
                pats.append(("cell+f", i, j))
                pats.append(("cell+s", i, j))
    for s in range(P):
        pats.append(("diag", s, 0))
    for model in ["EOF"] + ([] if quick else ["EOFRotator"]):
        for cont in containers:
            for stage in ("fit", "transform"):
                if model == "EOFRotator" and stage == "fit":
                    continue  # the rotator has no fit on data of its own
                for (pat, i, j) in pats:
                    out.append(dict(kind="isolated", model=model, container=cont, n=n, stage=stage, pattern=pat, i=i, j=j))
    # ---- C: transform data whose missing features differ by one from the training data
    for model in ["EOF"] + ([] if quick else ["EOFRotator"]):
        for cont in containers:
            for center in (True, False):
                for fm in fsubs:
                    for j in range(P):
                        out.append(dict(kind="transform_mismatch", model=model, container=cont, n=n, stage="transform", center=center, fmask=fm, flip=[j]))
                    for a in fm:  # same number of missing features, one of them moved
                        for b in range(P):
                            if b not in fm:
                                out.append(dict(kind="transform_mismatch", model=model, container=cont, n=n, stage="transform", center=center, fmask=fm, flip=[a, b]))
    # ---- D: cross-set, every pair of per-field sample masks
    nc = 6 if quick else 8
    cm = _subsets(nc, 2)
    for model in ("MCA", "CPCCA", "MCARotator"):
        for sx in cm:
            for sy in cm:
                if quick and len(sx) + len(sy) > 2:
                    continue
                if model == "MCARotator" and (max(len(sx), len(sy)) > 1 if quick else len(sx) + len(sy) > 3):
                    continue  # ~1 s per rotated case
                out.append(dict(kind="cross_mask", model=model, container="da", n=nc, smx=sx, smy=sy, fmx=[], fmy=[]))
    # ---- D': cross-set, fully missing features (with and without a missing sample)
    f1 = _subsets(3, 1)
    for model in ("MCA", "CPCCA", "MCARotator"):
        for fx in f1:
            for fy in f1:
                if not fx and not fy:
                    continue
                for sm in ([], [2]) if quick else ([], [0], [2], [nc - 1], [1, 4]):
                    if quick and model == "MCARotator" and sm and fx and fy:
                        continue
                    out.append(dict(kind="cross_mask", model=model, container="da", n=nc, smx=sm, smy=sm, fmx=fx, fmy=fy))
    # ---- D'': cross-set with the PCA step switched on (and the two named classes without it): fully missing samples at
    #      the same positions of both fields; the reconstruction goes back through PCA.inverse_transform_data
    one_c = [[]] + [[i] for i in range(nc)]
    for model, pcas in (("MCA", ["all", 2]), ("CPCCA", ["all"]), ("CCA", [None, "all"]), ("RDA", [None, "all"]), ("MCARotator", ["all"]), ("CPCCARotator", [None, "all"])):
        for pca in pcas:
            rot = model in CROSS_BASE
            if quick:
                masks = [[], [2]] if rot else one_c + [[1, 4]]
                if pca is None or pca == 2:
                    masks = [[], [0], [2, 3]]
            else:
                masks = (one_c + [[1, 4]]) if rot else cm
            for sm in masks:
                out.append(dict(kind="cross_mask", model=model, container="da", n=nc, pca=pca, smx=sm, smy=sm, fmx=[], fmy=[]))
            for fx, fy in (([0], []), ([], [2])) if quick else (([0], []), ([], [2]), ([1], [1])):
                if quick and rot:
                    continue
                out.append(dict(kind="cross_mask", model=model, container="da", n=nc, pca=pca, smx=[2], smy=[2], fmx=fx, fmy=fy))
    # ---- A'': two sample dimensions (time x member): every set of fully missing samples of the time-member grid, whole
    #      slices and ragged ones alike, x (center, standardize); the reference stacks the grid and drops them beforehand
    T2, M2 = (3, 2) if quick else (4, 2)
    g = T2 * M2
    gsubs = _subsets(g, 2 if quick else 3)
    for center, std in ((True, False), (True, True), (False, False)) + (() if quick else ((False, True),)):
        for fm in ([], [1]):
            for sm in gsubs:
                if quick and (fm or not center) and len(sm) != 1:
                    continue  # quick: the full mask set for the centred models only
                if not quick and fm and len(sm) > 2:
                    continue
                out.append(dict(kind="single_mask2", model="EOF", container="da_2s", n=g, grid=[T2, M2], center=center, standardize=std, fmask=fm, smask=sm))
    # ---- F: every public accessor on the sample axis / the feature grid (amplitude, phase, correlation patterns) of the
    #      complex / Hilbert classes, their rotators and the cross-set classes, with fully missing samples and features
    na = 6
    s_q = [[], [0], [2], [na - 1], [1, 3]]
    f_q = [[], [1]]
    for model in ("ComplexEOF", "HilbertEOF", "ComplexEOFRotator", "HilbertEOFRotator"):
        rot = model.endswith("Rotator")
        for cont in ("da2", "da_2s"):
            nn = na if cont == "da2" else 6  # one sample dim: 6 samples; two: a 3 x 2 grid
            if quick:
                masks = [(sm, fm) for sm in s_q for fm in f_q] if not rot else ([([2], []), ([1, 3], [1])] if cont == "da2" else [([3], [])])
            else:
                masks = [(sm, fm) for sm in _subsets(nn, 2) for fm in _subsets(P, 1)]
                if rot:
                    masks = [(sm, fm) for sm in _subsets(nn, 1) + [[1, 3]] for fm in f_q]
            for sm, fm in masks:
                out.append(dict(kind="accessors", model=model, container=cont, n=nn, fmask=fm, smask=sm))
    for model in ("ComplexMCA", "HilbertMCA", "MCA", "CPCCA", "ComplexMCARotator", "HilbertMCARotator"):
        rot = model in CROSS_BASE
        if quick:
            masks = [([2], [], []), ([0, 4], [0], []), ([], [], [2]), ([5], [1], [1])] if not rot else [([2], [0], [])]
        else:
            masks = [(sm, fx, fy) for sm in one_c + [[1, 4]] for fx, fy in (([], []), ([0], []), ([], [2]), ([1], [1]))]
            if rot:
                masks = [(sm, fx, fy) for sm in ([], [0], [2], [1, 4]) for fx, fy in (([], []), ([0], [2]))]
        for sm, fx, fy in masks:
            out.append(dict(kind="accessors", model=model, container="da", n=nc, smask=sm, fmx=fx, fmy=fy))
    # ---- E: cross-set isolated cells
    for field in ("X", "Y"):
        for stage in ("fit", "transform"):
            for i in range(nc):
                for j in range(3):
                    if quick and (i + j) % 3:
                        continue
                    out.append(dict(kind="cross_isolated", model="MCA", container="da", n=nc, stage=stage, pattern="cell", field=field, i=i, j=j))
    order = {"single_mask": 0, "single_mask2": 0.5, "accessors": 0.7, "cross_mask": 1, "isolated": 2, "transform_mismatch": 3, "single_listitem": 4, "cross_isolated": 5}
    out.sort(key=lambda c: (order[c["kind"]], len(c.get("fmask", [])) + len(c.get("smask", [])) + len(c.get("smx", [])) + len(c.get("smy", []))))
    return out


# ----------------------------------------------------------------------------- containers (numpy/xarray only)


def _base(n, seed, salt=0, p=P):
    return D.make_matrix(n, p, "geometric", 1.0, False, seed, salt=salt)


def _apply(X, fmask=(), smask=(), cells=()):
    M = np.array(X, dtype=float, copy=True)
    if len(smask):
        M[list(smask), :] = np.nan
    if len(fmask):
        M[:, list(fmask)] = np.nan
    for (i, j) in cells:
        M[i, j] = np.nan
    return M


def _container(M, cont):
    import xarray as xr

    n = M.shape[0]
    t = _tlab(n)
    if cont == "da2":
        return xr.DataArray(M.reshape(n, 2, 2), dims=("time", "lat", "lon"), coords={"time": t, "lat": LAT, "lon": LON}, name="field")
    a = xr.DataArray(M[:, :2], dims=("time", "x"), coords={"time": t, "x": XC}, name="a")
    if cont == "ds":
        b = xr.DataArray(M[:, 2:], dims=("time", "x"), coords={"time": t, "x": XC}, name="b")
        return xr.Dataset({"a": a, "b": b})
    if cont == "list":
        b = xr.DataArray(M[:, 2:], dims=("time", "y"), coords={"time": t, "y": YC}, name="b")
        return [a, b]
    raise ValueError(cont)


def _plain(M, rows, cols, fname="f"):
    """the data with everything else deleted beforehand: a plain (time, f) array of the remaining rows and columns."""
    t = _tlab(M.shape[0])
    sub = M[np.ix_(rows, cols)]
    return D.da_2d(sub, sample="time", feature=fname, scoord=t[rows], fcoord=np.asarray(cols) * 7 + 1)


def _flat_features(obj, cont, lead, lead_labels):
    """label-keyed flattening of a result living on the features of container `cont` -> (P, len(lead_labels))."""
    import xarray as xr

    ref = {lead: lead_labels, "lat": LAT, "lon": LON, "x": XC, "y": YC}
    if cont == "da2":
        if not isinstance(obj, xr.DataArray):
            raise D.LabelError("expected a DataArray, got %s" % type(obj).__name__)
        return D.to_matrix(obj, ["lat", "lon"], [lead], ref)
    if cont == "ds":
        if not isinstance(obj, xr.Dataset) or set(obj.data_vars) != {"a", "b"}:
            raise D.LabelError("expected a Dataset with variables a, b, got %s" % (list(getattr(obj, "data_vars", [])) or type(obj).__name__))
        return np.concatenate([D.to_matrix(obj["a"], ["x"], [lead], ref), D.to_matrix(obj["b"], ["x"], [lead], ref)], axis=0)
    if cont == "list":
        if not isinstance(obj, (list, tuple)) or len(obj) != 2:
            raise D.LabelError("expected a list of two arrays, got %s" % type(obj).__name__)
        return np.concatenate([D.to_matrix(obj[0], ["x"], [lead], ref), D.to_matrix(obj[1], ["y"], [lead], ref)], axis=0)
    raise ValueError(cont)


def _flat_plain(obj, fdim, flabels, lead, lead_labels):
    return D.to_matrix(obj, [fdim], [lead], {fdim: flabels, lead: lead_labels})


def _scores_matrix(sc, tl, modes, allow_omitted=None):
    """(len(tl), k) by label. `allow_omitted`: labels that may be absent (they are filled with NaN)."""
    have = list(np.asarray(sc["time"].values).tolist()) if "time" in sc.dims else None
    if have is None:
        raise D.LabelError("scores have no 'time' dimension: %s" % (sc.dims,))
    if allow_omitted is not None and len(have) == len(set(have)):
        missing = [x for x in tl.tolist() if x not in set(have)]
        if missing and set(missing) <= set(np.asarray(allow_omitted).tolist()):
            sc = sc.reindex(time=tl)
    return D.to_matrix(sc, ["time"], ["mode"], {"time": tl, "mode": modes})


# ----------------------------------------------------------------------------- comparison helpers


class _Acc:
    def __init__(self, model, **feats):
        self.model = model
        self.feats = feats
        self.V = []
        self.clauses = set()
        self.nan_labels = set()
        self.skipped = []
        self.numeric = False

    def bad(self, check, msg, **extra):
        f = dict(self.feats)
        f.update(extra)
        self.V.append(viol(check, self.model, msg, **f))

    def embedded(self, what, full, sub, keep_r, keep_c=None, tol=TOL, scale=1.0):
        """`full` (all labels) must equal `sub` on the kept rows (and columns) and be NaN exactly elsewhere."""
        full = np.asarray(full)
        sub = np.asarray(sub)
        R_ = full.shape[0]
        mr = np.zeros(R_, bool)
        mr[list(keep_r)] = True
        if keep_c is None:
            expect_finite = np.repeat(mr[:, None], full.shape[1], axis=1)
            inner = full[mr, :]
        else:
            mc = np.zeros(full.shape[1], bool)
            mc[list(keep_c)] = True
            expect_finite = mr[:, None] & mc[None, :]
            inner = full[np.ix_(mr, mc)]
        isn = np.isnan(full.real) | (np.isnan(full.imag) if np.iscomplexobj(full) else False)
        self.clauses.add(what)
        if (~expect_finite).any():
            self.nan_labels.add(what)
        if (isn & expect_finite).any():
            self.bad(what + "_nan_positions", "%s: NaN at %d of %d cells whose labels were not deleted" % (what, int((isn & expect_finite).sum()), int(expect_finite.sum())), polluted="nan_at_kept")
            return
        if (~isn & ~expect_finite).any():
            self.bad(what + "_nan_positions", "%s: finite values at %d of %d cells whose labels were deleted" % (what, int((~isn & ~expect_finite).sum()), int((~expect_finite).sum())), polluted="finite_at_deleted")
        if inner.shape != sub.shape:
            self.bad(what + "_values", "%s: shape at the remaining labels %s, pre-deleted fit %s" % (what, inner.shape, sub.shape))
            return
        if inner.size:
            self.numeric = True
            e = float(np.max(np.abs(inner - sub))) / max(scale, 1e-300)
            if not e <= tol:
                flip = float(np.max(np.abs(np.abs(inner) - np.abs(sub)))) / max(scale, 1e-300) <= tol
                self.bad(what + "_values", "%s differs from the fit of the pre-deleted data at the remaining labels: max|d|/scale = %.3e%s; got %s want %s"
                         % (what, e, " (moduli agree: sign)" if flip else "", np.round(inner.ravel()[:4], 6), np.round(sub.ravel()[:4], 6)))

    def vector(self, what, a, b, tol=TOL, scale=None):
        a = np.asarray(a, dtype=float).ravel()
        b = np.asarray(b, dtype=float).ravel()
        self.clauses.add(what)
        if a.shape != b.shape or not np.all(np.isfinite(a)):
            self.bad(what, "%s: got %s, want %s" % (what, a, b))
            return
        self.numeric = True
        s = scale if scale is not None else max(float(np.max(np.abs(b))), 1e-300)
        e = float(np.max(np.abs(a - b))) / s
        if not e <= tol:
            self.bad(what, "%s: got %s, want %s (rel. %.3e)" % (what, a[:4], b[:4], e))

    def result(self, outcome_ok="ok", **info):
        info.update(clauses=sorted(self.clauses), nan_labels=sorted(self.nan_labels))
        if self.skipped:
            info["skipped_clauses"] = self.skipped
        return dict(violations=self.V, outcome="violation" if self.V else outcome_ok, nontrivial=bool(self.numeric and not self.V), info=info)


def _same_failure_without_nans(call_clean, exc):
    """DESIGN 4.2: does the same call raise the same exception type on NaN-free data in the same container?"""
    try:
        call_clean()
    except Exception as e2:  # noqa: BLE001
        return type(e2) is type(exc)
    return False


def _is_nonconvergence(e):
    return isinstance(e, RuntimeError) and "did not converge" in str(e)


def _nonconvergence(e, fit_masked):
    """DESIGN 3.4: 'Rotation process did not converge' is a documented, data-dependent refusal. It is not this property's
    subject, but the masked data must then be refused in the same way as the pre-deleted data (same matrix)."""
    if not _is_nonconvergence(e):
        raise e
    try:
        fit_masked()
    except RuntimeError as e2:
        if _is_nonconvergence(e2):
            return dict(outcome="skipped:rotation_nonconvergence", nontrivial=False)
        raise
    return dict(violations=[viol("nonconvergence_differs", "rotator", "the rotation of the pre-deleted data does not converge but that of the masked data does")], outcome="violation", nontrivial=False)


# ----------------------------------------------------------------------------- single-set models


def _fit_single(model, data, k, standardize=False, center=True):
    import xeofs as xe

    base = xe.single.EOF(n_modes=k, center=center, standardize=standardize, use_coslat=False, solver="full", random_state=3)
    base.fit(data, dim="time")
    if model == "EOF":
        return base
    rot = xe.single.EOFRotator(n_modes=2, power=1)
    rot.fit(base)
    return rot


def _rank(nrem, prem):
    return min(nrem - 1, prem)


def _run_single_mask(case, seed):
    n, cont, model = case["n"], case["container"], case["model"]
    fm, sm = case["fmask"], case["smask"]
    std = bool(case.get("standardize", False))
    X = _base(n, seed)
    rows = [i for i in range(n) if i not in sm]
    cols = [j for j in range(P) if j not in fm]
    k = _rank(len(rows), len(cols))
    kq = k if model == "EOF" else 2
    modes = np.arange(1, kq + 1)
    t = _tlab(n)
    acc = _Acc(model, container=cont, fmask=bool(fm), smask=bool(sm))
    tol = TOL if model == "EOF" else TOL_ROT

    Xm = _apply(X, fm, sm)
    masked = _container(Xm, cont)
    plain = _plain(X, rows, cols)
    fl = plain["f"].values
    with warnings.catch_warnings():
        warnings.simplefilter("ignore")
        try:
            d = _fit_single(model, plain, k, std)
        except RuntimeError as e:
            return _nonconvergence(e, lambda: _fit_single(model, masked, k, std))
        m = _fit_single(model, masked, k, std)  # an exception here is a violation: the quantifier covers this input

        # (1) singular values / explained variance
        ev_m = np.asarray(m.explained_variance().sel(mode=modes).values)
        ev_d = np.asarray(d.explained_variance().sel(mode=modes).values)
        acc.vector("explained_variance", ev_m, ev_d, tol=tol)
        s1 = 1.0
        if model == "EOF":
            sv_m = np.asarray(m.singular_values().sel(mode=modes).values)
            sv_d = np.asarray(d.singular_values().sel(mode=modes).values)
            acc.vector("singular_values", sv_m, sv_d)
            s1 = float(max(sv_d[0], 1e-300))
            if not std:  # absolute anchor, numpy only
                sub = X[np.ix_(rows, cols)]
                sref = np.linalg.svd(sub - sub.mean(axis=0, keepdims=True), compute_uv=False)[:kq]
                acc.vector("singular_values_vs_numpy", sv_m, sref, scale=float(sref[0]))

        # (2) components: full feature labels, NaN exactly at the deleted ones
        try:
            Cm = _flat_features(m.components(), cont, "mode", modes)
            Cd = _flat_plain(d.components(), "f", fl, "mode", modes)
            acc.embedded("components", Cm, Cd, cols, tol=tol)
        except D.LabelError as e:
            acc.bad("components_labels", str(e))

        # (3) scores: full sample labels, NaN exactly at the deleted ones
        Sd = _scores_matrix(d.scores(), t[rows], modes)
        try:
            Sm = _scores_matrix(m.scores(), t, modes)
            acc.embedded("scores", Sm, Sd, rows, tol=tol, scale=s1)
        except D.LabelError as e:
            acc.bad("scores_labels", str(e))

        # (4) transform of the masked training data
        Td = _scores_matrix(d.transform(plain), t[rows], modes)
        try:
            Tm = _scores_matrix(m.transform(masked), t, modes, allow_omitted=t[sm] if sm else None)
            acc.embedded("transform", Tm, Td, rows, tol=tol, scale=s1)
        except D.LabelError as e:
            acc.bad("transform_labels", str(e))

        # (5) reconstruction from the model's own scores
        Rd = _flat_plain(d.inverse_transform(d.scores()), "f", fl, "time", t[rows]).T
        try:
            rec = m.inverse_transform(m.scores())
        except Exception as e:  # noqa: BLE001
            clean = _container(X, cont)

            def again():
                mc = _fit_single(model, clean, _rank(n, P), std)
                mc.inverse_transform(mc.scores())

            if (fm or sm) and _same_failure_without_nans(again, e):
                acc.skipped.append("reconstruction:" + type(e).__name__)
                rec = None
            elif not (fm or sm):
                acc.skipped.append("reconstruction:" + type(e).__name__)  # NaN-free input: not this property's call to judge
                rec = None
            else:
                raise
        if rec is not None:
            try:
                Rm = _flat_features(rec, cont, "time", t).T
                scale = float(np.max(np.abs(X)))
                acc.embedded("reconstruction", Rm, Rd, rows, cols, tol=tol, scale=scale)
                if model == "EOF":  # absolute anchor: all modes kept -> the input comes back at the remaining cells
                    inner = Rm[np.ix_(rows, cols)]
                    acc.clauses.add("reconstruction_vs_input")
                    if np.all(np.isfinite(inner)):
                        e = float(np.max(np.abs(inner - X[np.ix_(rows, cols)]))) / scale
                        if not e <= 1e-8:
                            acc.bad("reconstruction_vs_input", "full-rank reconstruction differs from the input at the remaining cells by %.3e (relative)" % e)
            except D.LabelError as e:
                acc.bad("reconstruction_labels", str(e))
    return acc.result(k=int(k))


def _grid_matrix(obj, lead, lead_labels, T2, M2, allow_omitted=False):
    """(T2*M2, len(lead_labels)) by label, rows in time-major order of the (time, member) grid."""
    tl, ml = _tlab(T2), np.arange(M2) + 1
    if allow_omitted:  # a time or member label all of whose samples are missing may be absent
        have = {d: set(np.asarray(obj[d].values).tolist()) for d in ("time", "member") if d in obj.dims}
        if len(have) == 2 and have["time"] <= set(tl.tolist()) and have["member"] <= set(ml.tolist()):
            obj = obj.reindex(time=tl, member=ml)
    return D.to_matrix(obj, ["time", "member"], [lead], {"time": tl, "member": ml, lead: lead_labels})


def _run_single_mask2(case, seed):
    """two sample dimensions: fully missing samples anywhere on the (time, member) grid."""
    import xarray as xr
    import xeofs as xe

    T2, M2 = case["grid"]
    n = T2 * M2
    fm, sm = case["fmask"], case["smask"]
    center, std = bool(case["center"]), bool(case["standardize"])
    X = _base(n, seed, salt=21)
    rows = [i for i in range(n) if i not in sm]
    cols = [j for j in range(P) if j not in fm]
    k = min(len(rows) - (1 if center else 0), len(cols))
    modes = np.arange(1, k + 1)
    per_member = [sum(1 for i in rows if i % M2 == mi) for mi in range(M2)]
    per_time = [sum(1 for i in rows if i // M2 == ti) for ti in range(T2)]
    acc = _Acc("EOF", container="da_2s", center=center, standardize=std, ragged=bool(len(set(per_member)) > 1 or len(set(per_time)) > 1))
    xl = np.arange(P) * 10
    Xm = _apply(X, fm, sm)
    masked = xr.DataArray(Xm.reshape(T2, M2, P), dims=("time", "member", "x"), coords={"time": _tlab(T2), "member": np.arange(M2) + 1, "x": xl}, name="field")
    plain = _plain(X, rows, cols)
    fl = plain["f"].values
    t = _tlab(n)
    kw = dict(n_modes=k, center=center, standardize=std, use_coslat=False, solver="full", random_state=3)
    with warnings.catch_warnings():
        warnings.simplefilter("ignore")
        d = xe.single.EOF(**kw).fit(plain, dim="time")
        m = xe.single.EOF(**kw).fit(masked, dim=("time", "member"))
        sv_m = np.asarray(m.singular_values().sel(mode=modes).values)
        sv_d = np.asarray(d.singular_values().sel(mode=modes).values)
        s1 = float(max(sv_d[0], 1e-300))
        acc.vector("singular_values", sv_m, sv_d)
        acc.vector("explained_variance", np.asarray(m.explained_variance().sel(mode=modes).values), np.asarray(d.explained_variance().sel(mode=modes).values))
        if not std:  # absolute anchor, numpy only
            sub = X[np.ix_(rows, cols)]
            sref = np.linalg.svd(sub - sub.mean(axis=0, keepdims=True) if center else sub, compute_uv=False)[:k]
            acc.vector("singular_values_vs_numpy", sv_m, sref, scale=float(sref[0]))
        try:
            Cm = D.to_matrix(m.components(), ["x"], ["mode"], {"x": xl, "mode": modes})
            acc.embedded("components", Cm, _flat_plain(d.components(), "f", fl, "mode", modes), cols)
        except D.LabelError as e:
            acc.bad("components_labels", str(e))
        Sd = _scores_matrix(d.scores(), t[rows], modes)
        try:
            acc.embedded("scores", _grid_matrix(m.scores(), "mode", modes, T2, M2), Sd, rows, scale=s1)
        except D.LabelError as e:
            acc.bad("scores_labels", str(e))
        Td = _scores_matrix(d.transform(plain), t[rows], modes)
        try:
            acc.embedded("transform", _grid_matrix(m.transform(masked), "mode", modes, T2, M2, allow_omitted=True), Td, rows, scale=s1)
        except D.LabelError as e:
            acc.bad("transform_labels", str(e))
        Rd = _flat_plain(d.inverse_transform(d.scores()), "f", fl, "time", t[rows]).T
        try:
            Rm = _grid_matrix(m.inverse_transform(m.scores()), "x", xl, T2, M2)
            scale = float(np.max(np.abs(X)))
            acc.embedded("reconstruction", Rm, Rd, rows, cols, scale=scale)
            inner = Rm[np.ix_(rows, cols)]
            acc.clauses.add("reconstruction_vs_input")
            if np.all(np.isfinite(inner)):  # all modes kept: the input comes back at the remaining cells
                e = float(np.max(np.abs(inner - X[np.ix_(rows, cols)]))) / scale
                if not e <= 1e-8:
                    acc.bad("reconstruction_vs_input", "full-rank reconstruction differs from the input at the remaining cells by %.3e (relative)" % e)
        except D.LabelError as e:
            acc.bad("reconstruction_labels", str(e))
    return acc.result(k=int(k), ragged=bool(acc.feats["ragged"] and acc.numeric))


def _applyc(X, fmask=(), smask=()):
    M = np.array(X, copy=True)
    M = M.astype(complex) if np.iscomplexobj(M) else M.astype(float)
    if len(smask):
        M[list(smask), :] = np.nan
    if len(fmask):
        M[:, list(fmask)] = np.nan
    return M


def _polar(name, A):
    """phases are compared on the unit circle (a phase of +pi and one of -pi are the same angle)."""
    return np.exp(1j * np.asarray(A)) if name.endswith("phase") else np.asarray(A)


def _emb_modes(acc, what, full, sub, keep_r, good, tol, keep_c=None):
    """`embedded` with the numeric comparison restricted to the well-separated modes (columns); the placement of NaN
    is judged on every column."""
    good = np.asarray(good, bool)
    if good.all() or keep_c is not None:
        acc.embedded(what, full, sub, keep_r, keep_c, tol=tol, scale=max(float(np.nanmax(np.abs(sub))) if sub.size else 1.0, 1e-300))
        return
    full = np.array(full, copy=True)
    inner = full[list(keep_r)]
    fin = np.isfinite(inner[:, ~good]).all(axis=0) if inner.size else np.zeros(0, bool)
    sub = np.array(sub, copy=True).astype(full.dtype)
    sub[:, np.flatnonzero(~good)[fin]] = inner[:, np.flatnonzero(~good)[fin]]  # values of degenerate modes are not compared
    acc.embedded(what, full, sub, keep_r, None, tol=tol, scale=max(float(np.nanmax(np.abs(sub))) if sub.size else 1.0, 1e-300))


SINGLE_ACC = ("components", "components_amplitude", "components_phase", "scores", "scores_amplitude", "scores_phase")
CROSS_ACC = ("components", "components_amplitude", "components_phase", "scores", "scores_amplitude", "scores_phase", "homogeneous_patterns", "heterogeneous_patterns")


def _fit_complex_single(model, data, dim, k):
    import xeofs as xe

    bname = model.replace("Rotator", "")
    base = getattr(xe.single, bname)(n_modes=k, standardize=False, use_coslat=False, solver="full", random_state=3)
    base.fit(data, dim=dim)
    if bname == model:
        return base
    rot = getattr(xe.single, model)(n_modes=k, power=1)
    rot.fit(base)
    return rot


def _good_modes(sv):
    """modes whose singular value is separated from its neighbours and from zero (vectors are then well defined)."""
    sv = np.asarray(sv, float)
    s1 = max(sv[0], 1e-300)
    good = sv > 1e-6 * s1
    for i in range(len(sv) - 1):
        if (sv[i] - sv[i + 1]) / s1 < 1e-4:
            good[i] = good[i + 1] = False
    return good


def _run_accessors(case, seed):
    if case["container"] == "da":
        return _run_accessors_cross(case, seed)
    import xarray as xr

    model, cont, n = case["model"], case["container"], case["n"]
    fm, sm = case["fmask"], case["smask"]
    cplx = model.startswith("Complex")
    rot = model.endswith("Rotator")
    X = D.make_matrix(n, P, "geometric", 1.0, cplx, seed, salt=31)
    rows = [i for i in range(n) if i not in sm]
    cols = [j for j in range(P) if j not in fm]
    k = 2
    modes = np.arange(1, k + 1)
    t = _tlab(n)
    acc = _Acc(model, container=cont, fmask=bool(fm), smask=bool(sm))
    tol = TOL_ROT if rot else 1e-8
    Xm = _applyc(X, fm, sm)
    xl = np.arange(P) * 10
    if cont == "da2":
        masked, dim = _container(Xm, "da2"), "time"
    else:
        T2, M2 = 3, 2
        masked = xr.DataArray(Xm.reshape(T2, M2, P), dims=("time", "member", "x"), coords={"time": _tlab(T2), "member": np.arange(M2) + 1, "x": xl}, name="field")
        dim = ("time", "member")
    plain = _plain(X, rows, cols)
    fl = plain["f"].values

    def feat(obj):
        return _flat_features(obj, "da2", "mode", modes) if cont == "da2" else D.to_matrix(obj, ["x"], ["mode"], {"x": xl, "mode": modes})

    def samp(obj):
        return _scores_matrix(obj, t, modes) if cont == "da2" else _grid_matrix(obj, "mode", modes, 3, 2)

    with warnings.catch_warnings():
        warnings.simplefilter("ignore")
        try:
            d = _fit_complex_single(model, plain, "time", k)
        except RuntimeError as e:
            return _nonconvergence(e, lambda: _fit_complex_single(model, masked, dim, k))
        m = _fit_complex_single(model, masked, dim, k)
        ev_d = np.asarray(d.explained_variance().sel(mode=modes).values, float)
        acc.vector("explained_variance", np.asarray(m.explained_variance().sel(mode=modes).values, float), ev_d, tol=tol)
        good = np.ones(k, bool) if rot else _good_modes(np.sqrt(np.clip(ev_d, 0, None)))
        for name in SINGLE_ACC:
            on_features = name.startswith("components")
            try:
                om, od = getattr(m, name)(), getattr(d, name)()
                if on_features:
                    A, B, keep = feat(om), _flat_plain(od, "f", fl, "mode", modes), cols
                else:
                    A, B, keep = samp(om), _scores_matrix(od, t[rows], modes), rows
                _emb_modes(acc, name, _polar(name, A), _polar(name, B), keep, good, 1e-6 if name.endswith("phase") else tol)
            except D.LabelError as e:
                acc.bad(name + "_labels", str(e), accessor=name)
    return acc.result(accessors=True)


def _run_accessors_cross(case, seed):
    n, model = case["n"], case["model"]
    sm, fx, fy = case["smask"], case["fmx"], case["fmy"]
    cplx = model.startswith("Complex")
    analytic = cplx or model.startswith("Hilbert")
    X = D.make_matrix(n, 3, "geometric", 1.0, cplx, seed, salt=41)
    Y = D.make_matrix(n, 3, "geometric", 1.0, cplx, seed, salt=42)
    rows = [i for i in range(n) if i not in sm]
    cx = [j for j in range(3) if j not in fx]
    cy = [j for j in range(3) if j not in fy]
    k = 2
    modes = np.arange(1, k + 1)
    t = _tlab(n)
    rot = model in CROSS_BASE
    tol = TOL_ROT if rot else 1e-8
    acc = _Acc(model, container="da", fmask=bool(fx or fy), smask=bool(sm))
    dx, dy = _cross_da(_applyc(X, fx, sm), "X"), _cross_da(_applyc(Y, fy, sm), "Y")
    px, py = _cross_plain(X, rows, cx, "X"), _cross_plain(Y, rows, cy, "Y")
    with warnings.catch_warnings():
        warnings.simplefilter("ignore")
        try:
            d = _fit_cross(model, px, py, k)
        except RuntimeError as e:
            return _nonconvergence(e, lambda: _fit_cross(model, dx, dy, k))
        m = _fit_cross(model, dx, dy, k)
        sv_d = _cross_sv(d, model, modes)
        acc.vector("singular_values", _cross_sv(m, model, modes), sv_d, tol=tol)
        good = np.ones(k, bool) if rot else _good_modes(sv_d)
        for name in CROSS_ACC:
            if not analytic and name.endswith(("amplitude", "phase")):
                continue
            on_features = not name.startswith("scores")
            try:
                if name.endswith("patterns"):
                    (a1, a2), (q1, q2) = getattr(m, name)(correction=None)
                    (b1, b2), (r1, r2) = getattr(d, name)(correction=None)
                    pairs = [(name + "_X", a1, b1, "X"), (name + "_Y", a2, b2, "Y"), (name + "_pvalues_X", q1, r1, "X"), (name + "_pvalues_Y", q2, r2, "Y")]
                else:
                    a1, a2 = getattr(m, name)()
                    b1, b2 = getattr(d, name)()
                    pairs = [(name + "_X", a1, b1, "X"), (name + "_Y", a2, b2, "Y")]
                for what, om, od, fld in pairs:
                    if on_features:
                        dm, dd, lab, keep = ("x", "fx", dx.x.values, cx) if fld == "X" else ("y", "fy", dy.y.values, cy)
                        A = D.to_matrix(om, [dm], ["mode"], {dm: lab, "mode": modes})
                        B = D.to_matrix(od, [dd], ["mode"], {dd: od[dd].values, "mode": modes})
                    else:
                        A, B, keep = _scores_matrix(om, t, modes), _scores_matrix(od, t[rows], modes), rows
                    loose = name.endswith("phase") or "pvalues" in what
                    _emb_modes(acc, what, _polar(name, A), _polar(name, B), keep, good, 1e-6 if loose else max(tol, 1e-7 if name.endswith("patterns") else 0))
            except D.LabelError as e:
                acc.bad(name + "_labels", str(e), accessor=name)
    return acc.result(accessors=True)


def _run_single_listitem(case, seed):
    """the two list items miss samples at different positions: refuse, or treat the union as deleted."""
    n, model, stage = case["n"], case["model"], case["stage"]
    s0, s1 = case["smask0"], case["smask1"]
    X = _base(n, seed)
    union = sorted(set(s0) | set(s1))
    rows = [i for i in range(n) if i not in union]
    cols = list(range(P))
    k = _rank(len(rows), P)
    modes = np.arange(1, (k if model == "EOF" else 2) + 1)
    t = _tlab(n)
    tol = TOL if model == "EOF" else TOL_ROT
    acc = _Acc(model, container="list", stage=stage)
    Xm = X.copy()
    Xm[list(s0), :2] = np.nan
    Xm[list(s1), 2:] = np.nan
    masked = _container(Xm, "list")
    with warnings.catch_warnings():
        warnings.simplefilter("ignore")
        if stage == "fit":
            try:
                m = _fit_single(model, masked, k)
                sc = m.scores()
            except Exception as e:  # noqa: BLE001
                return dict(outcome="rejected_partial_sample:" + type(e).__name__, nontrivial=False, info=dict(stage=stage))
            d = _fit_single(model, _plain(X, rows, cols), k)
            Sd = _scores_matrix(d.scores(), t[rows], modes)
            try:
                Sm = _scores_matrix(sc, t, modes)
                acc.embedded("partial_sample_scores", Sm, Sd, rows, tol=tol, scale=float(np.max(np.abs(Sd))))
                Cm = _flat_features(m.components(), "list", "mode", modes)
                Cd = _flat_plain(d.components(), "f", d.components()["f"].values, "mode", modes)
                acc.embedded("partial_sample_components", Cm, Cd, cols, tol=tol)
            except D.LabelError as e:
                acc.bad("partial_sample_labels", str(e))
            return acc.result("ok_treated_as_deleted")
        # transform: model trained on the clean data
        m = _fit_single(model, _container(X, "list"), _rank(n, P))
        kq = _rank(n, P) if model == "EOF" else 2
        try:
            tr = m.transform(masked)
        except Exception as e:  # noqa: BLE001
            return dict(outcome="rejected_partial_sample:" + type(e).__name__, nontrivial=False, info=dict(stage=stage))
        ref = _scores_matrix(m.transform(_container(X, "list")), t, np.arange(1, kq + 1))
        try:
            Tm = _scores_matrix(tr.sel(mode=np.arange(1, kq + 1)), t, np.arange(1, kq + 1), allow_omitted=t[union])
            acc.embedded("partial_sample_transform", Tm, ref[rows], rows, tol=tol, scale=float(np.max(np.abs(ref))))
        except D.LabelError as e:
            acc.bad("partial_sample_labels", str(e))
    return acc.result("ok_treated_as_deleted")


def _iso_mask(case, n, p=P):
    """(training mask parts, cells) of an isolated pattern: returns fmask, smask, cells."""
    pat, i, j = case["pattern"], case["i"], case["j"]
    if pat == "cell":
        return [], [], [(i, j)]
    if pat == "rowm":
        return [], [], [(i, c) for c in range(p) if c != j]
    if pat == "colm":
        return [], [], [(r, j) for r in range(n) if r != i]
    if pat == "diag":
        return [], [], [(r, (r + i) % p) for r in range(n)]
    if pat == "cell+f":
        return [(j + 1) % p], [], [(i, j)]
    if pat == "cell+s":
        return [], [(i + 1) % n], [(i, j)]
    raise ValueError(pat)


def _finite_count(obj):
    import xarray as xr

    if isinstance(obj, (list, tuple)):
        return sum(_finite_count(o) for o in obj)
    if isinstance(obj, xr.Dataset):
        return sum(_finite_count(obj[v]) for v in obj.data_vars)
    return int(np.isfinite(np.asarray(obj.values, dtype=complex)).sum())


def _item_rows_missing(M):
    """list container: rows that are entirely NaN in one item but not in the other (a sample missing in one item only),
    provided every NaN of the mask is explained by fully missing features, fully missing samples and such item rows."""
    isn = np.isnan(M)
    fcol = isn.all(axis=0)
    rows = []
    explained = np.repeat(fcol[None, :], M.shape[0], axis=0) | isn.all(axis=1)[:, None]
    for i in range(M.shape[0]):
        a, b = isn[i, :2].all(), isn[i, 2:].all()
        if a != b:
            rows.append(i)
            explained[i, :2] |= a
            explained[i, 2:] |= b
    return rows if rows and not (isn & ~explained).any() else []


def _partial_sample_verdict(case, model, X, fm, sm, Mbad, stage, obj):
    """A list input in which the NaNs blank one item's whole sample: the lenient reading of `single_listitem` applies."""
    n = X.shape[0]
    t = _tlab(n)
    part = _item_rows_missing(Mbad)
    gone = sorted(set(sm) | set(part))
    rows = [i for i in range(n) if i not in gone]
    cols = [j for j in range(P) if j not in fm]
    modes = np.arange(1, 3)
    acc = _Acc(model, container="list", stage=stage)
    tol = TOL if model == "EOF" else TOL_ROT
    try:
        if stage == "fit":
            d = _fit_single(model, _plain(X, rows, cols), 2)
            Sd = _scores_matrix(d.scores(), t[rows], modes)
            acc.embedded("partial_sample_scores", _scores_matrix(obj.scores(), t, modes), Sd, rows, tol=tol, scale=float(np.max(np.abs(Sd))))
        else:
            keep0 = [i for i in range(n) if i not in sm]
            ref = _scores_matrix(obj.transform(_container(_apply(X, fm, sm), "list")), t, modes, allow_omitted=t[sm] if sm else None)
            tr = obj.transform(_container(Mbad, "list"))
            acc.embedded("partial_sample_transform", _scores_matrix(tr, t, modes, allow_omitted=t[gone]), ref[rows], rows, tol=tol, scale=float(np.nanmax(np.abs(ref[keep0]))))
    except D.LabelError as e:
        acc.bad("partial_sample_labels", str(e))
    return acc.result("ok_treated_as_deleted")


def _run_isolated(case, seed):
    n, cont, model, stage = case["n"], case["container"], case["model"], case["stage"]
    X = _base(n, seed)
    fm, sm, cells = _iso_mask(case, n)
    Mbad = _apply(X, fm, sm, cells)
    bad_data = _container(Mbad, cont)
    lenient = cont == "list" and bool(_item_rows_missing(Mbad))
    V = []
    with warnings.catch_warnings():
        warnings.simplefilter("ignore")
        if stage == "fit":
            try:
                m = _fit_single(model, bad_data, 2)
            except Exception as e:  # noqa: BLE001
                return dict(outcome="rejected:" + type(e).__name__, nontrivial=False, info=dict(stage=stage))
            if lenient:
                return _partial_sample_verdict(case, model, X, fm, sm, Mbad, stage, m)
            nfin = _finite_count(m.components()) + _finite_count(m.scores())
            V.append(viol("isolated_nan_accepted", model, "fit accepted data with an isolated NaN (%s at %d,%d); results hold %d finite values" % (case["pattern"], case["i"], case["j"], nfin),
                          stage="fit", container=cont, pattern=case["pattern"]))
        else:
            train = _container(_apply(X, fm, sm), cont)
            m = _fit_single(model, train, 2)
            try:
                tr = m.transform(bad_data)
            except Exception as e:  # noqa: BLE001
                return dict(outcome="rejected:" + type(e).__name__, nontrivial=False, info=dict(stage=stage))
            if lenient:
                return _partial_sample_verdict(case, model, X, fm, sm, Mbad, stage, m)
            V.append(viol("isolated_nan_accepted", model, "transform accepted data with an isolated NaN (%s at %d,%d); %d finite scores returned, %d NaN"
                          % (case["pattern"], case["i"], case["j"], _finite_count(tr), int(tr.size) - _finite_count(tr)),
                          stage="transform", container=cont, pattern=case["pattern"]))
    return dict(violations=V, outcome="violation", nontrivial=False)


def _run_transform_mismatch(case, seed):
    n, cont, model = case["n"], case["container"], case["model"]
    X = _base(n, seed)
    fm = list(case["fmask"])
    flip = list(case["flip"])
    center = bool(case.get("center", True))
    fm2 = sorted(set(fm) ^ set(flip))
    direction = "swapped" if len(flip) == 2 else ("more_missing" if flip[0] not in fm else "fewer_missing")
    with warnings.catch_warnings():
        warnings.simplefilter("ignore")
        m = _fit_single(model, _container(_apply(X, fm), cont), 2, center=center)
        good = _container(_apply(X, fm), cont)
        before = m.transform(good)
        try:
            tr = m.transform(_container(_apply(X, fm2), cont))
        except Exception as e:  # noqa: BLE001
            # a refusal must be repeatable and must leave the fitted model as it was: the same data again is refused again, and
            # data with the training data's own gaps is still transformed, to the same scores as before the refused call
            V = []
            try:
                tr2 = m.transform(_container(_apply(X, fm2), cont))
                V.append(viol("mismatch_accepted_on_retry", model, "transform refused data whose fully missing features %s differ from the training data's %s (%s), "
                              "but accepted the very same data on the next call; %d finite scores returned" % (fm2, fm, type(e).__name__, _finite_count(tr2)), container=cont, direction=direction, center=center))
            except Exception:  # noqa: BLE001
                pass
            try:
                after = m.transform(good)
                d = float(np.nanmax(np.abs(np.asarray(after.values) - np.asarray(before.values)))) if after.shape == before.shape else float("inf")
                if not d <= 1e-12:
                    V.append(viol("refusal_changed_model", model, "after a refused transform, transform of data with the training data's own gaps differs from before by %.3e" % d, container=cont, direction=direction, center=center))
            except Exception as e2:  # noqa: BLE001
                V.append(viol("refusal_changed_model", model, "after a refused transform, data with the training data's own gaps is refused too: %s: %s" % (type(e2).__name__, str(e2)[:150]), container=cont, direction=direction, center=center))
            if V:
                return dict(violations=V, outcome="violation", nontrivial=False)
            return dict(outcome="rejected:" + type(e).__name__, nontrivial=False, info=dict(stage="transform"))
    v = viol("feature_mask_mismatch_accepted", model, "transform accepted data whose fully missing features %s differ from the training data's %s; %d finite scores returned"
             % (fm2, fm, _finite_count(tr)), container=cont, direction=direction, center=center)
    return dict(violations=[v], outcome="violation", nontrivial=False)


# ----------------------------------------------------------------------------- cross-set models


def _cross_data(n, seed):
    return _base(n, seed, salt=11, p=3), _base(n, seed, salt=12, p=3)


def _cross_da(M, which):
    import xarray as xr

    n = M.shape[0]
    dim = "x" if which == "X" else "y"
    lab = np.arange(M.shape[1]) * 10 if which == "X" else np.arange(M.shape[1]) * 5 + 100
    return xr.DataArray(M, dims=("time", dim), coords={"time": _tlab(n), dim: lab}, name="left" if which == "X" else "right")


def _cross_plain(M, rows, cols, which):
    import xarray as xr

    dim = "fx" if which == "X" else "fy"
    return xr.DataArray(M[np.ix_(rows, cols)], dims=("time", dim), coords={"time": _tlab(M.shape[0])[rows], dim: np.asarray(cols) * 7 + 1}, name=which)


CROSS_BASE = {"MCARotator": "MCA", "CPCCARotator": "CPCCA", "ComplexMCARotator": "ComplexMCA", "HilbertMCARotator": "HilbertMCA"}


def _fit_cross(model, dx, dy, k, pca=None):
    """`pca`: None -> use_pca=False; "all" or an int -> use_pca=True with that many PCs in both fields."""
    import xeofs as xe

    kw = dict(n_modes=k, standardize=False, use_coslat=False, use_pca=pca is not None, solver="full", random_state=3)
    if pca is not None:
        kw["n_pca_modes"] = pca
    bname = CROSS_BASE.get(model, model)
    if bname == "CPCCA":
        base = xe.cross.CPCCA(alpha=0.5, **kw)
    else:
        base = getattr(xe.cross, bname)(**kw)  # MCA, CCA, RDA
    base.fit(dx, dy, dim="time")
    if model not in CROSS_BASE:
        return base
    rot = getattr(xe.cross, model)(n_modes=k, power=1)
    rot.fit(base)
    return rot


def _cross_sv(m, model, modes):
    name = "squared_covariance" if model in CROSS_BASE else "singular_values"
    return np.asarray(m.data[name].sel(mode=modes).values, dtype=float)


def _run_cross_mask(case, seed):
    n, model = case["n"], case["model"]
    sx, sy, fx, fy = case["smx"], case["smy"], case["fmx"], case["fmy"]
    X, Y = _cross_data(n, seed)
    union = sorted(set(sx) | set(sy))
    rows = [i for i in range(n) if i not in union]
    cx = [j for j in range(3) if j not in fx]
    cy = [j for j in range(3) if j not in fy]
    k = min(2, len(cx), len(cy))
    modes = np.arange(1, k + 1)
    t = _tlab(n)
    aligned = sx == sy
    pca = case.get("pca")
    tol = TOL_ROT if model in CROSS_BASE else 1e-8
    feats = dict(aligned=aligned)
    if pca is not None:
        feats["use_pca"] = True
    if not aligned:
        feats["same_count"] = len(sx) == len(sy)
    if fx or fy:
        feats["fmask"] = True
    acc = _Acc(model, **feats)
    dx = _cross_da(_apply(X, fx, sx), "X")
    dy = _cross_da(_apply(Y, fy, sy), "Y")
    with warnings.catch_warnings():
        warnings.simplefilter("ignore")
        d = None
        try:
            d = _fit_cross(model, _cross_plain(X, rows, cx, "X"), _cross_plain(Y, rows, cy, "Y"), k, pca)
        except RuntimeError as e:
            if aligned:
                return _nonconvergence(e, lambda: _fit_cross(model, dx, dy, k, pca))
            if not _is_nonconvergence(e):
                raise
        try:
            m = _fit_cross(model, dx, dy, k, pca)
        except Exception as e:  # noqa: BLE001
            if aligned:
                raise  # fully missing samples at the same positions: the quantifier demands a result
            return dict(outcome="rejected_misaligned:" + type(e).__name__, nontrivial=False, info=dict(same_count=len(sx) == len(sy)))
        if d is None:
            return dict(outcome="skipped:rotation_nonconvergence", nontrivial=False)

        what = "singular_values" if aligned else "misaligned_singular_values"
        sv_d = _cross_sv(d, model, modes)
        acc.vector(what, _cross_sv(m, model, modes), sv_d, tol=tol)
        if acc.V and not aligned:
            # numbers from some other alignment of the two fields: say which one, if it is the position-wise one
            kx = [i for i in range(n) if i not in sx]
            ky = [i for i in range(n) if i not in sy]
            if len(kx) == len(ky):
                import xarray as xr

                px = xr.DataArray(X[np.ix_(kx, cx)], dims=("time", "fx"), coords={"time": np.arange(len(kx)), "fx": np.arange(len(cx))})
                py = xr.DataArray(Y[np.ix_(ky, cy)], dims=("time", "fy"), coords={"time": np.arange(len(ky)), "fy": np.arange(len(cy))})
                sv_p = _cross_sv(_fit_cross(model, px, py, k, pca), model, modes)
                if np.max(np.abs(_cross_sv(m, model, modes) - sv_p)) <= 1e-7 * max(sv_p[0], 1e-300):
                    acc.V[-1]["msg"] += " -- equals the fit that pairs row i of compacted X with row i of compacted Y (X rows %s with Y rows %s)" % (kx, ky)
                    acc.V[-1]["features"]["alignment"] = "positionwise_after_compaction"
            return acc.result()

        s1m, s2m = m.scores()
        s1d, s2d = d.scores()
        c1m, c2m = m.components()
        c1d, c2d = d.components()
        sc_scale = float(max(np.max(np.abs(s1d.values)), np.max(np.abs(s2d.values))))
        pre = "" if aligned else "misaligned_"
        try:
            S1m, S2m = _scores_matrix(s1m, t, modes), _scores_matrix(s2m, t, modes)
            S1d, S2d = _scores_matrix(s1d, t[rows], modes), _scores_matrix(s2d, t[rows], modes)
            if aligned:
                acc.embedded("scores_X", S1m, S1d, rows, tol=tol, scale=sc_scale)
                acc.embedded("scores_Y", S2m, S2d, rows, tol=tol, scale=sc_scale)
            else:
                # labels missing in the other field only are not judged; own missing labels must be NaN
                for nm, Sm, Sd, own in (("X", S1m, S1d, sx), ("Y", S2m, S2d, sy)):
                    judged = [i for i in range(n) if i in rows or i in own]
                    acc.embedded(pre + "scores_" + nm, Sm[judged], Sd, [judged.index(i) for i in rows], tol=tol, scale=sc_scale)
            C1m = D.to_matrix(c1m, ["x"], ["mode"], {"x": dx.x.values, "mode": modes})
            C2m = D.to_matrix(c2m, ["y"], ["mode"], {"y": dy.y.values, "mode": modes})
            C1d = D.to_matrix(c1d, ["fx"], ["mode"], {"fx": c1d.fx.values, "mode": modes})
            C2d = D.to_matrix(c2d, ["fy"], ["mode"], {"fy": c2d.fy.values, "mode": modes})
            acc.embedded(pre + "components_X", C1m, C1d, cx, tol=tol)
            acc.embedded(pre + "components_Y", C2m, C2d, cy, tol=tol)
        except D.LabelError as e:
            acc.bad(pre + "labels", str(e))
        if not aligned:
            return acc.result("ok_treated_as_deleted")

        # transform of the masked training data (either field), omitted or NaN at the missing samples
        try:
            t1m, t2m = m.transform(X=dx, Y=dy)
            t1d, t2d = d.transform(X=_cross_plain(X, rows, cx, "X"), Y=_cross_plain(Y, rows, cy, "Y"))
            om = t[union] if union else None
            acc.embedded("transform_X", _scores_matrix(t1m, t, modes, om), _scores_matrix(t1d, t[rows], modes), rows, tol=tol, scale=sc_scale)
            acc.embedded("transform_Y", _scores_matrix(t2m, t, modes, om), _scores_matrix(t2d, t[rows], modes), rows, tol=tol, scale=sc_scale)
        except D.LabelError as e:
            acc.bad("transform_labels", str(e))
        # reconstruction of both fields from the model's own scores
        try:
            r1m, r2m = m.inverse_transform(X=s1m, Y=s2m)
            r1d, r2d = d.inverse_transform(X=s1d, Y=s2d)
            R1m = D.to_matrix(r1m, ["time"], ["x"], {"time": t, "x": dx.x.values})
            R2m = D.to_matrix(r2m, ["time"], ["y"], {"time": t, "y": dy.y.values})
            R1d = D.to_matrix(r1d, ["time"], ["fx"], {"time": t[rows], "fx": c1d.fx.values})
            R2d = D.to_matrix(r2d, ["time"], ["fy"], {"time": t[rows], "fy": c2d.fy.values})
            acc.embedded("reconstruction_X", R1m, R1d, rows, cx, tol=tol, scale=float(np.max(np.abs(X))))
            acc.embedded("reconstruction_Y", R2m, R2d, rows, cy, tol=tol, scale=float(np.max(np.abs(Y))))
        except D.LabelError as e:
            acc.bad("reconstruction_labels", str(e))
    return acc.result(use_pca=pca is not None)


def _run_cross_isolated(case, seed):
    n, stage, field, i, j = case["n"], case["stage"], case["field"], case["i"], case["j"]
    X, Y = _cross_data(n, seed)
    Xb = _apply(X, cells=[(i, j)]) if field == "X" else X
    Yb = _apply(Y, cells=[(i, j)]) if field == "Y" else Y
    with warnings.catch_warnings():
        warnings.simplefilter("ignore")
        try:
            if stage == "fit":
                m = _fit_cross("MCA", _cross_da(Xb, "X"), _cross_da(Yb, "Y"), 2)
                res = m.scores()
            else:
                m = _fit_cross("MCA", _cross_da(X, "X"), _cross_da(Y, "Y"), 2)
                res = m.transform(X=_cross_da(Xb, "X")) if field == "X" else m.transform(Y=_cross_da(Yb, "Y"))
        except Exception as e:  # noqa: BLE001
            return dict(outcome="rejected:" + type(e).__name__, nontrivial=False, info=dict(stage=stage))
    v = viol("isolated_nan_accepted", "MCA", "%s accepted field %s with an isolated NaN at (%d,%d); %d finite values returned" % (stage, field, i, j, _finite_count(res)),
             stage=stage, container="da", pattern="cell", field=field)
    return dict(violations=[v], outcome="violation", nontrivial=False)


# ----------------------------------------------------------------------------- dispatch


_RUN = {
    "single_mask": _run_single_mask,
    "single_mask2": _run_single_mask2,
    "accessors": _run_accessors,
    "single_listitem": _run_single_listitem,
    "isolated": _run_isolated,
    "transform_mismatch": _run_transform_mismatch,
    "cross_mask": _run_cross_mask,
    "cross_isolated": _run_cross_isolated,
}


def run_case(case, seed):
    r = _RUN[case["kind"]](case, seed)
    r.setdefault("info", {})
    r["info"]["kind"] = case["kind"]
    return r


def finalize(cases_, results, tier, seed):
    from collections import Counter

    by_kind = Counter()
    skipped = Counter()
    for c, r in zip(cases_, results):
        by_kind["%s:%s" % (c["kind"], r["outcome"].split(":")[0])] += 1
        for s in (r.get("info") or {}).get("skipped_clauses", []):
            skipped["%s/%s/%s" % (c["model"], c["container"], s)] += 1
    return [], dict(outcomes_by_kind=dict(by_kind), clauses_skipped_same_failure_without_nans=dict(skipped))


def vacuity(outcomes, results, tier):
    acc = sum(n for o, n in outcomes.items() if o.startswith("ok"))
    rej = sum(n for o, n in outcomes.items() if o.startswith("rejected"))
    if not acc:
        return "no fit was accepted"
    if not rej and not any(o == "violation" for o in outcomes):
        return "no fit or transform was rejected"
    seen_nan = set()
    clauses = set()
    kinds = {}
    for r in results:
        info = r.get("info") or {}
        seen_nan |= set(info.get("nan_labels", []))
        clauses |= set(info.get("clauses", []))
        kinds.setdefault(info.get("kind"), set()).add(r["outcome"].split(":")[0])
    need = {"components", "scores", "transform", "reconstruction", "scores_X", "components_X", "components_Y", "reconstruction_X"}
    if not need <= seen_nan and not any(o == "violation" for o in outcomes):
        return "NaN placement never evaluated for: %s" % sorted(need - seen_nan)
    any_viol = any(o == "violation" for o in outcomes)
    pca_rec = any((r.get("info") or {}).get("use_pca") and "reconstruction_X" in (r.get("info") or {}).get("nan_labels", []) for r in results)
    if not pca_rec and not any_viol:
        return "no cross-set model with the PCA step had its reconstruction checked at deleted samples"
    if not any((r.get("info") or {}).get("ragged") for r in results) and not any_viol:
        return "no two-sample-dimension input with unevenly spread missing samples was compared"
    acc_nan = set()
    for r in results:
        if (r.get("info") or {}).get("accessors"):
            acc_nan |= set(r["info"].get("nan_labels", []))
    need_acc = {"scores_phase", "scores_amplitude", "components_phase", "components_amplitude", "scores_phase_X", "components_amplitude_Y", "homogeneous_patterns_X", "heterogeneous_patterns_Y"}
    if not need_acc <= acc_nan and not any_viol:
        return "accessors never checked at deleted labels: %s" % sorted(need_acc - acc_nan)
    for kd in _RUN:
        if kd not in kinds:
            return "case family %s is empty" % kd
    if not ({"rejected_misaligned", "ok_treated_as_deleted", "violation"} & kinds.get("cross_mask", set())):
        return "no cross-set case with fields missing samples at different positions was observed"
    return None
