"""C04 — transform of the training data reproduces the model's scores. Explorer P (+ provenance).

Every transform-capable class is fitted by the real xeofs code on every element of a finite alphabet (three stated
sub-products: structure sweep, configuration sweep, provenance sweep) and the relation the property states is evaluated
between two answers of the *same* fitted object:

        model.transform(X_fit[, Y_fit], normalized=b)   vs   model.scores(normalized=b)          b in {False, True}

under label-keyed comparison (DESIGN 4.2): same dimension set, mode labels 1..k in both, every sample label of the input
that is not entirely missing present in both answers with finite and equal values (4.3), entirely missing samples absent
or all-NaN in the transform, no label the input does not have. Cross-set models are asked in three call forms
(X and Y together, X alone, Y alone). Nothing of xeofs' projection formula is re-implemented: the oracle is a relation
between runs of the real code, which is exactly the property's `observe_at`.
"""

from __future__ import annotations

import os
import traceback
import warnings

import numpy as np

from .. import data as D
from ..core import viol

ID = "C04"
LEVEL = "exploration"
TECHNIQUE = (
    "bounded exhaustive enumeration (model class x configuration x input structure x missing-value mask x provenance) of real fits; "
    "on each, transform(training data) is compared label by label with scores() of the same object"
)
RULE = (
    "union of four complete products over the 19 transform-capable classes (EOF, ComplexEOF, SparsePCA, POP, EOFRotator, ComplexEOFRotator; "
    "CPCCA, MCA, CCA, RDA and Complex*; CPCCARotator, MCARotator, ComplexCPCCARotator, ComplexMCARotator; multi.CCA). "
    "(S) structure sweep, one pinned configuration per class: container {DataArray, Dataset, list} x sample dims {1, 2} x sample labels {ascending, unsorted} "
    "x mask {none, one sample all-NaN, one feature all-NaN, both} x preprocessing {default, center off (single-set), standardize+weights(+coslat) (single- and cross-set), weights alone} "
    "(quick: ascending labels except two plain cases; masks {none, sample, both} (+feature on the plain DataArray); center-off and standardize+weights on unmasked one-sample-dim inputs; "
    "rotators container x mask {none, sample} (+ two sample dims with a missing sample on the DataArray); classes that only fix alpha or are the complex twin of a primary class "
    "(CCA, RDA, ComplexMCA/CCA/RDA, the three Complex rotators): container x mask {none, sample} on one sample dim). "
    "(K) configuration sweep on the plain structure: single-set n_modes 1..5 x spectrum x solver; SparsePCA alpha x n_modes; POP n_pca_modes x n_modes; "
    "rotators k in 2..4 x power 1..3 x spectrum {geometric, near_equal_var}; CPCCA alpha in {0,.25,.5,1}^2 x PCA {off, 3, all} x n_modes; named classes x PCA; "
    "cross rotators alpha^2 x PCA x k x power x spectrum (quick: alpha in {0,.5,1}^2 x PCA {off,3} at k=3, power 2, plus power {1,3} on three whitening pairs); multi.CCA views {2,3} x pca x c x n_modes. "
    "(P) provenance sweep: {refitted on the same object after a fit on other data, dask input + compute=False then compute(), serialize->deserialize, "
    "rotator_reused = the judged rotator object first rotated another model fitted on other data and answered one transform, "
    "model_reused = fit(other data); transform(other data); fit(judged data) on one object, "
    "after_rotator = the judged unrotated model (the six classes that have a rotator) was handed to rotator.fit before being asked, "
    "computed = compute() called on the eagerly fitted object} x preprocessing {default, weights} x class x container (quick: DataArray, no mask; weights with deferred / deserialized / computed). "
    "(L) X/Y-label sweep, every cross-set class incl. rotators: Y's sample labels lagged by 100 (same count, labels disjoint from X's) x sample structure "
    "{one plain dim, two sample dims, pandas MultiIndex on the single sample dim} x mask {none, sample} x container (quick: DataArray; all 12 classes on the two "
    "bookkeeping structures, primary classes also on the plain dim, primary non-rotators with a missing sample on two dims). "
    "The structure sweep also takes the MultiIndex sample dim (ascending labels, default preprocessing; quick: primary classes, DataArray, mask {none, sample}). "
    "Within every case: normalized in {False, True} and, for cross-set classes, call form in {X and Y, X only, Y only}. "
    "A case is non-trivial when both answers were returned, contain finite non-zero numbers and were compared at >= 1 valid sample label"
)
ASSUMPTIONS = [
    "the numeric catalogue (fixed spectra/shapes, orthogonal factors drawn from VERIF_SEED) stands for 'all inputs'",
    "n_modes never exceeds the numeric rank of the (reduced) data and SparsePCA's penalty (alpha <= 1e-2) leaves every component non-zero: a mode of zero variance has no normalised score (0/0) and is outside the quantifier",
    "alpha < 1 without PCA is enumerated only on fields with non-singular covariance (features <= valid samples - 1), as in C09",
    "cross-set inputs with missing samples have them at the same sample positions in X and Y (differing positions are C06's subject); "
    "lagged Y labels are a constant offset of X's, so the pairing of samples by position is unambiguous",
    "complex input is not combined with dask (documented refusal, DESIGN 3.4); multi.CCA offers neither compute=False provenance nor serialisation; "
    "rotator_reused applies to the six rotator classes, model_reused to the thirteen others",
    "deferred rotators pin max_iter=16 (DESIGN 2.2); the relation is independent of whether the rotation converged because both answers use the one stored rotation matrix",
    "Hilbert* classes are not in the alphabet: their transform is a documented refusal",
]
TALLY_KEYS = ("sweep", "family", "model", "container", "sdims", "ylabels", "mask", "flags", "prov")
TRUSTED = ["statsmodels import shim (/verif/shims) so that xeofs.cross constructors can be called"]
MAX_REFUSED_FRACTION = 0.10

TOL = 1e-9
TOL_APPROX = 1e-7  # solver in {auto, randomized}

SINGLE = ["EOF", "ComplexEOF", "SparsePCA", "POP"]
SINGLE_ROT = {"EOFRotator": "EOF", "ComplexEOFRotator": "ComplexEOF"}
CROSS = ["CPCCA", "MCA", "CCA", "RDA", "ComplexCPCCA", "ComplexMCA", "ComplexCCA", "ComplexRDA"]
CROSS_ROT = {"CPCCARotator": "CPCCA", "MCARotator": "MCA", "ComplexCPCCARotator": "ComplexCPCCA", "ComplexMCARotator": "ComplexMCA"}
NAMED_ALPHA = {"MCA": [1.0, 1.0], "CCA": [0.0, 0.0], "RDA": [0.0, 1.0]}
ALL_CLASSES = SINGLE + list(SINGLE_ROT) + CROSS + list(CROSS_ROT) + ["multi.CCA"]

N = 14  # samples (7 x 2 when there are two sample dimensions)
LAT3 = [-60.0, 10.0, 75.0]
LON2 = [0.0, 30.0]
MISSING = 3  # index of the entirely missing sample (time index 1, run index 1 with two sample dims)

# classes that share their transform code path with a primary class (subclasses fixing alpha / complex twins): reduced structure sweep in the quick tier
SECONDARY = ("CCA", "RDA", "ComplexMCA", "ComplexCCA", "ComplexRDA", "ComplexEOFRotator", "ComplexCPCCARotator", "ComplexMCARotator")

CONTAINERS = ("DataArray", "Dataset", "list")
MASKS = ("none", "sample", "feature", "both")
FLAGS = ("default", "nocenter", "std_w", "w")  # "w": the fit option `weights` alone (non-unit, on the feature grid; per field for cross-set)
PROVS = ("fresh", "refit", "deferred", "deserialized", "rotator_reused", "model_reused", "after_rotator", "computed")
ROTATOR_OF = {"EOF": "EOFRotator", "ComplexEOF": "ComplexEOFRotator", "CPCCA": "CPCCARotator", "MCA": "MCARotator", "ComplexCPCCA": "ComplexCPCCARotator", "ComplexMCA": "ComplexMCARotator"}


# ----------------------------------------------------------------------------- alphabet


def _family(model):
    if model in SINGLE or model in SINGLE_ROT:
        return "single"
    if model == "multi.CCA":
        return "multi"
    return "cross"


def _is_cplx(model):
    return model.startswith("Complex")


def _base_of(model):
    return SINGLE_ROT.get(model) or CROSS_ROT.get(model) or model


def _nfeat(role, container, mask="none"):
    n = {"X": {"DataArray": 6, "Dataset": 12, "list": 9}, "Y": {"DataArray": 4, "Dataset": 8, "list": 6}, "Z": {"DataArray": 3, "Dataset": 6, "list": 5}}[role][container]
    return n - (1 if mask in ("feature", "both") else 0)


def _nvalid(mask):
    return N - (1 if mask in ("sample", "both") else 0)


def _case(sweep, model, **kw):
    """A complete descriptor with the pinned defaults of class `model`; keyword arguments override."""
    fam = _family(model)
    c = dict(
        sweep=sweep,
        family=fam,
        model=model,
        base=_base_of(model),
        cplx=_is_cplx(model),
        spec="geometric",
        container="DataArray",
        ycontainer="DataArray",
        sdims=1,
        labels="ascending",
        ylabels="same",
        mask="none",
        flags="default",
        prov="fresh",
        solver="full",
        n_modes=3,
        rot=None,
        alpha=None,
        pca="off",
        extra=None,
        dseed=None,
    )
    if model in SINGLE_ROT:
        c.update(n_modes=4, rot=[3, 2])
    if model in CROSS_ROT:
        c.update(n_modes=3, rot=[3, 2])
    if fam == "cross":
        base = _base_of(model)
        kind = base.replace("Complex", "")
        c["alpha"] = NAMED_ALPHA.get(kind, [0.5, 0.25])
        c["pca"] = 3 if kind in ("CPCCA", "CCA") else "off"
    if model == "SparsePCA":
        c["extra"] = dict(alpha=1e-3)
        c["n_modes"] = 2
    if model == "POP":
        c["extra"] = dict(n_pca_modes=4)
        c["n_modes"] = 2
    if fam == "multi":
        c["extra"] = dict(views=2, pca=False, c=0.0)
        c["n_modes"] = 2
    c.update(kw)
    return c


def _admissible(c):
    """alpha<1 on a field with singular covariance only after PCA; n_modes within the rank."""
    if c["family"] == "cross" and c["flags"] == "nocenter":
        return False  # cross-set classes always centre
    if c["family"] == "multi" and c["flags"] != "default":
        return False  # multi.CCA has neither standardize nor weights
    if c["family"] == "cross":
        nv = _nvalid(c["mask"])
        px, py = _nfeat("X", c["container"], c["mask"]), _nfeat("Y", c["ycontainer"])
        for p, a in ((px, c["alpha"][0]), (py, c["alpha"][1])):
            if a < 1.0 and c["pca"] == "off" and p > nv - 1:
                return False
    return True


def _structure_cases(tier):
    out = []
    for model in ALL_CLASSES:
        rot = model in SINGLE_ROT or model in CROSS_ROT
        fam = _family(model)
        for container in CONTAINERS:
            for sdims in (1, 2, "mi"):
                for labels in ("ascending", "unsorted"):
                    for mask in MASKS:
                        for flags in FLAGS:
                            if flags == "w":
                                # weights alone: container x sample dims {1,2} x mask {none, sample}; quick: the plain DataArray, every class
                                if fam == "multi" or labels != "ascending" or sdims == "mi" or mask not in ("none", "sample"):
                                    continue
                                if tier == "quick" and not (container == "DataArray" and sdims == 1 and mask == "none"):
                                    continue
                            elif sdims == "mi":
                                # a pandas MultiIndex on the single sample dim: ascending labels, default preprocessing;
                                # quick: primary classes, DataArray, mask {none, sample}
                                if labels != "ascending" or flags != "default":
                                    continue
                                if tier == "quick" and (model in SECONDARY or container != "DataArray" or mask not in ("none", "sample")):
                                    continue
                            elif tier == "quick":
                                # stated sub-product of the quick tier
                                if model in SECONDARY and not (sdims == 1 and labels == "ascending" and flags == "default" and mask in (("none",) if rot else ("none", "sample"))):
                                    continue
                                if fam == "multi" and mask == "both":
                                    continue
                                if labels == "unsorted" and not (container == "DataArray" and sdims == 1 and flags == "default" and mask in ("none", "sample")):
                                    continue
                                if mask == "feature" and (rot or model in SECONDARY or not (container == "DataArray" and sdims == 1 and flags == "default" and labels == "ascending")):
                                    continue
                                if flags == "nocenter" and not (container == "DataArray" and sdims == 1 and mask == "none"):
                                    continue
                                if flags == "std_w" and not (sdims == 1 and mask == "none"):
                                    continue
                                if rot and not (flags == "default" and labels == "ascending" and mask in ("none", "sample") and (sdims == 1 or (container == "DataArray" and mask == "sample"))):
                                    continue
                            yc = "DataArray"
                            if fam == "cross" and tier == "thorough" and flags == "default" and labels == "ascending":
                                yc = container  # both fields vary together on the diagonal of the thorough tier
                            c = _case("structure", model, container=container, ycontainer=yc, sdims=sdims, labels=labels, mask=mask, flags=flags)
                            if _admissible(c):
                                out.append(c)
    return out


def _config_cases(tier):
    out = []
    q = tier == "quick"
    # ---- single-set
    for model in ("EOF", "ComplexEOF"):
        for spec in (["geometric", "rank_def"] if q else ["geometric", "flat_pair", "clustered", "rank_def", "near_equal_var"]):
            rank = D.rank_of(N, 6, spec)
            for k in range(1, min(5, rank) + 1):
                for solver in (["full"] if q else ["full", "auto", "randomized"]):
                    if solver != "full" and _is_cplx(model) and k >= min(N, 6) - 1:
                        continue
                    out.append(_case("config", model, spec=spec, n_modes=k, solver=solver))
    for a in (1e-3, 1e-2):
        for k in (1, 2, 3):
            for spec in (["geometric"] if q else ["geometric", "rank_def"]):
                out.append(_case("config", "SparsePCA", spec=spec, n_modes=k, extra=dict(alpha=a)))
    for npca in (3, 5):
        for k in (1, 2, 3):
            for spec in (["geometric"] if q else ["geometric", "flat_pair"]):
                out.append(_case("config", "POP", spec=spec, n_modes=k, extra=dict(n_pca_modes=npca)))
    for model in SINGLE_ROT:
        for spec in ("geometric", "near_equal_var"):
            for k in ((2, 3) if q else (2, 3, 4)):
                for power in (1, 2, 3):
                    if q and model in SECONDARY and not (spec == "geometric" and k == 3):
                        continue
                    out.append(_case("config", model, spec=spec, n_modes=4, rot=[k, power]))
    # ---- cross-set
    grid = (0.0, 0.25, 0.5, 1.0)
    for a1 in grid:
        for a2 in grid:
            for pca in ("off", 3, "all"):
                for k in ((3,) if q else (1, 2, 3)):
                    if q and pca == "all" and a1 != a2:
                        continue
                    out.append(_case("config", "CPCCA", alpha=[a1, a2], pca=pca, n_modes=k))
    for model in ("MCA", "CCA", "RDA", "ComplexMCA", "ComplexCCA", "ComplexRDA"):
        for pca in ("off", 3, "all"):
            for k in ((3,) if q else (1, 3)):
                out.append(_case("config", model, pca=pca, n_modes=k))
    for alpha in ([0.5, 0.5], [0.0, 1.0], [1.0, 0.25], [0.0, 0.0], [1.0, 1.0]):
        for pca in ("off", 3):
            out.append(_case("config", "ComplexCPCCA", alpha=alpha, pca=pca, n_modes=3))
    # ---- cross-set rotators
    if q:
        # alpha in {0,.5,1}^2 x PCA {off,3} at power 2, and power {1,3} x three whitening pairs without PCA
        for a1 in (0.0, 0.5, 1.0):
            for a2 in (0.0, 0.5, 1.0):
                for pca in ("off", 3):
                    out.append(_case("config", "CPCCARotator", alpha=[a1, a2], pca=pca, n_modes=3, rot=[3, 2]))
        for alpha in ([1.0, 1.0], [0.5, 0.5], [0.0, 1.0]):
            for power in (1, 3):
                out.append(_case("config", "CPCCARotator", alpha=alpha, pca="off", n_modes=3, rot=[3, power]))
    else:
        for a1 in grid:
            for a2 in grid:
                for pca in ("off", 3, "all"):
                    for k in (2, 3):
                        for power in (1, 2, 3):
                            for spec in ("geometric", "near_equal_var"):
                                out.append(_case("config", "CPCCARotator", spec=spec, alpha=[a1, a2], pca=pca, n_modes=3, rot=[k, power]))
    for model in ("MCARotator", "ComplexMCARotator"):
        for pca in ("off", 3):
            for power in (1, 2, 3):
                for k in ((3,) if q else (2, 3)):
                    if q and ((power == 2) or (model in SECONDARY and pca == 3)):
                        continue
                    out.append(_case("config", model, pca=pca, n_modes=3, rot=[k, power]))
    for alpha in ([0.5, 0.5], [1.0, 1.0]) if q else ([0.5, 0.5], [0.0, 1.0], [1.0, 0.25], [0.0, 0.0], [1.0, 1.0]):
        for pca in (("off",) if q else ("off", 3)):
            for power in ((1, 2) if q else (1, 2, 3)):
                out.append(_case("config", "ComplexCPCCARotator", alpha=alpha, pca=pca, n_modes=3, rot=[3, power]))
    # rotators of the named classes CCA / RDA: CPCCARotator fitted on them
    for base in ("CCA", "RDA") if q else ("CCA", "RDA", "ComplexCCA", "ComplexRDA"):
        for power in ((2,) if q else (1, 2)):
            out.append(_case("config", "ComplexCPCCARotator" if base.startswith("Complex") else "CPCCARotator", base=base, cplx=base.startswith("Complex"), alpha=NAMED_ALPHA[base.replace("Complex", "")], pca=3, n_modes=3, rot=[3, power]))
    # ---- rotations known to re-order their modes: data drawn from the pinned catalogue seed 0 instead of VERIF_SEED, so that the
    # re-sorting step of transform is exercised for every (family, power class) whatever the run's seed is (vacuity guard below)
    for model, alpha, rots in (
        ("EOFRotator", None, ([3, 1], [3, 3])),
        ("CPCCARotator", [0.0, 1.0], ([3, 1], [3, 3])),
        ("MCARotator", None, ([3, 1], [3, 3])),
        ("ComplexCPCCARotator", [0.5, 0.5], ([3, 1], [3, 2])),
        ("ComplexMCARotator", None, ([3, 1], [3, 3])),
    ):
        for rot in rots:
            kw = dict(n_modes=4 if model in SINGLE_ROT else 3, rot=list(rot), dseed=0)
            if model in CROSS_ROT:
                kw["pca"] = "off"
            if alpha is not None:
                kw["alpha"] = list(alpha)
            out.append(_case("config", model, **kw))
    # ---- multi-set
    for views in (2, 3):
        for pca in (False, True):
            for cc in (0.0, 0.5):
                for k in (1, 2):
                    out.append(_case("config", "multi.CCA", n_modes=k, extra=dict(views=views, pca=pca, c=cc)))
    return [c for c in out if _admissible(c)]


def _prov_applicable(model, prov):
    is_rot = model in SINGLE_ROT or model in CROSS_ROT
    if prov == "rotator_reused":
        return is_rot
    if prov == "model_reused":
        return not is_rot
    if prov == "after_rotator":
        return model in ROTATOR_OF
    if model == "multi.CCA":
        return prov == "refit"
    if prov == "deferred" and _is_cplx(model):
        return False
    return True


def _provenance_cases(tier):
    out = []
    for model in ALL_CLASSES:
        for prov in PROVS[1:]:
            if not _prov_applicable(model, prov):
                continue
            for container in (("DataArray",) if tier == "quick" else CONTAINERS):
                for mask in (("none",) if tier == "quick" else ("none", "sample")):
                    for flags in ("default", "w"):
                        # user weights are fitted state that every rebuild of the preprocessor must carry along
                        if flags == "w" and (model == "multi.CCA" or (tier == "quick" and prov not in ("deferred", "deserialized", "computed"))):
                            continue
                        c = _case("provenance", model, prov=prov, container=container, mask=mask, flags=flags)
                        if _admissible(c):
                            out.append(c)
    return out


def _xy_label_cases(tier):
    """Cross-set fields whose sample labels differ (Y lagged by LAG years: same count, other labels) x how the sample labels
    come back (one plain dim: they ride along; two sample dims or a MultiIndex: restored from each field's own bookkeeping)."""
    out = []
    for model in CROSS + list(CROSS_ROT):
        primary = model not in SECONDARY
        for sdims in (1, 2, "mi"):
            for mask in ("none", "sample"):
                for container in CONTAINERS:
                    if tier == "quick":
                        # every cross-set class on the two bookkeeping structures; primary classes also on the plain dim and
                        # (non-rotators) with a missing sample
                        if container != "DataArray":
                            continue
                        if sdims == 1 and not (primary and mask == "none"):
                            continue
                        if mask == "sample" and not (primary and model in CROSS and sdims == 2):
                            continue
                    c = _case("xylabels", model, ylabels="lagged", sdims=sdims, mask=mask, container=container, ycontainer=container)
                    if _admissible(c):
                        out.append(c)
    return out


def cases(tier, seed):
    out = _structure_cases(tier) + _config_cases(tier) + _provenance_cases(tier) + _xy_label_cases(tier)
    big = _big_cases(tier)
    order = {m: i for i, m in enumerate(ALL_CLASSES)}
    sw = {"structure": 0, "config": 1, "provenance": 2, "xylabels": 3}
    simple = lambda c: (c["container"] != "DataArray") + (c["sdims"] != 1) + (c["ylabels"] != "same") + (c["mask"] != "none") + (c["flags"] != "default") + (c["labels"] != "ascending")  # noqa: E731
    out.sort(key=lambda c: (c["rot"] is not None, sw[c["sweep"]], simple(c), order[c["model"]]))
    seen, uniq = set(), []
    for c in out:
        key = repr(sorted((k, repr(v)) for k, v in c.items() if k != "sweep"))
        if key not in seen:
            seen.add(key)
            uniq.append(c)
    return uniq + big


# ----------------------------------------------------------------------------- large noisy fields, DEFAULT pre-reduction
# 60 samples x (7x8 | 6x9 | 5x9) features, three signals + full-rank noise: the default PCA pre-reduction of the cross-set and
# multi-set classes (a variance fraction / 75 % of the rank, solved by a randomized sketch) is LOSSY there, unlike on the small
# catalogue matrices where a sketch of k + 10 columns spans everything. Scores and transform must still agree exactly: both
# are projections on the same stored basis.
BIG_MODELS = ["multi.CCA", "MCA", "CCA", "RDA", "CPCCA", "ComplexMCA", "MCARotator", "CPCCARotator"]


def _big_cases(tier):
    out = []
    for model in BIG_MODELS:
        opts = [dict()]
        if model == "multi.CCA":
            opts = [dict(views=2), dict(views=3, c=0.2)] + ([dict(views=3, init_pca_modes=0.5), dict(views=2, variance_fraction=0.9)] if tier != "quick" else [])
        elif tier != "quick" or model in ("MCA", "CPCCA"):
            opts = [dict(), dict(n_pca_modes=20), dict(n_pca_modes=0.9)]
        for o in opts:
            for k in ((2,) if tier == "quick" else (1, 2, 4)):
                if k > 2 and isinstance(o.get("n_pca_modes"), float):
                    continue  # 90 % of the variance is held by the three signal PCs: more modes than that is a documented refusal
                out.append(dict(sweep="big", model=model, family="big", rot=None, n_modes=k, opts=o, container="DataArray", sdims=1, ylabels="same", mask="none", flags="default", labels="ascending"))
    return out


def _big_view(seed, salt, n, a, b, name, t0=0):
    import xarray as xr

    rng = np.random.default_rng([int(seed), 404, salt])
    M = rng.normal(size=(n, 3)) @ rng.normal(size=(3, a * b)) * 2.0 + rng.normal(size=(n, a * b)) + rng.normal(size=a * b)
    return xr.DataArray(M.reshape(n, a, b), dims=("time", "lat", "lon"), coords={"time": np.arange(n) + t0, "lat": np.linspace(-50, 50, a), "lon": np.arange(b) * 10.0}, name=name)


def _run_big(case, seed):
    import xeofs as xe

    mname, k, o = case["model"], case["n_modes"], dict(case["opts"])
    X, Y, Z = _big_view(seed, 1, 60, 7, 8, "x"), _big_view(seed, 2, 60, 6, 9, "y"), _big_view(seed, 3, 60, 5, 9, "z")
    V = []
    if mname == "multi.CCA":
        views = [X, Y, Z][: o.pop("views")]
        m = xe.multi.CCA(n_modes=k, **o).fit(views, "time")
        pairs = list(zip(m.transform(views), m.scores()))
        subject = m
    else:
        base = {"MCARotator": "MCA", "CPCCARotator": "CPCCA"}.get(mname, mname)
        kw = dict(n_modes=max(k, 2), random_state=11, **o)
        if base == "CPCCA":
            kw["alpha"] = 0.5
        m = getattr(xe.cross, base)(**kw).fit(X, Y, "time")
        subject = m
        if mname.endswith("Rotator"):
            subject = getattr(xe.cross, mname)(n_modes=max(k, 2), power=1).fit(m)
        pairs = list(zip(subject.transform(X, Y), subject.scores()))
    for i, (t, s_) in enumerate(pairs):
        t, s_ = t.transpose("time", "mode"), s_.transpose("time", "mode")
        if list(t.time.values) != list(s_.time.values) or list(t.mode.values) != list(s_.mode.values):
            V.append(viol("transform_labels", mname, "field %d: labels of transform(training data) differ from those of scores() on the large noisy fields" % i, big=True))
            continue
        den = max(float(np.abs(s_.values).max()), 1e-300)
        e = float(np.abs(t.values - s_.values).max()) / den
        if not e <= 1e-9:
            V.append(viol("transform_equals_scores", mname, "field %d: transform(training data) differs from scores() by %.3e (relative) on large noisy fields with the default, lossy PCA pre-reduction %s" % (i, e, case["opts"]), big=True))
    return dict(violations=V, outcome="violation" if V else "ok", nontrivial=not V)


# ----------------------------------------------------------------------------- inputs


def _layout(role, container):
    """list of items (name, [(feature dim, labels), ...])."""
    if role == "X":
        a = ("a", [("lat", LAT3), ("lon", LON2)])
        if container == "DataArray":
            return [a]
        if container == "Dataset":
            return [a, ("b", [("lat", LAT3), ("lon", LON2)])]
        return [a, ("b", [("x", ["p", "q", "r"])])]
    if role == "Y":
        c = ("c", [("y", [100, 105, 110, 115])])
        if container == "DataArray":
            return [c]
        if container == "Dataset":
            return [c, ("d", [("y", [100, 105, 110, 115])])]
        return [c, ("d", [("z", [1.5, 2.5])])]
    e = ("e", [("w", [7, 8, 9])])
    if container == "DataArray":
        return [e]
    if container == "Dataset":
        return [e, ("f", [("w", [7, 8, 9])])]
    return [e, ("f", [("v", ["k", "l"])])]


LAG = 100  # offset of the Y field's time/year labels when ylabels == "lagged" (a lagged field: same count, other years)


def sample_coords(sdims, labels, lag=0):
    """(list of (dim, labels)), the label tuple of every sample in matrix row order, and the pandas MultiIndex when the
    single sample dimension carries one (sdims == "mi": levels year x mon; a sample's label is then the tuple (year, mon))."""
    nt = N if sdims == 1 else N // 2
    t = np.arange(nt) * 2 + 1 + lag
    if labels == "unsorted":
        t = t[[(i * 5 + 3) % nt for i in range(nt)]]
    t = [int(v) for v in t]
    if sdims == 1:
        return [("time", t)], [(v,) for v in t], None
    if sdims == "mi":
        import pandas as pd

        mi = pd.MultiIndex.from_product([t, [1, 2]], names=("year", "mon"))
        return [("time", list(range(N)))], [((y, m),) for y in t for m in (1, 2)], mi
    runs = ["r0", "r1"]
    return [("time", t), ("run", runs)], [(v, r) for v in t for r in runs], None


def build_field(case, seed, role, which="D1"):
    """The xarray object of one field, its weights object (or None) and bookkeeping for the oracle."""
    import xarray as xr

    container = case["container"] if role == "X" else (case["ycontainer"] if role == "Y" else "DataArray")
    items = _layout(role, container)
    sizes = [int(np.prod([len(l) for _, l in fd])) for _, fd in items]
    p = sum(sizes)
    salt = {"X": 1, "Y": 2, "Z": 3}[role] + (10 if which == "D2" else 0)
    M = D.make_matrix(N, p, case["spec"], 1.0, case["cplx"], seed, salt=salt)
    if which == "D2":
        M = M * 2.0 + 5.0
    lag = LAG if (role == "Y" and case.get("ylabels", "same") == "lagged") else 0
    sc, keys, mi = sample_coords(case["sdims"], case["labels"], lag)
    M = M.copy()
    mask = case["mask"]
    if mask in ("sample", "both"):
        M[MISSING, :] = np.nan
    arrays, wts = [], []
    col = 0
    for j, ((name, fdims), sz) in enumerate(zip(items, sizes)):
        blk = M[:, col : col + sz]
        col += sz
        shape = [len(l) for _, l in sc] + [len(l) for _, l in fdims]
        arr = blk.reshape(shape).copy()
        if j == 0 and role == "X" and mask in ("feature", "both"):
            arr[(slice(None),) * len(sc) + (0, 1)] = np.nan  # feature (first label, second label) of item a
        dims = [d for d, _ in sc] + [d for d, _ in fdims]
        coords = {d: l for d, l in sc}
        coords.update({d: l for d, l in fdims})
        da = xr.DataArray(arr, dims=dims, coords=coords, name=name)
        if mi is not None:
            da = da.drop_vars("time").assign_coords(xr.Coordinates.from_pandas_multiindex(mi, "time"))
        arrays.append(da)
        rng = np.random.default_rng([int(seed), 77, salt % 10, j])
        w = 0.5 + 2.0 * rng.random([len(l) for _, l in fdims])
        wts.append(xr.DataArray(w, dims=[d for d, _ in fdims], coords={d: l for d, l in fdims}, name=name))
    if case["prov"] == "deferred":
        arrays = [a.chunk({d: -1 for d in a.dims}) for a in arrays]
    if container == "DataArray":
        obj, w = arrays[0], wts[0]
    elif container == "Dataset":
        obj, w = xr.Dataset({a.name: a for a in arrays}), xr.Dataset({a.name: a for a in wts})
    else:
        obj, w = list(arrays), list(wts)
    if case["flags"] not in ("std_w", "w"):
        w = None
    haslat = all(any(d == "lat" for d, _ in fd) for _, fd in items)
    valid = [k for i, k in enumerate(keys) if not (mask in ("sample", "both") and i == MISSING)]
    missing = [k for i, k in enumerate(keys) if (mask in ("sample", "both") and i == MISSING)]
    return dict(obj=obj, weights=w, haslat=haslat, sdims=[d for d, _ in sc], keys=keys, valid=valid, missing=missing, p=p)


# ----------------------------------------------------------------------------- the real thing


def _flags_kw(case, haslat):
    f = case["flags"]
    if f in ("default", "w"):
        return dict(center=True, standardize=False, use_coslat=False)
    if f == "nocenter":
        return dict(center=False, standardize=False, use_coslat=False)
    return dict(center=True, standardize=True, use_coslat=bool(haslat))


def make_models(case, fx, fy=None):
    """(base model, rotator or None), unfitted."""
    import xeofs as xe

    fam = case["family"]
    deferred = case["prov"] == "deferred"
    k = case["n_modes"]
    rot = None
    if fam == "single":
        fl = _flags_kw(case, fx["haslat"])
        kw = dict(n_modes=k, solver=case["solver"], random_state=5, compute=not deferred, **fl)
        base = case["base"]
        if base == "SparsePCA":
            kw.update(alpha=case["extra"]["alpha"], max_iter=4 if deferred else 500)
        if base == "POP":
            kw.update(use_pca=True, n_pca_modes=case["extra"]["n_pca_modes"])
        m = getattr(xe.single, base)(**kw)
        if case["rot"]:
            rk = dict(n_modes=case["rot"][0], power=case["rot"][1], compute=not deferred)
            if deferred:
                rk["max_iter"] = 16
            rot = getattr(xe.single, case["model"])(**rk)
        return m, rot
    if fam == "cross":
        flx, fly = _flags_kw(case, fx["haslat"]), _flags_kw(case, fy["haslat"])
        kw = dict(n_modes=k, solver=case["solver"], random_state=7, compute=not deferred)
        for key in ("standardize", "use_coslat"):  # cross-set constructors have no `center` switch
            kw[key] = [flx[key], fly[key]]
        kw["use_pca"] = case["pca"] != "off"
        if case["pca"] != "off":
            kw["n_pca_modes"] = case["pca"]
        if case["base"].replace("Complex", "") == "CPCCA":
            kw["alpha"] = [float(a) for a in case["alpha"]]
        m = getattr(xe.cross, case["base"])(**kw)
        if case["rot"]:
            rk = dict(n_modes=case["rot"][0], power=case["rot"][1], compute=not deferred)
            if deferred:
                rk["max_iter"] = 16
            rot = getattr(xe.cross, case["model"])(**rk)
        return m, rot
    ex = case["extra"]
    m = xe.multi.CCA(n_modes=k, pca=ex["pca"], c=ex["c"], init_pca_modes=1.0, variance_fraction=0.99)
    return m, None


def _dim(f):
    return f["sdims"][0] if len(f["sdims"]) == 1 else list(f["sdims"])


def _fit(case, m, fields):
    fam = case["family"]
    if fam == "single":
        m.fit(fields[0]["obj"], dim=_dim(fields[0]), weights=fields[0]["weights"])
    elif fam == "cross":
        m.fit(fields[0]["obj"], fields[1]["obj"], dim=_dim(fields[0]), weights_X=fields[0]["weights"], weights_Y=fields[1]["weights"])
    else:
        m.fit([f["obj"] for f in fields], dim=_dim(fields[0]))


def _transform_once(case, obj, fields):
    """one transform call whose answer is discarded (history only; what it returns is judged by the fresh cases)."""
    fam = case["family"]
    if fam == "single":
        obj.transform(fields[0]["obj"])
    elif fam == "cross":
        obj.transform(fields[0]["obj"], fields[1]["obj"])
    else:
        obj.transform([f["obj"] for f in fields])


def _non_convergence(e):
    return isinstance(e, RuntimeError) and "did not converge" in str(e)


def realize(case, seed):
    """Fit (and rotate) along the case's provenance; returns (subject whose transform/scores are observed, fields, info)."""
    fam = case["family"]
    if case.get("dseed") is not None:
        seed = case["dseed"]  # pinned catalogue seed (see `_config_cases`)
    roles = ["X"] if fam == "single" else (["X", "Y"] if fam == "cross" else ["X", "Y", "Z"][: case["extra"]["views"]])
    fields = [build_field(case, seed, r) for r in roles]
    m, rot = make_models(case, *fields[:2]) if fam != "multi" else make_models(case, fields[0])
    prov = case["prov"]
    if prov == "refit":
        other = [build_field(case, seed, r, which="D2") for r in roles]
        _fit(case, m, other)
        if rot is not None:
            rot.fit(m)
    if prov == "model_reused":
        # the judged object has already been fitted on, AND asked to transform, other data
        other = [build_field(case, seed, r, which="D2") for r in roles]
        _fit(case, m, other)
        _transform_once(case, m, other)
    if prov == "rotator_reused":
        # the judged rotator object has already rotated ANOTHER model (fitted on other data) and answered one transform
        other = [build_field(case, seed, r, which="D2") for r in roles]
        m_other, _ = make_models(case, *other[:2])
        _fit(case, m_other, other)
        rot.fit(m_other)
        _transform_once(case, rot, other)
    _fit(case, m, fields)
    subject = m
    if rot is not None:
        rot.fit(m)
        subject = rot
    if prov == "after_rotator":
        # the judged (unrotated) model has meanwhile been handed to a rotator; its own answers must not have moved
        import xeofs as xe

        rcls = getattr(xe.single if fam == "single" else xe.cross, ROTATOR_OF[case["model"]])
        rcls(n_modes=min(3, case["n_modes"]), power=2).fit(m)
    if prov in ("deferred", "computed"):
        subject.compute()  # "computed": compute() on an eagerly fitted object (rebuilds its attributes from the serialised tree)
    if prov == "deserialized":
        subject = type(subject).deserialize(subject.serialize())
    info = {}
    if rot is not None:
        try:
            perm = np.asarray(subject.data["idx_modes_sorted"].values).tolist()
            info["perm_nonidentity"] = perm != list(range(len(perm)))
        except Exception:
            info["perm_nonidentity"] = None
    return subject, fields, info


# ----------------------------------------------------------------------------- oracle


def _table(da, sdims):
    """label-keyed view of a (sample dims..., mode) DataArray: {sample label tuple: vector}, mode labels."""
    import xarray as xr

    if not isinstance(da, xr.DataArray):
        raise D.LabelError("type %s is not a DataArray" % type(da).__name__)
    want = set(sdims) | {"mode"}
    if set(map(str, da.dims)) != want:
        raise D.LabelError("dims %s != expected %s" % (sorted(map(str, da.dims)), sorted(want)))
    for d in want:
        if d not in da.coords:
            raise D.LabelError("dim %s has no coordinate" % d)
    o = da.transpose(*sdims, "mode")
    vals = np.asarray(o.values)
    modes = [int(v) if float(v).is_integer() else v for v in np.asarray(o["mode"].values).tolist()]
    labs = [np.asarray(o[d].values).tolist() for d in sdims]
    tab = {}
    for idx in np.ndindex(*vals.shape[:-1]):
        key = tuple(labs[j][i] for j, i in enumerate(idx))
        if key in tab:
            raise D.LabelError("duplicate sample label %s" % (key,))
        tab[key] = vals[idx]
    return tab, modes


def compare(tr, sc, field):
    """List of (check, message) differences between transform result `tr` and scores `sc` of one field."""
    out = []
    sd = field["sdims"]
    try:
        ttab, tmodes = _table(tr, sd)
    except D.LabelError as e:
        return [("transform_structure", "transform: %s" % e)], 0, 0.0
    try:
        stab, smodes = _table(sc, sd)
    except D.LabelError as e:
        return [("scores_structure", "scores: %s" % e)], 0, 0.0
    # mode labels: the same set in both answers (compared by label, DESIGN 4.2); k is the number the model was asked for
    if len(set(map(repr, tmodes))) != len(tmodes) or sorted(map(repr, tmodes)) != sorted(map(repr, smodes)):
        return [("mode_labels", "mode labels differ: transform %s, scores %s" % (tmodes, smodes))], 0, 0.0
    want_modes = list(smodes)
    tperm = [tmodes.index(mm) for mm in want_modes]
    sperm = list(range(len(smodes)))
    allkeys = set(field["keys"])
    unknown = [kk for kk in ttab if kk not in allkeys]
    if unknown:
        out.append(("sample_labels", "transform returns sample labels the input does not have: %s" % unknown[:4]))
    absent = [kk for kk in field["valid"] if kk not in ttab]
    if absent:
        out.append(("sample_labels", "transform lacks %d of %d valid sample labels, e.g. %s" % (len(absent), len(field["valid"]), absent[:3])))
    absent_s = [kk for kk in field["valid"] if kk not in stab]
    if absent_s:
        out.append(("scores_sample_labels", "scores() lacks valid sample labels %s" % absent_s[:3]))
    for kk in field["missing"]:
        if kk in ttab and np.isfinite(np.asarray(ttab[kk], dtype=complex)).any():
            out.append(("finite_at_missing_sample", "transform returns numbers at the entirely missing sample %s" % (kk,)))
    common = [kk for kk in field["valid"] if kk in ttab and kk in stab]
    if not common:
        return out, 0, 0.0
    T = np.array([np.asarray(ttab[kk])[tperm] for kk in common])
    S = np.array([np.asarray(stab[kk])[sperm] for kk in common])
    if not np.all(np.isfinite(S.astype(complex))):
        out.append(("scores_nan_at_valid_sample", "scores() is not finite at %d valid samples" % int((~np.isfinite(S.astype(complex))).any(axis=1).sum())))
    if not np.all(np.isfinite(T.astype(complex))):
        nbad = int((~np.isfinite(T.astype(complex))).any(axis=1).sum())
        out.append(("nan_at_valid_sample", "transform is not finite at %d of %d valid samples" % (nbad, len(common))))
        return out, len(common), 0.0
    scale = float(np.nanmax(np.abs(S))) if S.size else 0.0
    return out, len(common), scale, T, S


def _where(e):
    tb = traceback.extract_tb(e.__traceback__)
    for fr in reversed(tb):
        if "/xeofs/" in fr.filename:
            return "%s:%s" % (os.path.basename(fr.filename), fr.name)
    return "%s:%s" % (os.path.basename(tb[-1].filename), tb[-1].name) if tb else "?"


def run_case(case, seed):
    with warnings.catch_warnings():
        warnings.simplefilter("ignore")
        if case.get("sweep") == "big":
            return _run_big(case, seed)
        return _run(case, seed)


def _scope(failed, evaluated):
    """which of the evaluated (normalized, call form) combinations failed — a small stable label."""
    failed, evaluated = set(failed), set(evaluated)
    if failed == evaluated:
        return "all"
    if all(nz for nz, _ in failed):
        return "normalized_only"
    if not any(nz for nz, _ in failed):
        return "single_call_only" if all(cf == "single" for _, cf in failed) else "raw_only"
    return "partial"


def _run(case, seed):
    fam = case["family"]
    mname = case["model"]
    plain = case["container"] == "DataArray" and case["ycontainer"] == "DataArray" and case["sdims"] == 1 and case["labels"] == "ascending" and case["ylabels"] == "same" and case["mask"] == "none" and case["flags"] == "default" and case["prov"] == "fresh"
    structure = "plain" if plain else "varied"
    if case["prov"] in ("refit", "rotator_reused", "model_reused", "after_rotator"):
        structure = "history:" + case["prov"]  # the judged object carried earlier fitted state
    V = []

    try:
        subject, fields, info = realize(case, seed)
    except NotImplementedError as e:  # (a RuntimeError subclass: must come first)
        # documented refusal (DESIGN 3.4): dask's svd on a matrix chunked along both axes — here the feature covariance of a
        # whitened multi-item field in a deferred *fit*; whether that fit should work is C12's subject, not a transform answer
        if case["prov"] == "deferred" and "chunked in one dimension only" in str(e):
            return dict(outcome="refused:NotImplementedError", nontrivial=False)
        raise
    except RuntimeError as e:
        if _non_convergence(e) and case["spec"] == "near_equal_var":
            return dict(outcome="refused:RuntimeError", nontrivial=False)
        raise
    tol = TOL if case["solver"] == "full" else TOL_APPROX
    info.update(family=fam, model=mname, prov=case["prov"], container=case["container"], mask=case["mask"], rot=bool(case["rot"]),
                sdims=str(case["sdims"]), ylabels=case["ylabels"],
                power1=(case["rot"][1] == 1) if case["rot"] else None, alpha_lt_1=bool(min(case["alpha"]) < 1.0) if fam == "cross" else None)
    compared = 0
    nonzero = False
    missing_seen = set()
    found = {}  # (field index, check) -> list of ((normalized, call form), message)
    evaluated = {}  # field index -> list of (normalized, call form)

    def judge(tr, sc, fi, normalized, callform):
        nonlocal compared, nonzero
        field = fields[fi]
        evaluated.setdefault(fi, []).append((normalized, callform))
        res = compare(tr, sc, field)
        tag = "%s/%s" % ("normalized" if normalized else "raw", callform)
        for check, msg in res[0]:
            found.setdefault((fi, check), []).append(((normalized, callform), "%s: %s" % (tag, msg)))
        if len(res) == 5:
            _, ncommon, scale, T, S = res
            e = float(np.max(np.abs(T - S))) / max(scale, 1e-300)
            if not e <= tol:
                rowbad = int((np.abs(T - S).max(axis=1) > tol * max(scale, 1e-300)).sum())
                found.setdefault((fi, "transform_equals_scores"), []).append(((normalized, callform),
                    "%s: max |transform - scores| / max|scores| = %.3e at %d of %d valid samples (first sample: transform %s vs scores %s)"
                    % (tag, e, rowbad, ncommon, np.round(T[0, :3], 6), np.round(S[0, :3], 6))))
            compared += ncommon
            nonzero = nonzero or scale > 0
        # which representation of the missing sample did the transform choose (vacuity bookkeeping)
        for kk in field["missing"]:
            try:
                ttab, _ = _table(tr, field["sdims"])
                missing_seen.add("nan" if kk in ttab else "omitted")
            except Exception:
                pass

    def call(f, *a, **kw):
        """run one transform call; an exception on a covered input is a violation of this property (README)."""
        try:
            return f(*a, **kw), None
        except Exception as e:  # noqa: BLE001
            return None, e

    def raised(e, normalized, callform):
        # the exception site identifies the cause; normalized / call form / structure only in the message
        sig = (type(e).__name__, _where(e))
        if any(v["check"] == "raised" and (v["features"]["exc"], v["features"]["at"]) == sig for v in V):
            return
        V.append(viol("raised", mname, "transform(%s, normalized=%s) raised %s: %s\n%s  [%s]" % (callform, normalized, type(e).__name__, e, "".join(traceback.format_tb(e.__traceback__)[-3:]), _brief(case)), exc=sig[0], at=sig[1]))

    if fam == "single":
        X = fields[0]["obj"]
        for nz in (False, True):
            sc = subject.scores(normalized=nz)
            tr, e = call(subject.transform, X, normalized=nz)
            if e is not None:
                raised(e, nz, "X")
                continue
            judge(tr, sc, 0, nz, "X")
    elif fam == "cross":
        X, Y = fields[0]["obj"], fields[1]["obj"]
        for nz in (False, True):
            s1, s2 = subject.scores(normalized=nz)
            tr, e = call(subject.transform, X, Y, normalized=nz)
            if e is not None:
                raised(e, nz, "both")
            elif not (isinstance(tr, (list, tuple)) and len(tr) == 2):
                V.append(viol("transform_structure", mname, "transform(X, Y) returned %s, expected two DataArrays  [%s]" % (type(tr).__name__, _brief(case)), structure=structure))
            else:
                judge(tr[0], s1, 0, nz, "both")
                judge(tr[1], s2, 1, nz, "both")
            if not nz:
                tr, e = call(subject.transform, X=X, normalized=nz)
                if e is not None:
                    raised(e, nz, "single")
                else:
                    judge(tr, s1, 0, nz, "single")
                tr, e = call(subject.transform, Y=Y, normalized=nz)
                if e is not None:
                    raised(e, nz, "single")
                else:
                    judge(tr, s2, 1, nz, "single")
    else:
        views = [f["obj"] for f in fields]
        sc = subject.scores()
        tr, e = call(subject.transform, views)
        if e is not None:
            raised(e, False, "views")
        elif not (isinstance(tr, (list, tuple)) and len(tr) == len(views)):
            V.append(viol("transform_structure", mname, "transform(views) returned %s of length %s, expected %d DataArrays  [%s]"
                          % (type(tr).__name__, len(tr) if hasattr(tr, "__len__") else "?", len(views), _brief(case)), structure=structure))
        else:
            for i, (t_, s_) in enumerate(zip(tr, sc)):
                judge(t_, s_, i, False, "views")

    # one violation per (field, oracle clause): which call forms / normalisations it affects is a feature, the details are in the message
    for (fi, check), lst in sorted(found.items()):
        feats = dict(structure=structure, scope=_scope([c for c, _ in lst], evaluated[fi]))
        if case["flags"] in ("w", "std_w"):
            feats["weights"] = True  # fitted with the user's `weights`
        fname = ""
        if fam == "cross":
            feats["alpha_lt_1"] = bool(case["alpha"][fi] < 1.0)  # whitening degree of THIS field
            fname = "field %s (alpha=%g): " % ("XY"[fi], case["alpha"][fi])
        elif fam == "multi":
            fname = "view %d: " % fi
        V.append(viol(check, mname, "%s%s  [%s]" % (fname, " | ".join(m for _, m in lst[:2]) + (" | ... %d call forms in all" % len(lst) if len(lst) > 2 else ""), _brief(case)), **feats))

    info["compared"] = compared
    info["missing_repr"] = sorted(missing_seen)
    return dict(violations=V, outcome="violation" if V else "ok", nontrivial=bool(not V and compared > 0 and nonzero), info=info)


def _brief(c):
    parts = ["%s" % c["container"], "sdims=%s" % c["sdims"], "mask=%s" % c["mask"], "flags=%s" % c["flags"], "prov=%s" % c["prov"], "n_modes=%s" % c["n_modes"]]
    if c["labels"] != "ascending":
        parts.append("labels=%s" % c["labels"])
    if c.get("ylabels", "same") != "same":
        parts.append("Y sample labels=%s" % c["ylabels"])
    if c["family"] == "cross":
        parts += ["alpha=%s" % c["alpha"], "pca=%s" % c["pca"], "Y=%s" % c["ycontainer"]]
        if c["base"] != _base_of(c["model"]):
            parts.append("base=%s" % c["base"])
    if c["rot"]:
        parts.append("rot(k,power)=%s" % c["rot"])
    if c["extra"]:
        parts.append("%s" % c["extra"])
    if c["spec"] != "geometric":
        parts.append(c["spec"])
    if c.get("dseed") is not None:
        parts.append("data seed pinned to %d" % c["dseed"])
    return ", ".join(parts)


# ----------------------------------------------------------------------------- vacuity and tallies


def vacuity(outcomes, results, tier):
    judged = [r["info"] for r in results if r.get("outcome") in ("ok", "violation") and r.get("info")]
    if not judged:
        return "no case was judged"
    classes = {i["model"] for i in judged}
    lack = [m for m in ALL_CLASSES if m not in classes]
    if lack:
        return "classes never judged: %s" % lack
    for fam in ("single", "cross"):
        for p1 in (True, False):
            sub = [i for i in judged if i["family"] == fam and i["rot"] and i["power1"] == p1]
            if not sub:
                return "no %s-set rotator with power %s judged" % (fam, "1" if p1 else ">1")
    # which rotations re-order their modes depends on the data; the pinned-seed cases of `_config_cases` guarantee one per
    # (family, power class) independently of VERIF_SEED, so its absence means the re-sorting step of transform went unexercised
    for fam in ("single", "cross"):
        for p1 in (True, False):
            if not any(i.get("perm_nonidentity") for i in judged if i["family"] == fam and i["rot"] and i["power1"] == p1):
                return "no %s-set rotator with power %s re-ordered its modes: the re-sorting step of transform was never exercised" % (fam, "1" if p1 else ">1")
    for model in ("CPCCA", "CPCCARotator", "ComplexCPCCA", "ComplexCPCCARotator"):
        seen = {i["alpha_lt_1"] for i in judged if i["model"] == model}
        if seen != {True, False}:
            return "%s: whitening degrees alpha<1 and alpha=1 were not both judged" % model
    for key, vals in (("prov", PROVS), ("container", CONTAINERS)):
        seen = {i[key] for i in judged}
        lackv = [v for v in vals if v not in seen]
        if lackv:
            return "%s values never judged: %s" % (key, lackv)
    for model in CROSS + list(CROSS_ROT):
        for sd in ("2", "mi"):
            if not any(i["model"] == model and i["ylabels"] == "lagged" and i["sdims"] == sd and i.get("compared", 0) > 0 for i in judged):
                return "%s: X and Y with different sample labels were never compared on sample structure %s (labels restored from per-field bookkeeping)" % (model, sd)
    masked = [i for i in judged if i["mask"] in ("sample", "both")]
    if not masked or not any(i.get("missing_repr") for i in masked):
        return "no case with an entirely missing sample reached the comparison"
    if not any(i.get("compared", 0) > 0 for i in judged):
        return "no numeric comparison took place"
    return None


def finalize(cases_, results, tier, seed):
    from collections import Counter

    t = Counter()
    miss = Counter()
    perm = Counter()
    for c, r in zip(cases_, results):
        i = r.get("info") or {}
        t["%s/%s" % (c["model"], r.get("outcome"))] += 1
        for v in i.get("missing_repr", []):
            miss[v] += 1
        if c["rot"]:
            perm["%s/%s" % (c["family"], "reordered" if i.get("perm_nonidentity") else "order_kept")] += 1
    return [], {"outcome_by_class": dict(sorted(t.items())), "missing_sample_representation": dict(miss), "rotator_reordering": dict(perm)}
