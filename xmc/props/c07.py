"""C07 — Results do not depend on how the same data is laid out or named. Explorer G (presentation graph).

Nodes are presentations of ONE data set; edges change one coordinate of the presentation (dimension order, feature
permutation along lat / lon, sample permutation, split of the features into Dataset variables or list items, internal
sample/feature names, samples carried by one dimension / by two dimensions named in either order / by one user-stacked
MultiIndex dimension).  Three base configurations: plain, labelled user weights, ragged sample grid (fully missing samples
spread unevenly over the two sample dimensions).  Second entry point: the model fitted on a node is handed one fixed
held-out data set in the fit layout and in every presentation one edge away that is legal for new data (transposed storage,
sample order, sample dimensions stored the other way round, Dataset variable order, list items in different layouts;
permuted feature coordinates are refused by Stacker.transform, which is accepted as long as it is that refusal) through
transform / predict; the scores must agree label by label with those of the fit layout and of the base node's model.  BFS over compositions to the tier's depth.  At every node every model class is fitted and its
canonical form (spectrum; components keyed by base cell; scores keyed by sample label) must fall into the base node's class.
"""

from __future__ import annotations

import functools
import itertools
import warnings

import numpy as np
import pandas as pd
import xarray as xr

from .. import data as D
from .. import observe as O
from ..core import viol

ID = "C07"
LEVEL = "model_checking"
TECHNIQUE = "BFS over the graph of meaning-preserving re-presentations of one data set; every node fitted with every model class on the real code and compared (label-keyed) with the base node"
RULE = (
    "states = (presentation node, model class) pairs fitted; a node is a tuple (dim order, lat permutation, lon permutation, "
    "sample permutation, feature split into Dataset/list, internal names, samples as one dimension | two dimensions dim=(t, r) | dim=(r, t) | "
    "one user-stacked MultiIndex dimension) with at most `depth` non-default coordinates; "
    "transitions = lattice edges between visited nodes (one coordinate changed) times model classes; every fitted node is "
    "validated against the base node's canonical form; in `new_data` cases a state is one (fitted node, presentation of the held-out data) pair "
    "mapped to scores by every transform / predict route of the model"
)
LEVEL_TEXT = "all compositions of up to 2 (quick) / 3 (thorough) presentation edges over the full edge alphabet, for 17 model configurations (15 classes; cross-set classes also with an exactly solved PCA pre-reduction); the weighted, ragged and degenerate base configurations one level less deep"
ASSUMPTIONS = [
    "one 9x(3x2) base data set per spectrum (geometric; flat_pair compared through projectors) stands for 'all inputs'",
    "PYTHONHASHSEED is fixed to 0 by ./check; the thorough tier re-explores the quick graph in fresh interpreters with PYTHONHASHSEED = 1 and 2 (environment edge)",
    "order-dependent methods (ExtendedEOF, OPA, POP, HilbertEOF, EOFBootstrapper) are not given sample permutations, nor the two sample dimensions named in the other order (a sample permutation)",
    "new data: one held-out data set (6 samples); fitted nodes of depth <= 1 (quick) / 2 (thorough) on the plain base; classes without transform (HilbertEOF, ExtendedEOF, OPA, EOFBootstrapper) are not in this part",
    "ragged base: one pattern of fully missing samples (3 of 12 slots, members with 4 / 3 / 2 samples), missing in every field alike; CPCCARotator on the exact-PCA configuration is explored one level less deep",
]
TALLY_KEYS = ("model",)
TRUSTED = ["statsmodels import shim (cross-set constructors)"]

ORDERS = list(itertools.permutations(("time", "lat", "lon")))
PLAT = [(0, 1, 2), (2, 1, 0), (1, 2, 0), (1, 0, 2)]
PLON = [(0, 1), (1, 0)]
PSAM = [None, "reverse", "shuffle"]
SPLITS = [None] + [[k, i] for k in ("ds", "list") for i in range(3)]  # lat i alone vs the two others
NAMES = [("sample", "feature"), ("s", "f"), ("obs", "cell")]
# samples presented as: one dimension 'time' | two dimensions named dim=("t", "r") | the same two named dim=("r", "t")
# (the order of the names in `dim` is only a sample permutation) | stacked by the user into one MultiIndex dimension 'run'
SDIMS = ["time", ("t", "r"), ("r", "t"), "run"]
DEFAULT = dict(order=0, plat=0, plon=0, psam=0, split=0, names=0, sdims=0)
DOMAIN = dict(order=len(ORDERS), plat=len(PLAT), plon=len(PLON), psam=len(PSAM), split=len(SPLITS), names=len(NAMES), sdims=len(SDIMS))
# `weights` is not a presentation coordinate but a second base configuration: user weights given as a labelled field
# in the BASE order, whatever the order in which the data stores its coordinates (the product is label-aligned)
# `ragged` is a third base configuration: 12 sample slots (t = 0..3, r = 0..2) of which (t, r) = (0, 1), (0, 2), (1, 2) are
# fully missing in every field (ensemble members that start later: r = 0, 1, 2 have 4, 3, 2 samples). The 9 remaining
# samples are the samples of every presentation, whatever the number / order of the sample dimensions that carry them.

MODELS = ["EOF", "ComplexEOF", "HilbertEOF", "ExtendedEOF", "SparsePCA", "POP", "OPA", "EOFRotator", "CPCCA", "MCA", "MCARotator", "multiCCA", "EOFBootstrapper"]
# cross-set configurations whose PCA pre-reduction keeps all ("all") or nearly all (large integer) PCs: the PCA step is then
# solved by the exact solver (n_modes > 80 % of the rank on small data), not by the randomized one of the default setting
MODELS += ["MCA_allpc", "CPCCA_allpc", "RDA_intpc", "CPCCARotator_allpc"]
NO_SAMPLE_PERM = {"HilbertEOF", "ExtendedEOF", "POP", "OPA", "EOFBootstrapper", "OPA_wide", "ExtendedEOF_wide", "POP_wide"}
CROSS = {"MCA_std", "CPCCA", "MCA", "MCARotator", "MCA_allpc", "CPCCA_allpc", "RDA_intpc", "CPCCARotator_allpc", "MCA_wide", "CPCCA_wide"}
ITERATIVE = {"SparsePCA", "EOFRotator", "MCARotator", "CPCCARotator_allpc"}
RAGGED_EXTRA = ["EOF_std"]  # on the ragged base the scale is an average over the sample dimensions too: EOF(standardize=True)
SHALLOW = {"CPCCARotator_allpc"}  # explored one level less deep than the others (0.7 s per fit)
N = 9
N_RAGGED = 12
MISSING = (1, 2, 5)  # time labels 3 t + r of the fully missing samples of the ragged base


def nodes(depth):
    keys = list(DEFAULT)
    out = [dict(DEFAULT)]
    for d in range(1, depth + 1):
        for ks in itertools.combinations(keys, d):
            for vals in itertools.product(*[range(1, DOMAIN[k]) for k in ks]):
                n = dict(DEFAULT)
                n.update(dict(zip(ks, vals)))
                out.append(n)
    return out


def ndepth(n):
    return sum(1 for k in DEFAULT if n.get(k, 0) != 0)


WIDE = "slow_wide"  # a 30 x (3 x 8) field with a slowly decaying spectrum: 24 features, so that a sketch of 5 + 10 columns is lossy
WIDE_MODELS = ["EOF", "OPA_wide", "ExtendedEOF_wide", "POP_wide", "MCA_wide", "CPCCA_wide"]


UNITS = "geometric@units"  # the three latitude rows carry fields in very different units (factors 1, 1e9, 1e4): with
# standardize=True nothing may depend on which of them share a container (Dataset variable / list item / one DataArray)
UNITS_MODELS = ["EOF_std", "MCA_std"]


def base_data(seed, spec, cplx, ragged=False):
    if spec == UNITS:
        x, y = base_data(seed, "geometric", cplx, ragged)
        fac = xr.DataArray([1.0, 1e9, 1e4], dims="lat", coords={"lat": x.lat})
        return (x * fac).rename(x.name), y
    if spec == WIDE:
        X = D.make_matrix(30, 24, "slow", 1.0, cplx, seed, salt=1)
        Y = D.make_matrix(30, 4, "geometric", 1.0, False, seed, salt=2)
        x = D.da_grid(X, 3, 8, lats=[-50.0, 10.0, 65.0], name="field")
        return x, D.da_2d(Y, "time", "station", fcoord=["a", "b", "c", "d"], name="yfield")
    X = D.make_matrix(N, 6, spec, 1.0, cplx, seed, salt=1)
    Y = D.make_matrix(N, 4, "geometric", 1.0, False, seed, salt=2)
    if ragged:  # the same 9 samples scattered over 12 slots; the other 3 slots are fully missing in both fields
        keep = [i for i in range(N_RAGGED) if i not in MISSING]
        Xr, Yr = np.full((N_RAGGED, 6), np.nan, dtype=X.dtype), np.full((N_RAGGED, 4), np.nan)
        Xr[keep], Yr[keep] = X, Y
        X, Y = Xr, Yr
    x = D.da_grid(X, 3, 2, lats=[-50.0, 10.0, 65.0], name="field")
    y = D.da_2d(Y, "time", "station", fcoord=["a", "b", "c", "d"], name="yfield")
    return x, y


def sample_perm(kind, seed, n=N):
    if kind is None:
        return np.arange(n)
    if kind == "reverse":
        return np.arange(n)[::-1]
    return np.random.default_rng([seed, 99]).permutation(n)


def _two_sample_dims(o, order, flip):
    """Present the samples as two dimensions: time label i -> (t = i // 3, r = i % 3). `order` is the dimension order with
    'time' standing for the pair, stored as (t, r) or, if `flip`, as (r, t)."""
    tl = o.time.values
    idx = pd.MultiIndex.from_arrays([tl // 3, tl % 3], names=("t", "r"))
    o = o.drop_vars("time").assign_coords(xr.Coordinates.from_pandas_multiindex(idx, "time")).unstack("time")
    pair = ("r", "t") if flip else ("t", "r")
    dims = []
    for d in order:
        dims += list(pair) if d == "time" else [d]
    return o.transpose(*[d for d in dims if d in o.dims])


def _user_stacked(o, order):
    """Present the samples as ONE dimension 'run' carrying the MultiIndex (t, r) of time label i = 3 t + r, in whatever
    order the samples are stored (what X.stack(run=("t", "r")) gives the user, up to the order of the elements)."""
    tl = o.time.values
    idx = pd.MultiIndex.from_arrays([tl // 3, tl % 3], names=("t", "r"))
    o = o.drop_vars("time").rename(time="run").assign_coords(xr.Coordinates.from_pandas_multiindex(idx, "run"))
    return o.transpose(*["run" if d == "time" else d for d in order if d == "time" or d in o.dims])


def _samples(o, order, sd, flip=False):
    """Container `o` over (time, ...) in the presentation `sd` of the samples and dimension order `order`."""
    if sd == 0:
        return o.transpose(*order)
    if sd == 3:
        return _user_stacked(o, order)
    return _two_sample_dims(o, order, flip != (sd == 2))  # sd == 2 also stores the pair the other way round


def present(x, y, node, seed):
    ps = sample_perm(PSAM[node["psam"]], seed, x.sizes["time"])
    nlon = x.sizes["lon"]
    plon = list(PLON[node["plon"]]) if nlon == 2 else (list(range(nlon)) if node["plon"] == 0 else list(range(nlon))[::-1])
    x = x.isel(time=ps, lat=list(PLAT[node["plat"]]), lon=plon)
    y = y.isel(time=ps)
    order = ORDERS[node["order"]]
    sp = SPLITS[node["split"]]
    sd = node.get("sdims", 0)
    y = _samples(y, ("time", "station"), sd)
    if sp is None:
        return _samples(x, order, sd), y
    kind, i = sp
    lat_i = float(np.sort(x.lat.values)[i])
    a = x.sel(lat=[lat_i])
    b = x.sel(lat=[l for l in x.lat.values if l != lat_i])
    if kind == "ds":
        # two variables on the shared (time, lat, lon) grid: each is NaN (i.e. fully missing) outside its own latitudes
        ds = xr.Dataset({"v1": b.rename("v1"), "v0": a.rename("v0")} if node.get("vswap") else {"v0": a.rename("v0"), "v1": b.rename("v1")})
        return _samples(ds, order, sd), y
    # with two sample dimensions the two list items store them in different orders
    order_a = ORDERS[node["order_a"]] if "order_a" in node else order
    return [_samples(a, order_a, sd, False), _samples(b.rename("field_b"), order, sd, True)], y


def _samples_back(sc):
    """Scores over (t, r), or over the user's MultiIndex dimension 'run' -> scores over the base 'time' label 3 t + r."""
    if "run" in sc.dims:
        lab = np.asarray(sc["t"].values) * 3 + np.asarray(sc["r"].values)
        return sc.drop_vars(["run", "t", "r"]).rename(run="time").assign_coords(time=lab)
    if "t" not in sc.dims:
        return sc
    st = sc.stack(time=("t", "r"))
    lab = np.asarray(st["t"].values) * 3 + np.asarray(st["r"].values)
    return st.drop_vars(["time", "t", "r"]).assign_coords(time=lab)


def canon_field(obj):
    """Re-assemble components returned for any presentation into a DataArray over (lat, lon, ...)."""
    if isinstance(obj, xr.Dataset):
        v0, v1 = obj["v0"].rename(None), obj["v1"].rename(None)
        if bool((v0.notnull() & v1.notnull()).any()):
            raise ValueError("both Dataset variables carry a value at the same cell")
        return v0.combine_first(v1)
    if isinstance(obj, (list, tuple)):
        return xr.concat([p.rename(None) for p in obj], dim="lat")
    return obj.rename(None)


def build(model, names):
    import xeofs as xe

    sn, fn = NAMES[names]
    kw = dict(sample_name=sn, feature_name=fn, random_state=3)
    aux = None
    if model == "EOF" or model == "EOFRotator" or model == "EOFBootstrapper":
        m = xe.single.EOF(n_modes=3, solver="full", **kw)
    elif model == "EOF_std":
        m = xe.single.EOF(n_modes=3, standardize=True, solver="full", **kw)
    elif model == "MCA_std":
        m = xe.cross.MCA(n_modes=2, standardize=True, use_pca=False, solver="full", **kw)
    elif model == "ComplexEOF":
        m = xe.single.ComplexEOF(n_modes=3, solver="full", **kw)
    elif model == "HilbertEOF":
        m = xe.single.HilbertEOF(n_modes=3, padding=None, solver="full", **kw)
    elif model == "ExtendedEOF":
        m = xe.single.ExtendedEOF(n_modes=3, tau=1, embedding=2, solver="full", **kw)
    elif model == "SparsePCA":
        m = xe.single.SparsePCA(n_modes=2, alpha=1e-2, solver="full", **kw)
    elif model == "POP":
        m = xe.single.POP(n_modes=3, n_pca_modes=3, **kw)
    elif model == "OPA":
        m = xe.single.OPA(n_modes=2, tau_max=2, n_pca_modes=3, solver="full", **kw)
    elif model == "CPCCA":
        m = xe.cross.CPCCA(n_modes=2, alpha=0.5, use_pca=False, solver="full", **kw)
    elif model in ("MCA", "MCARotator"):
        m = xe.cross.MCA(n_modes=2, use_pca=True, n_pca_modes=3, solver="full", **kw)
    elif model == "MCA_allpc":
        m = xe.cross.MCA(n_modes=2, use_pca=True, n_pca_modes="all", solver="full", **kw)
    elif model in ("CPCCA_allpc", "CPCCARotator_allpc"):
        m = xe.cross.CPCCA(n_modes=2, alpha=0.5, use_pca=True, n_pca_modes="all", solver="full", **kw)
    elif model == "RDA_intpc":  # 5 of 6 and 4 of 4 PCs: more than 80 % of the rank
        m = xe.cross.RDA(n_modes=2, use_pca=True, n_pca_modes=(5, 4), solver="full", **kw)
    elif model == "multiCCA":
        m = xe.multi.CCA(n_modes=2, pca=False)
    # ---- on the wide base: an EXACT solver is requested for a truncation (5 of 24 directions) that a sketch would not get right
    elif model == "OPA_wide":
        m = xe.single.OPA(n_modes=2, tau_max=2, n_pca_modes=5, solver="full", **kw)
    elif model == "ExtendedEOF_wide":
        m = xe.single.ExtendedEOF(n_modes=3, tau=1, embedding=2, n_pca_modes=5, solver="full", **kw)
    elif model == "POP_wide":
        m = xe.single.POP(n_modes=4, n_pca_modes=4, solver="full", **kw)
    elif model == "MCA_wide":
        m = xe.cross.MCA(n_modes=2, use_pca=True, n_pca_modes=(5, 3), solver="full", **kw)
    elif model == "CPCCA_wide":
        m = xe.cross.CPCCA(n_modes=2, alpha=0.5, use_pca=True, n_pca_modes=(5, 3), solver="full", **kw)
    if model == "EOFRotator":
        aux = xe.single.EOFRotator(n_modes=3, power=1)
    if model == "MCARotator":
        aux = xe.cross.MCARotator(n_modes=2, power=1)
    if model == "CPCCARotator_allpc":
        aux = xe.cross.CPCCARotator(n_modes=2, power=1)
    if model == "EOFBootstrapper":
        aux = xe.validation.EOFBootstrapper(n_bootstraps=2, seed=11)
    return m, aux


def _weights_for(px, x, seed):
    """User weights over (lat, lon) in the base coordinate order, shaped like the presentation's container."""
    rng = np.random.default_rng([seed, 31])
    W = xr.DataArray(0.5 + rng.random((x.sizes["lat"], x.sizes["lon"])), dims=("lat", "lon"), coords={"lat": x.lat.values, "lon": x.lon.values})
    if isinstance(px, xr.Dataset):
        return xr.Dataset({v: W.sel(lat=np.sort(px[v].dropna("lat", how="all").lat.values)) for v in px.data_vars})
    if isinstance(px, list):
        return [W.sel(lat=np.sort(p.lat.values)) for p in px]
    return W


def fit_and_canon(model, node, seed, spec, weights=False, ragged=False, want_obj=False):
    cplx = model == "ComplexEOF"
    x, y = base_data(seed, spec, cplx, ragged)
    px, py = present(x, y, node, seed)
    m, aux = build(model, node["names"])
    dim = SDIMS[node.get("sdims", 0)]
    W = _weights_for(px, x, seed) if weights else None
    if model in CROSS:
        m.fit(px, py, dim=dim, weights_X=W)
    elif model == "multiCCA":
        m.fit([px, py], dim=dim)
    else:
        m.fit(px, dim=dim, weights=W)
    obj = m
    if aux is not None:
        aux.fit(m)
        obj = aux
    out = {}
    if model in CROSS:
        cx, cy = obj.components()
        sx, sy = obj.scores()
        out["components_x"], out["components_y"] = canon_field(cx), cy.rename(None)
        out["scores_x"], out["scores_y"] = _samples_back(sx.rename(None)), _samples_back(sy.rename(None))
        out["spectrum"] = obj.squared_covariance_fraction().rename(None)
    elif model == "multiCCA":
        c = obj.components()
        s = obj.scores()
        out["components_x"], out["components_y"] = canon_field(c[0]), c[1].rename(None)
        out["scores_x"], out["scores_y"] = _samples_back(s[0].rename(None)), _samples_back(s[1].rename(None))
    else:
        out["components"] = canon_field(obj.components())
        out["scores"] = _samples_back(obj.scores().rename(None))
        if model in ("POP", "POP_wide"):
            out["spectrum"] = obj.eigenvalues().rename(None)
        elif model in ("OPA", "OPA_wide"):
            out["spectrum"] = obj.decorrelation_time().rename(None)
            out["filter_patterns"] = canon_field(obj.filter_patterns())
        else:
            out["spectrum"] = obj.explained_variance().rename(None)
    return (out, obj) if want_obj else out


# ----------------------------------------------------------------------------- second entry point: new data
# A model fitted on presentation P is handed ONE fixed held-out data set (6 samples, time labels 12..17) in the fit layout
# and in every other presentation that is legal for new data of that model; the scores must be the same, label by label.
HELD, HELD_T0 = 6, 12
TRANSFORMS = ["EOF", "ComplexEOF", "SparsePCA", "POP", "EOFRotator", "CPCCA", "MCA", "MCARotator", "multiCCA", "MCA_allpc", "CPCCA_allpc", "RDA_intpc", "CPCCARotator_allpc"]


def held_out(seed, cplx):
    X = D.make_matrix(HELD, 6, "geometric", 1.0, cplx, seed, salt=5)
    Y = D.make_matrix(HELD, 4, "geometric", 1.0, False, seed, salt=6)
    t = np.arange(HELD_T0, HELD_T0 + HELD)
    x = D.da_grid(X, 3, 2, lats=[-50.0, 10.0, 65.0], name="field").assign_coords(time=t)
    y = D.da_2d(Y, "time", "station", fcoord=["a", "b", "c", "d"], name="yfield").assign_coords(time=t)
    return x, y


def new_presentations(P, model):
    """(edge, node) list: the fit layout first, then every presentation of the new data one edge away from it. The
    container kind, the names of the sample dimensions and the model's internal names are fixed by the fit."""
    q0 = dict(P, psam=0)
    out = [("fit_layout", q0)]
    for k in ("order", "plat", "plon"):
        out += [(k, dict(q0, **{k: v})) for v in range(DOMAIN[k]) if v != P[k]]
    if model not in NO_SAMPLE_PERM:
        out += [("psam", dict(q0, psam=v)) for v in (1, 2)]
    if P["sdims"] in (1, 2):  # the two sample dimensions stored the other way round
        out.append(("sample_storage", dict(q0, sdims=3 - P["sdims"])))
    sp = SPLITS[P["split"]]
    if sp is not None and sp[0] == "ds":
        out.append(("variable_order", dict(q0, vswap=1)))
    if sp is not None and sp[0] == "list":
        out += [("item_layout", dict(q0, order_a=v)) for v in ((P["order"] + 1) % len(ORDERS), (P["order"] + 3) % len(ORDERS))]
    return out


def _delta(q, P):
    return {c: v for c, v in q.items() if v != P.get(c, 0) and c != "names"}


def new_scores(model, obj, px, py, full=True):
    """Every way the fitted model maps new data to scores."""
    out = {}
    if model in CROSS:
        sx, sy = obj.transform(X=px, Y=py)
        out["transform_x"], out["transform_y"] = sx, sy
        out["transform_x_only"] = obj.transform(X=px)
        if full:
            out["transform_y_only"] = obj.transform(Y=py)
        out["predict"] = obj.predict(px)
    elif model == "multiCCA":
        s = obj.transform([px, py])
        out["transform_x"], out["transform_y"] = s[0], s[1]
    else:
        out["transform"] = obj.transform(px)
    return {k: _samples_back(v.rename(None)) for k, v in out.items()}


@functools.lru_cache(maxsize=None)
def base_new(model, seed):
    with warnings.catch_warnings():
        warnings.simplefilter("ignore")
        canon, obj = fit_and_canon(model, dict(DEFAULT), seed, "geometric", want_obj=True)
        x, y = held_out(seed, model == "ComplexEOF")
        px, py = present(x, y, dict(DEFAULT), seed)
        return canon, new_scores(model, obj, px, py)


def run_new_data(case, seed):
    model, P = case["model"], case["node"]
    tol = 1e-7 if model in ITERATIVE else 1e-9
    feats = dict(_edge_features(P), weights=False, ragged=False)
    V = []
    with warnings.catch_warnings():
        warnings.simplefilter("ignore")
        ref_canon, ref_new = base_new(model, seed)
        canon, obj = fit_and_canon(model, P, seed, "geometric", want_obj=True)
        x, y = held_out(seed, model == "ComplexEOF")
        res, refused, raised = {}, 0, {}
        for edge, q in new_presentations(P, model):
            px, py = present(x, y, q, seed)
            try:
                got = new_scores(model, obj, px, py, full=edge in ("fit_layout", "psam", "sample_storage"))
            except ValueError as e:
                # documented refusal of Stacker.transform: new data whose feature coordinates are stored in another
                # element order than at fit time are rejected loudly (never mapped to other scores)
                if edge in ("plat", "plon") and "different coordinates than the data used to fit" in str(e):
                    refused += 1
                    continue
                if edge == "fit_layout":
                    raise
                raised.setdefault((edge, type(e).__name__), "new data as %s: %s: %s" % (_delta(q, P), type(e).__name__, str(e)[:160]))
                continue
            except Exception as e:
                if edge == "fit_layout":
                    raise
                raised.setdefault((edge, type(e).__name__), "new data as %s: %s: %s" % (_delta(q, P), type(e).__name__, str(e)[:160]))
                continue
            res.setdefault(edge, []).append((q, got))
    own = res["fit_layout"][0][1]
    # (0) a presentation of the new data that is legal for this model must not be refused
    for (edge, et), msg in raised.items():
        V.append(viol("new_data_presentation_raises", model, "fitted on %s; %s" % (P, msg), new_data=edge, error=et, **feats))
    # (1) the model fitted on P agrees with the base node's model on the held-out data (both in their fit layout)
    for k, a in ref_new.items():
        b = own[k]
        if model in PHASE_FREE:
            b = _align_phase(ref_canon, canon, k, a, b)
        elif model == "POP":
            b = _align_own_phase(a, b)
        ds = O.compare_da(a, b, tol, k, attrs=False, name=False)
        if ds and not _only_sign_ties(a, b, tol):
            V.append(viol("new_data_scores_differ_from_base_model", model, "fitted on %s, new data in the fit layout: %s" % (P, "; ".join(ds[:2])), answer=k, new_data="fit_layout", **feats))
    # (2) ONE fitted model, the same new data in another presentation: no freedom at all
    n = 1
    for edge, lst in res.items():
        if edge == "fit_layout":
            continue
        bad = {}
        for q, got in lst:
            n += 1
            for k, b in got.items():
                ds = O.compare_da(own[k], b, tol, k, attrs=False, name=False)
                if ds:
                    bad.setdefault(k, "new data as %s: %s" % (_delta(q, P), ds[0]))
        for k, msg in bad.items():
            V.append(viol("new_data_presentation_dependent", model, "fitted on %s; %s" % (P, msg), answer=k, new_data=edge, **feats))
    return dict(violations=V, outcome="violation" if V else "ok", nontrivial=not V, states=n, transitions=n - 1 + ndepth(P), traces=n, info=dict(depth=ndepth(P), sdims=P["sdims"], ragged=False, model=model, entry="new_data", compared=n - 1, refused_presentations=refused, edges=sorted(res)))


@functools.lru_cache(maxsize=None)
def base_canon(model, seed, spec, weights=False, ragged=False):
    with warnings.catch_warnings():
        warnings.simplefilter("ignore")
        return fit_and_canon(model, dict(DEFAULT), seed, spec, weights, ragged)


def applicable(model, node):
    if model in NO_SAMPLE_PERM and (node["psam"] != 0 or node["sdims"] == 2):
        return False  # naming the sample dimensions in the other order stacks the samples in another order
    if model == "multiCCA" and (node["split"] != 0 or node["names"] != 0):
        return False  # multi.CCA takes one DataArray per view and exposes no internal names
    return True


def cases(tier, seed):
    depth = 2 if tier == "quick" else 3
    out = []
    for n in nodes(depth):
        for m in MODELS:
            if applicable(m, n) and (m not in SHALLOW or ndepth(n) < depth):
                out.append(dict(node=n, model=m, spec="geometric"))
    # the same graph (depth 1 quick / 2 thorough) with labelled user weights in the base order
    for n in nodes(1 if tier == "quick" else 2):
        for m in ("EOF", "SparsePCA", "MCA", "EOFRotator"):
            if applicable(m, n):
                out.append(dict(node=n, model=m, spec="geometric", weights=True))
    # the same graph on the ragged base (fully missing samples spread unevenly over the two sample dimensions): every model
    # class at depth 1 (quick) / 2; one single-set and one cross-set class one level deeper along the edges that change
    # the presentation of the samples
    d = 1 if tier == "quick" else 2
    for n in nodes(d + 1):
        for m in MODELS + RAGGED_EXTRA:
            if applicable(m, n) and (ndepth(n) <= d or (m in ("EOF", "MCA_allpc") and n["sdims"] != 0)):
                out.append(dict(node=n, model=m, spec="geometric", ragged=True))
    # second entry point: the model fitted on every node of depth <= 1 (quick) / 2 is handed held-out data in the fit layout
    # and in every presentation one edge away from it
    for n in nodes(1 if tier == "quick" else 2):
        for m in TRANSFORMS:
            if applicable(m, n):
                out.append(dict(node=n, model=m, spec="geometric", entry="new_data"))
    # the wide base (24 features, slowly decaying spectrum): models asked for an exact solver whose inner truncation keeps 5 of
    # 24 directions - if the request gets lost on the way to an inner model, a sketch decides and the result depends on layout
    for n in nodes(1 if tier == "quick" else 2):
        if n["sdims"] != 0:
            continue
        for m in WIDE_MODELS:
            if applicable(m, n):
                out.append(dict(node=n, model=m, spec=WIDE))
    # fields in very different units, standardised: depth 1 (quick) / 2
    for n in nodes(1 if tier == "quick" else 2):
        for m in UNITS_MODELS:
            if applicable(m, n):
                out.append(dict(node=n, model=m, spec=UNITS))
    # degenerate spectrum: projector comparison, EOF only, depth 1 (quick) / 2
    for n in nodes(1 if tier == "quick" else 2):
        out.append(dict(node=n, model="EOF", spec="flat_pair"))
    return out


def _edge_features(node):
    return dict(changed="+".join(k for k in DEFAULT if node.get(k, 0) != 0) or "none", split=(SPLITS[node["split"]] or ["none"])[0], names_default=node["names"] == 0)


def run_case(case, seed):
    if case.get("entry") == "new_data":
        return run_new_data(case, seed)
    model, node, spec = case["model"], case["node"], case["spec"]
    V = []
    feats = _edge_features(node)
    tol = 1e-7 if model in ITERATIVE else 1e-9
    with warnings.catch_warnings():
        warnings.simplefilter("ignore")
        ref = base_canon(model, seed, spec, bool(case.get("weights")), bool(case.get("ragged")))
        got = fit_and_canon(model, node, seed, spec, bool(case.get("weights")), bool(case.get("ragged")))
    for k in ref:
        a, b = ref[k], got[k]
        if spec == "flat_pair" and k in ("components", "scores"):
            ds = _cmp_projector(a, b, k)
        else:
            if model in PHASE_FREE and k != "spectrum":
                b = _align_phase(ref, got, k, a, b)
            elif model in ("POP", "POP_wide") and k != "spectrum":
                b = _align_own_phase(a, b)
            ds = O.compare_da(a, b, tol, k, attrs=False, name=False)
            if ds and _only_sign_ties(a, b, tol):
                ds = []
        if ds:
            so = bool("mode" in a.dims and not O.compare_da(abs(a), abs(b), tol, k, attrs=False, name=False))
            extra = {}
            if spec == WIDE:  # size class of the deviation: a sketch-level difference (< 1e-2) or a gross one (wrong label, wrong sign)
                import re

                errs = [float(x) for d_ in ds for x in re.findall(r"max rel err ([0-9.eE+-]+)", d_)]
                extra["deviation"] = "below_1e-2" if errs and max(errs) < 1e-2 and len(errs) == len(ds) else "gross"
            V.append(viol("presentation_dependent", model, "node %s%s%s: %s" % (node, " with weights" if case.get("weights") else "", " on the ragged base" if case.get("ragged") else "", "; ".join(ds[:2])), answer=k.split("_")[0], magnitudes_equal=so, weights=bool(case.get("weights")), ragged=bool(case.get("ragged")), **feats, **extra))
    return dict(violations=V, outcome="violation" if V else "ok", nontrivial=not V, states=1, transitions=ndepth(node), traces=1, info=dict(depth=ndepth(node), sdims=node["sdims"], ragged=bool(case.get("ragged")), model=model))


PHASE_FREE = {"ComplexEOF", "HilbertEOF"}


def _align_phase(ref, got, k, a, b):
    """Complex SVD modes are defined up to a unit phase per mode and no convention of xeofs fixes it (the sign
    convention the properties name is for real data). Rotate each mode of the node's result by the phase that best
    matches the base node's SCORES; the same phase is applied to components (conjugated), so the pair stays consistent."""
    sa, sb = ref["scores"], got["scores"]
    try:
        sb2 = sb.reindex_like(sa).transpose(*sa.dims)
    except Exception:
        return b
    other = [d for d in sa.dims if d != "mode"]
    ip = (sa.conj() * sb2).sum(other)  # <a, b> per mode
    ph = ip / abs(ip).where(abs(ip) > 0, 1.0)
    ph = ph.where(abs(ip) > 0, 1.0)
    # X = S V^H is unchanged by S -> S e^{it}, V -> V e^{it}: scores and components carry the same phase
    return b * ph.conj()


def _align_own_phase(a, b):
    """POP patterns are eigenvectors from a general eigen-solver: each is defined up to a (complex) unit factor and no
    convention of xeofs fixes it; patterns and coefficient series carry opposite factors. Each quantity is aligned by the
    unit factor per mode that best matches the base node's."""
    if "mode" not in a.dims or set(a.dims) != set(b.dims):
        return b
    try:
        b2 = b.reindex_like(a).transpose(*a.dims)
    except Exception:
        return b
    other = [d for d in a.dims if d != "mode"]
    ip = (b2.conj() * a).sum(other)
    ph = (ip / abs(ip).where(abs(ip) > 0, 1.0)).where(abs(ip) > 0, 1.0)
    return b2 * ph


def _only_sign_ties(a, b, tol):
    """DESIGN 4.4: if the two largest magnitudes of a mode's loadings tie, either sign is acceptable. Here only the
    whole-mode sign flip of such a mode is forgiven, and only for component-like arrays with a 'mode' dimension."""
    if "mode" not in a.dims or set(a.dims) != set(b.dims):
        return False
    try:
        b2 = b.reindex_like(a).transpose(*a.dims)
    except Exception:
        return False
    ok = True
    for mo in a.mode.values:
        va, vb = np.asarray(a.sel(mode=mo).values).ravel(), np.asarray(b2.sel(mode=mo).values).ravel()
        sc = max(np.abs(va).max(), 1e-300)
        if np.abs(va - vb).max() / sc <= tol:
            continue
        mags = np.sort(np.abs(va))[::-1]
        tie = len(mags) > 1 and (mags[0] - mags[1]) / sc < 1e-6
        if tie and np.abs(va + vb).max() / sc <= tol:
            continue
        ok = False
    return ok


def _cmp_projector(a, b, what):
    """Degenerate pair: compare the projector on the span of the first two modes and the remaining modes individually."""
    if set(a.dims) != set(b.dims):
        return ["%s: dims differ" % what]
    b = b.reindex_like(a).transpose(*a.dims)
    other = [d for d in a.dims if d != "mode"]
    A = a.stack(z=other).transpose("z", "mode").values
    B = b.stack(z=other).transpose("z", "mode").values

    def proj(M):
        Q, _ = np.linalg.qr(M[:, :2])
        return Q @ Q.conj().T

    out = []
    e = np.abs(proj(A) - proj(B)).max()
    if not e <= 1e-8:
        out.append("%s: projector on the degenerate pair differs by %.2e" % (what, e))
    if A.shape[1] > 2:
        e = np.abs(A[:, 2:] - B[:, 2:]).max() / max(np.abs(A).max(), 1e-300)
        if not e <= 1e-8:
            out.append("%s: non-degenerate modes differ by %.2e" % (what, e))
    return out


def _hashseed_edge(seed):
    """Environment edge of the thorough tier: string hashing order (set(dims) & set(...) in xeofs) must not matter.
    The quick graph is re-explored in fresh interpreters with PYTHONHASHSEED = 1, 2 (this process runs with 0)."""
    import os
    import subprocess
    import tempfile

    out = []
    if os.environ.get("XMC_NO_HASHSWEEP"):
        return out, []
    here = os.path.dirname(os.path.dirname(os.path.dirname(os.path.abspath(__file__))))
    ran = []
    for h in ("1", "2"):
        with tempfile.TemporaryDirectory() as td:
            env = dict(os.environ, PYTHONHASHSEED=h, XMC_NO_HASHSWEEP="1", XMC_EVIDENCE_DIR=td, XMC_REPLAY_DIR=os.path.join(td, "rp"), VERIF_SEED=str(seed), XMC_SUMMARY="1")
            p = subprocess.run([os.path.join(here, "check"), "C07", "quick"], env=env, capture_output=True, text=True)
            ran.append(dict(PYTHONHASHSEED=int(h), exit=p.returncode))
            if p.returncode != 0:
                sigs = [l for l in p.stdout.splitlines() if l.startswith("SUMMARY")][:3]
                out.append(viol("hashseed_dependent", "any", "PYTHONHASHSEED=%s: quick graph exits %d: %s" % (h, p.returncode, " | ".join(sigs)), hashseed=int(h)))
    return out, ran


def finalize(cases, results, tier, seed):
    nd = {tuple(sorted(c["node"].items())) for c in cases}
    if tier == "thorough":
        hv, ran = _hashseed_edge(seed)
        return hv, dict(hashseed_edge=ran, presentation_nodes=len(nd), depth_completed=max(ndepth(c["node"]) for c in cases), model_classes=len(MODELS))
    return [], dict(presentation_nodes=len(nd), depth_completed=max(ndepth(c["node"]) for c in cases), model_classes=len(MODELS))


def vacuity(outcomes, results, tier):
    if len({r.get("info", {}).get("depth") for r in results}) < 2:
        return "presentation graph had one node"
    for rg in (False, True):
        seen = {r.get("info", {}).get("sdims") for r in results if r.get("info", {}).get("ragged") == rg}
        if seen != set(range(len(SDIMS))):
            return "%s base: sample presentations compared were %s, not all of %s" % ("ragged" if rg else "plain", sorted(seen, key=str), SDIMS)
    edges = set()
    for r in results:
        if r.get("info", {}).get("entry") == "new_data":
            edges |= set(r["info"].get("edges", []))
    want = {"fit_layout", "order", "psam", "sample_storage", "variable_order", "item_layout"}
    if not want <= edges:
        return "new data was never presented as %s" % sorted(want - edges)
    exact = {r.get("info", {}).get("model") for r in results} & {"MCA_allpc", "CPCCA_allpc", "RDA_intpc", "CPCCARotator_allpc"}
    if len(exact) < 4:
        return "cross-set configurations with an exactly solved PCA pre-reduction compared: only %s" % sorted(exact)
    return None
