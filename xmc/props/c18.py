"""C18 — POP modes are eigen-pairs of the lag-1 feedback matrix. Explorer P.

Reference (numpy/scipy only): the preprocessed n x p matrix M is reduced to its leading k right singular
vectors V_k (own SVD), Z = M V_k, and the feedback matrix is formed in *feature space*,
A_f = V_k [C1 C0^-1] V_k^T.  A_f depends only on span(V_k), not on the signs/basis of the PCs, so nothing of
xeofs' PCA (sign flipping, solver) enters the oracle, and returned patterns are tested as they are returned
(label-keyed, feature space).

The eigen-relation A p = lambda p is invariant under a change of units of the retained series (z -> D^-1 z,
A -> D^-1 A D, p -> D^-1 p).  The residual is therefore evaluated in equilibrated coordinates (every retained
series scaled to unit norm), so that variables / PCs of very different amplitude (the `units` dimension of the
alphabet: a lag-0 covariance whose variances differ by up to 1e10) all take part in the comparison instead of
being drowned by the largest one, and the conditioning that enters the tolerance is the unit-free one.
"""

from __future__ import annotations

import itertools
import warnings

import numpy as np

from .. import data as D
from .. import ref as R
from ..core import viol

ID = "C18"
LEVEL = "exploration"
TECHNIQUE = (
    "bounded exhaustive enumeration (time series class x PCA setting x preprocessing flags) of real POP fits against "
    "an independent numpy reference of the lag-1 feedback matrix built in feature space"
)
RULE = (
    "full product of data class (catalogue random series; damped oscillators |lambda| in {0.7,0.9} x arg in {0.3,0.5,1.2} plus a real "
    "decaying mode, mixed into 3/5/6 features, noise-free and 1% noise; growing oscillators |lambda| in {1.01,1.05}, noise-free) x (use_pca=False | use_pca=True x n_pca_modes in {2,3,4,'all'}) "
    "x center x standardize (thorough: x use_coslat x weights, more series) x provenance of the model object (fresh | transform called before | "
    "refitted on another series after a transform | refitted on the same series after a transform; on the random series and a subset of the oscillators; quick: standardize=False there) x units (variables with index >= 2 multiplied by 1, 1e-3 or 1e-5 after "
    "the series is built: an ill-scaled lag-0 covariance; quick: units != 1 on the random series and on the noise-free oscillators r in {0.9,1.01}, arg 0.5, "
    "p in {3,5} plus one noisy one; thorough: on every series, default coslat/weights); a case is non-trivial when the fit returned and the eigen-relation, "
    "pairing, period/damping formulae, ordering and transform=scores clauses were all evaluated on >= 2 modes; cases whose lag-0 covariance is "
    "singular in the reference (more PCs than the rank of a noise-free series) or whose PCA cut falls inside a degenerate cluster are outside "
    "the quantifier and tallied as skipped"
)
ASSUMPTIONS = [
    "the series catalogue (fixed spectra / closed-form oscillators with mixing matrices and noise drawn from VERIF_SEED) stands for 'all time-ordered inputs'",
    "numpy.linalg.svd / eig / solve are correct",
    "the statement does not fix the covariance estimator: the eigen-relation is accepted under least squares (both sums over the N-1 pairs), "
    "lag-0 covariance over all N samples (equal normalisers, per-term means, or ddof=1 normalisers) and segment-centred covariances; one convention must fit all modes of a fit",
    "negative real eigenvalues: period 2 (formula) and inf (parenthetical of the statement) are both accepted",
    "a change of units of some variables (x 1e-3, x 1e-5) leaves the statement untouched; residuals are measured in equilibrated coordinates of the retained series",
    "provenance: the whole oracle is evaluated on the state after the last fit; whether unrelated answers depend on history is C14, deferred fits are C12",
    "n_pca_modes given as a float (variance fraction) is not enumerated: the number of PCs it selects belongs to C15/C16; solver_kwargs is never passed (C15)",
]
TALLY_KEYS = ("kind", "prov", "layout", "r", "units", "use_pca", "n_pca_modes", "noise", "center", "standardize")
TRUSTED = ["statsmodels import shim not used here"]

GRID = {3: (3, 1), 4: (2, 2), 5: (5, 1), 6: (3, 2)}
LATS = {2: [-30.0, 50.0], 3: [-60.0, 10.0, 75.0], 5: [-70.0, -35.0, 5.0, 40.0, 65.0]}
RHO = 0.8  # the real decaying mode
N_OSC = 40
D_STATE = 3


# ----------------------------------------------------------------------------- alphabet


def _datasets(tier):
    ds = []
    if tier == "quick":
        rnd = [(20, 4, "geometric"), (30, 5, "near_equal_var")]
    else:
        rnd = [(n, p, s) for (n, p) in ((20, 4), (30, 5), (12, 6), (25, 3)) for s in ("geometric", "near_equal_var", "flat_pair", "clustered")]
    for n, p, s in rnd:
        ds.append(dict(kind="random", shape=[n, p], spec=s, noise=None, r=None, theta=None))
    ns = [N_OSC] if tier == "quick" else [N_OSC, 25]
    for n in ns:
        for r in (0.7, 0.9, 1.01, 1.05):  # |lambda| > 1: growing oscillation (negative damping time), noise-free only
            for th in (0.3, 0.5, 1.2):
                for p in (3, 5, 6):
                    for noise in ((0.0, 0.01) if r < 1 else (0.0,)):
                        ds.append(dict(kind="osc", shape=[n, p], spec=None, noise=noise, r=r, theta=th))
    return ds


UNITS = (1e-3, 1e-5)  # besides 1.0: amplitude of the variables with index >= 2 relative to the first two


def _ill_scaled_subset(ds, tier):
    """Which series also get the units != 1 presentations."""
    if tier != "quick":
        return True
    if ds["kind"] == "random":
        return True
    if ds["theta"] != 0.5 or ds["shape"][1] not in (3, 5):
        return False
    return (ds["r"] in (0.9, 1.01) and not ds["noise"]) or (ds["r"] == 0.9 and ds["shape"][1] == 3)


# history of the POP object before the observations are taken:
#   fresh            POP(); fit(A)
#   transform_before POP(); fit(A); transform(A)
#   refit_other      POP(); fit(B); transform(B); fit(A)          (B: another series of the same class, same labels)
#   refit_same       POP(); fit(A); transform(A); fit(A)
PROVENANCE = ("fresh", "transform_before", "refit_other", "refit_same")


def _history_subset(ds, tier):
    """Which series are also observed on a model object with a history."""
    if ds["kind"] == "random":
        return True
    if tier != "quick":
        return ds["shape"][0] == N_OSC
    return ds["r"] == 0.9 and ds["theta"] == 0.5 and ((ds["shape"][1] == 5 and ds["noise"]) or (ds["shape"][1] == 3 and not ds["noise"]))


def cases(tier, seed):
    out = []
    flags = list(itertools.product([True, False], [False, True]))  # center, standardize
    extra = [(False, False)] if tier == "quick" else list(itertools.product([False, True], [False, True]))  # coslat, weights
    for units in (1.0,) + UNITS:
        for ds in _datasets(tier):
            if units != 1.0 and not _ill_scaled_subset(ds, tier):
                continue
            p = ds["shape"][1]
            pcas = [(False, None)] + [(True, k) for k in (2, 3, 4) if k <= p] + [(True, "all")]
            for use_pca, k in pcas:
                for c, s in flags:
                    for cl, w in extra if units == 1.0 else [(False, False)]:
                        out.append(dict(model="POP", use_pca=use_pca, n_pca_modes=k, center=c, standardize=s, coslat=cl, weights=w, units=units, **ds))
    # the whole field in tiny / huge physical units (a global factor; un-standardised and standardised): nothing stated depends on it
    for gunit in ((1e-10, 1e-6, 1e8) if tier == "quick" else (1e-12, 1e-10, 1e-8, 1e-6, 1e-4, 1e8)):
        for ds in _datasets(tier):
            if not _ill_scaled_subset(ds, tier):
                continue
            p = ds["shape"][1]
            for use_pca, k in [(False, None), (True, min(3, p)), (True, "all")]:
                for c, s in flags:
                    out.append(dict(model="POP", use_pca=use_pca, n_pca_modes=k, center=c, standardize=s, coslat=False, weights=False, units=1.0, gunit=gunit, **ds))
    # provenance of the model object the clauses are evaluated on (units 1, default coslat/weights)
    for prov in PROVENANCE[1:]:
        for ds in _datasets(tier):
            if not _history_subset(ds, tier):
                continue
            p = ds["shape"][1]
            pcas = [(False, None)] + [(True, k) for k in (2, 3, 4) if k <= p] + [(True, "all")]
            for use_pca, k in pcas:
                for c, s in flags:
                    if tier == "quick" and s:
                        continue  # quick: histories with standardize=False only
                    out.append(dict(model="POP", use_pca=use_pca, n_pca_modes=k, center=c, standardize=s, coslat=False, weights=False, units=1.0, prov=prov, **ds))
    # the time axis given as TWO sample dimensions dim=("yr", "mo") (chronological order = yr-major, as the dim argument says),
    # stored in that order, transposed, or behind the feature dims: the storage order must not decide which sample follows which
    for layout in LAYOUTS[1:]:
        for ds in _datasets(tier):
            if not _history_subset(ds, tier) or ds["shape"][0] % 5:
                continue
            p = ds["shape"][1]
            for use_pca, k in ([(False, None), (True, 2)] if tier == "quick" else [(False, None)] + [(True, k) for k in (2, 3, 4) if k <= p] + [(True, "all")]):
                for c, s in flags:
                    if tier == "quick" and s:
                        continue
                    out.append(dict(model="POP", use_pca=use_pca, n_pca_modes=k, center=c, standardize=s, coslat=False, weights=False, units=1.0, layout=layout, **ds))
    # simplest first: fresh model, natural units, fewer PCs, default flags
    return out


LAYOUTS = ("time", "yr_mo", "mo_yr", "space_mo_yr")


def lay(da, layout):
    """(time, lat, lon) -> the same series with time split into (yr, mo), yr-major, stored in the layout's order; -> (obj, dim)"""
    import pandas as pd

    if layout == "time":
        return da, "time"
    n = da.sizes["time"]
    na, nb = n // 5, 5
    mi = pd.MultiIndex.from_product([np.arange(na) + 1990, np.arange(nb) + 1], names=("yr", "mo"))
    o = da.assign_coords(xr_coords_from_mi(mi)).unstack("time")
    order = {"yr_mo": ("yr", "mo", "lat", "lon"), "mo_yr": ("mo", "yr", "lat", "lon"), "space_mo_yr": ("lat", "lon", "mo", "yr")}[layout]
    return o.transpose(*order), ("yr", "mo")


def xr_coords_from_mi(mi):
    import xarray as xr

    return xr.Coordinates.from_pandas_multiindex(mi, "time")


def unlay(obj, layout, time):
    """coefficient series with dims (yr, mo, mode) -> (time, mode) in chronological (yr-major) order under the plain labels"""
    if layout == "time":
        return obj
    if not {"yr", "mo"} <= set(obj.dims):
        raise D.LabelError("result has dims %s, expected the sample dims ('yr', 'mo')" % (tuple(obj.dims),))
    o = obj.transpose("yr", "mo", ...).sortby(["yr", "mo"]).stack(time=("yr", "mo"))
    return o.drop_vars(["time", "yr", "mo"]).assign_coords(time=time)


# ----------------------------------------------------------------------------- inputs


def true_eigs(case):
    r, th = case["r"], case["theta"]
    return np.array([r * np.exp(1j * th), r * np.exp(-1j * th), RHO + 0j])


def build_matrix(case, seed):
    n, p = case["shape"]
    if case["kind"] == "random":
        return D.make_matrix(n, p, case["spec"], 1.0, False, seed, salt=18)
    r, th = case["r"], case["theta"]
    rng = np.random.default_rng([int(seed), 18, n, p, int(round(r * 100)), int(round(th * 10))])
    Q = rng.standard_normal((p, D_STATE))
    Q, _ = np.linalg.qr(Q)  # well-conditioned mixing
    Q = Q * (1.0 + rng.random(D_STATE))[None, :]
    t = np.arange(n, dtype=float)
    x = np.stack([r**t * np.cos(th * t), r**t * np.sin(th * t), 0.7 * RHO**t], axis=1)  # closed-form trajectory of x_{t+1} = B x_t
    X = x @ Q.T
    if case["noise"]:
        X = X + case["noise"] * X.std() * rng.standard_normal(X.shape)
    return X


def build_input(case, seed, other=False):
    """other=True: series B of the same class and labels (another draw of the orthogonal factors / mixing matrix)."""
    import xarray as xr

    X = build_matrix(case, seed + 7919 if other else seed)
    n, p = X.shape
    if case.get("units", 1.0) != 1.0:  # change of units of the variables with index >= 2 (exact: eigenvalues of C1 C0^-1 do not depend on it)
        u = np.ones(p)
        u[2:] = case["units"]
        X = X * u[None, :]
    X = X * float(case.get("gunit", 1.0))
    nlat, nlon = GRID[p]
    lats = LATS[nlat]
    da = D.da_grid(X, nlat, nlon, lats=lats)
    wvec = wda = None
    if case["weights"]:
        rng = np.random.default_rng([int(seed), 77, p])
        wvec = 0.5 + rng.random(p) * 2.0  # the same weights for series A and B
        wda = xr.DataArray(wvec.reshape(nlat, nlon), dims=("lat", "lon"), coords={"lat": da.lat, "lon": da.lon})
    cl = np.repeat(R.sqrt_coslat(lats), nlon) if case["coslat"] else None
    return X, da, wda, wvec, cl


# ----------------------------------------------------------------------------- reference


def feedback_variants(Z):
    """All accepted estimators of C1 C0^-1 on the n x k series Z (rows in time order). name -> k x k matrix,
    and the condition number of the least-squares lag-0 matrix of Z."""
    N = Z.shape[0]
    Z0, Z1 = Z[:-1], Z[1:]
    S1 = Z1.T @ Z0  # sum_t z_{t+1} z_t^T
    S00 = Z0.T @ Z0
    S0 = Z.T @ Z
    out = {}
    out["ls"] = np.linalg.solve(S00.T, S1.T).T
    full = np.linalg.solve(S0.T, S1.T).T
    out["all_same_norm"] = full
    out["all_term_means"] = full * (N / (N - 1.0))
    out["all_ddof1"] = full * ((N - 1.0) / (N - 2.0))
    Z0c, Z1c = Z0 - Z0.mean(0), Z1 - Z1.mean(0)
    S00c = Z0c.T @ Z0c
    if np.linalg.cond(S00c) < 1e12:
        out["segment_centred"] = np.linalg.solve(S00c.T, (Z1c.T @ Z0c).T).T
    return out, float(np.linalg.cond(S00))


def reference(case, M):
    """-> dict(k, Vk, Uk, s, d, variants{name: A in equilibrated PC coordinates}, cond, raw_cond) or a skip reason (str)."""
    n, p = M.shape
    U, s, V = R.svd(M)
    gap = 1.0
    if case["use_pca"]:
        k = p if case["n_pca_modes"] == "all" else int(case["n_pca_modes"])
        Vk = V[:, :k]
    else:
        k = p
        Vk = np.eye(p)
    if k > len(s) or s[k - 1] <= 1e-7 * s[0]:
        return "singular_c0"
    if case["use_pca"] and k < min(n, p):
        gap = (s[k - 1] - s[k]) / s[0]
        if gap < 1e-6:
            return "pca_cut_in_cluster"
    Z = M @ Vk
    d = np.linalg.norm(Z, axis=0)  # units of the retained series
    if not np.all(d > 0):
        return "singular_c0"
    var, cond = feedback_variants(Z / d[None, :])  # unit-free: A_s = D^-1 A D
    if not np.isfinite(cond) or cond > 1e10:
        return "singular_c0"
    raw_cond = float(np.linalg.cond(Z[:-1].T @ Z[:-1]))
    weak = float(s[0] / s[k - 1])  # the weakest retained PC carries eps * weak relative rounding error from any SVD
    return dict(k=k, Vk=Vk, Uk=U[:, :k], s=s, Z=Z, d=d, cond=cond, raw_cond=raw_cond, weak=weak, gap=gap, variants=var)


def _match(a, b):
    """max distance under the best one-to-one matching of two equally long complex lists."""
    from scipy.optimize import linear_sum_assignment

    C = np.abs(np.asarray(a)[:, None] - np.asarray(b)[None, :])
    i, j = linear_sum_assignment(C)
    return float(C[i, j].max()), j


# ----------------------------------------------------------------------------- one case


def run_case(case, seed):
    import xeofs as xe

    X, da, wda, wvec, cl = build_input(case, seed)
    n, p = X.shape
    M = R.preprocess(X, case["center"], case["standardize"], cl, wvec)
    ref = reference(case, M)
    if isinstance(ref, str):
        return dict(outcome="skipped:" + ref, nontrivial=False)
    k = ref["k"]

    kw = dict(center=case["center"], standardize=case["standardize"], use_coslat=case["coslat"], use_pca=case["use_pca"], random_state=5)
    if case["use_pca"]:
        kw["n_pca_modes"] = case["n_pca_modes"]
    m = xe.single.POP(**kw)
    feats = dict(use_pca=case["use_pca"], kind=case["kind"])
    if case.get("units", 1.0) != 1.0:
        feats["rescaled_variables"] = True
    prov = case.get("prov", "fresh")
    if prov != "fresh":
        feats["provenance"] = prov
    layout = case.get("layout", "time")
    if layout != "time":
        feats["two_sample_dims"] = layout
    da_time = da
    da, fdim = lay(da, layout)
    V = []

    def bad(check, msg, **extra):
        V.append(viol(check, "POP", msg, **feats, **extra))

    with warnings.catch_warnings():
        warnings.simplefilter("ignore")
        first = None
        if prov == "refit_other":
            _, da_b, wda_b, _, _ = build_input(case, seed, other=True)
            m.fit(da_b, dim="time", weights=wda_b)
            first = m.transform(da_b)
        elif prov == "refit_same":
            m.fit(da, dim="time", weights=wda)
            first = m.transform(da)
        m.fit(da, dim=fdim, weights=wda)
        if prov == "transform_before":
            first = m.transform(da)
        comps = m.components()
        lam_da = m.eigenvalues()
        T_da = m.periods()
        tau_da = m.damping_times()
        scores = unlay(m.scores(), layout, da_time.time.values)
        tr = unlay(m.transform(da), layout, da_time.time.values)
        Zin = m.data["input_data"]
    da = da_time

    modes = np.arange(1, k + 1)
    lab = {"time": da.time.values, "lat": da.lat.values, "lon": da.lon.values, "mode": modes}
    P = D.to_matrix(comps, ["lat", "lon"], ["mode"], lab).astype(complex)  # p x k
    S = D.to_matrix(scores, ["time"], ["mode"], lab).astype(complex)  # n x k
    St = D.to_matrix(tr, ["time"], ["mode"], lab).astype(complex)
    for nm, o in (("eigenvalues", lam_da), ("periods", T_da), ("damping_times", tau_da)):
        if set(o.dims) != {"mode"} or sorted(o.mode.values.tolist()) != modes.tolist():
            bad("labels", "%s() has dims %s / modes %s, expected modes 1..%d" % (nm, o.dims, o.mode.values.tolist()[:8], k))
            return dict(violations=V, outcome="violation")
    lam = np.asarray(lam_da.sel(mode=modes).values).astype(complex)
    T = np.asarray(T_da.sel(mode=modes).values)
    tau = np.asarray(tau_da.sel(mode=modes).values)

    # ---------------- the PCA-reduced series the model worked on spans the leading-k PC space, in time order
    Zm = np.asarray(Zin.values)
    if Zin.dims[0] != "sample":
        Zm = Zm.T
    if Zm.shape != (n, k):
        bad("pca_reduced_data", "input_data has shape %s, expected (%d, %d)" % (Zm.shape, n, k))
    else:
        Uk = ref["Uk"]
        e1 = np.linalg.norm(Zm - Uk @ (Uk.T @ Zm)) / max(np.linalg.norm(Zm), 1e-300)
        sz = np.linalg.svd(Zm, compute_uv=False)
        e2 = np.abs(sz - ref["s"][:k]).max() / ref["s"][0]
        if not (e1 <= 1e-8 and e2 <= 1e-8):
            bad("pca_reduced_data", "input_data is not the projection on the leading %d PCs: off-subspace %.2e, singular values off by %.2e" % (k, e1, e2))

    # ---------------- (a) eigen-relation in feature space, against the independent feedback matrix
    # digits necessarily lost to inv(C0) (unit-free conditioning), to the PC-subspace gap and to the weakest retained PC
    tol = max(1e-9, 1e-13 * ref["cond"], 1e-14 / ref["gap"], 1e-14 * ref["weak"] * np.sqrt(ref["cond"]) if case["use_pca"] else 0.0)
    pn = np.linalg.norm(P, axis=0)
    if not np.all(np.isfinite(P)) or not np.all(np.isfinite(lam)) or np.any(pn <= 1e-12 * max(pn.max(), 1e-300)):
        bad("pattern_degenerate", "zero or non-finite pattern / eigenvalue: norms %s, eigenvalues %s" % (pn, lam))
        return dict(violations=V, outcome="violation")
    Vk = ref["Vk"]
    off = np.linalg.norm(P - Vk @ (Vk.T @ P), axis=0) / pn
    if off.max() > 1e-8:
        bad("pattern_in_pc_space", "patterns leave the span of the retained PCs: relative off-subspace parts %s" % off)
    Ps = (Vk.T @ P) / ref["d"][:, None]  # the returned patterns in equilibrated PC coordinates
    psn = np.linalg.norm(Ps, axis=0)
    if np.any(psn <= 1e-300):
        bad("pattern_degenerate", "pattern without a component in the retained PC space: %s" % psn)
        return dict(violations=V, outcome="violation")
    best = None
    for nm, A in ref["variants"].items():
        an = max(np.linalg.norm(A, 2), 1e-300)
        res = np.linalg.norm(A @ Ps - Ps * lam[None, :], axis=0) / (an * psn)
        if best is None or res.max() < best[1].max():
            best = (nm, res, A)
    conv, res, A = best
    if not res.max() <= tol:
        bad("eigen_relation", "|A p - lambda p|/(|A||p|) = %s under the best-fitting estimator (%s), tol %.1e; lambda=%s" % (np.round(res, 6), conv, tol, np.round(lam, 4)))
    else:
        mu = np.linalg.eigvals(A)
        dist, _ = _match(lam, mu)
        if not dist <= max(1e-6, 1e3 * tol) * max(1.0, np.abs(mu).max()):
            bad("spectrum_complete", "returned eigenvalues %s are not the spectrum of A %s (matching distance %.2e)" % (np.round(lam, 5), np.round(mu, 5), dist))

    # ---------------- (b) conjugate pairs
    lmax = max(np.abs(lam).max(), 1e-300)
    cplx = [i for i in range(k) if abs(lam[i].imag) > 1e-9 * lmax]
    used = set()
    for i in cplx:
        if i in used:
            continue
        cand = [j for j in cplx if j != i and j not in used and abs(lam[j] - np.conj(lam[i])) <= 1e-9 * lmax]
        ok = [j for j in cand if np.linalg.norm(P[:, j] - np.conj(P[:, i])) <= 1e-8 * pn[i]]
        if not cand:
            bad("conjugate_pairs", "eigenvalue %s of mode %d has no conjugate partner among %s" % (lam[i], i + 1, np.round(lam, 6)), part="eigenvalue")
            break
        if not ok:
            bad("conjugate_pairs", "modes %d and %d have conjugate eigenvalues but their patterns are not conjugates" % (i + 1, cand[0] + 1), part="pattern")
            break
        used.update((i, ok[0]))

    # ---------------- (c) damping time and period formulae, evaluated on the model's own eigenvalues
    with np.errstate(all="ignore"):
        if np.iscomplexobj(tau) and np.abs(np.asarray(tau).imag).max() > 0:
            bad("damping_formula", "damping times are complex: %s" % tau)
        else:
            tau_r = np.asarray(tau).real.astype(float)
            la = np.log(np.abs(lam))
            e = np.abs(1.0 / tau_r + la)
            e_rel = np.where(np.abs(la) > 1e-6, np.abs(tau_r + 1.0 / la) * np.abs(la), 0.0)
            if not (np.all(e <= 1e-9 * np.maximum(1.0, np.abs(la))) and np.all(e_rel <= 1e-9)):
                bad("damping_formula", "damping times %s != -1/log|lambda| = %s" % (tau_r, -1.0 / la))
        if np.iscomplexobj(T) and np.abs(np.asarray(T).imag).max() > 0:
            bad("period_formula", "periods are complex: %s" % T)
        else:
            T_r = np.asarray(T).real.astype(float)
            ang = np.angle(lam)
            for i in range(k):
                is_real = abs(lam[i].imag) <= 1e-12 * lmax
                if is_real:
                    good = np.isinf(T_r[i]) or abs(1.0 / T_r[i]) <= 1e-9 or (lam[i].real < 0 and abs(abs(T_r[i]) - 2.0) <= 1e-9)
                else:
                    good = abs(1.0 / T_r[i] - ang[i] / (2 * np.pi)) <= 1e-12 + 1e-9 * abs(ang[i]) and abs(T_r[i] - 2 * np.pi / ang[i]) <= 1e-9 * abs(2 * np.pi / ang[i])
                if not good:
                    bad("period_formula", "period %s of mode %d != 2 pi/arg(lambda) with lambda=%s (expected %s)" % (T_r[i], i + 1, lam[i], 2 * np.pi / ang[i] if ang[i] else np.inf), real_eigenvalue=bool(is_real))
                    break

    # ---------------- (d) modes ordered by descending standard deviation of the coefficient series
    sd = np.sqrt(np.mean(np.abs(S - S.mean(axis=0, keepdims=True)) ** 2, axis=0))
    if not np.all(np.isfinite(sd)) or np.any(np.diff(sd) > 1e-9 * max(sd.max(), 1e-300)):
        bad("ordering", "standard deviations of the coefficient series are not descending: %s" % sd)

    # ---------------- (e) transform(training data) == scores()
    e = D.relerr(St, S, scale=max(np.abs(S).max(), 1e-300))
    if not e <= max(1e-9, 10 * tol):
        bad("transform_equals_scores", "|transform(X_fit) - scores()|/max|scores| = %.3e" % e)

    # ---------------- (f) noise-free oscillator, no centring, as many PCs as state dimensions: the truth is recovered
    exact = case["kind"] == "osc" and not case["noise"] and not case["center"] and k == D_STATE
    if exact:
        lt = true_eigs(case)
        dist, j = _match(lt, lam)
        with np.errstate(all="ignore"):
            T_true = np.where(np.abs(lt.imag) > 0, 2 * np.pi / np.angle(lt), np.inf)
            tau_true = -1.0 / np.log(np.abs(lt))
            T_got = np.asarray(T).real.astype(float)[j]
            tau_got = np.asarray(tau).real.astype(float)[j]
            eT = max(abs(1.0 / T_got[i] - 1.0 / T_true[i]) * (abs(T_true[i]) if np.isfinite(T_true[i]) else 1.0) for i in range(D_STATE))
            etau = float(np.max(np.abs(tau_got - tau_true) / np.abs(tau_true)))
        if not (eT <= 1e-8 and etau <= 1e-8):
            bad("truth_recovery", "noise-free oscillator: periods %s vs true %s, damping times %s vs true %s" % (T_got, T_true, tau_got, tau_true))

    moved = None
    if first is not None:  # how far the earlier transform result is from the final coefficients (refit_other must move)
        F = D.to_matrix(first, ["time"], ["mode"], lab).astype(complex)
        moved = float(D.relerr(F, S, scale=max(np.abs(S).max(), 1e-300)))
    info = dict(k=k, prov=prov, moved=moved, pca=bool(case["use_pca"]), estimator=conv, residual=float(res.max()), n_complex=len(cplx), cond=ref["cond"], raw_cond=ref["raw_cond"], gap=ref["gap"], exact=bool(exact), max_abs_lambda=float(np.abs(lam).max()))
    return dict(violations=V, outcome="violation" if V else ("ok:exact" if exact else "ok"), nontrivial=not V and k >= 2 and P.size > 0 and S.size > 0, info=info)


def vacuity(outcomes, results, tier):
    if not outcomes.get("ok:exact"):
        return "no noise-free oscillator case reached the truth-recovery clause"
    infos = [r.get("info", {}) for r in results if r.get("info")]
    if infos:
        if not any(i.get("n_complex", 0) >= 2 for i in infos):
            return "no fit produced a complex conjugate pair"
        if not any(i.get("n_complex", 0) < i.get("k", 0) for i in infos):
            return "no fit produced a real eigenvalue"
        if not any(i.get("max_abs_lambda", 0.0) > 1.0 + 1e-6 for i in infos):
            return "no fit produced a growing mode (|lambda| > 1): the damping-time formula was only evaluated for |lambda| < 1"
        if not any(i.get("exact") and i.get("max_abs_lambda", 0.0) > 1.0 + 1e-6 for i in infos):
            return "no growing oscillator reached the truth-recovery clause"
        # a lag-0 covariance whose variances differ by more than 1e8 although the unit-free problem is well conditioned
        ill = [i for i in infos if i.get("raw_cond", 0.0) > 1e9 and i.get("cond", np.inf) < 1e6]
        if not ill:
            return "no fit had an ill-scaled (but unit-free well-conditioned) lag-0 covariance"
        if not any(i.get("exact") for i in ill):
            return "no ill-scaled noise-free oscillator reached the truth-recovery clause"
        if not ({True, False} <= {bool(i.get("pca")) for i in ill}):
            return "ill-scaled lag-0 covariances were not seen both with and without PCA"
        for pv in PROVENANCE:
            for pca in (True, False):
                sel = [i for i in infos if i.get("prov") == pv and bool(i.get("pca")) == pca]
                if not sel:
                    return "transform = scores was never evaluated for provenance %s with use_pca=%s" % (pv, pca)
                if pv == "refit_other" and not any((i.get("moved") or 0.0) > 1e-2 for i in sel):
                    return "refit_other (use_pca=%s): the series of the first fit never gave different coefficients" % pca
        if len({i.get("k") for i in infos}) < 3:
            return "fewer than three distinct numbers of retained PCs were exercised"
    return None
