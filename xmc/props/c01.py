"""C01 — EOF-type modes are the exact eigen-decomposition of the preprocessed data. Explorer P."""

from __future__ import annotations

import itertools
import warnings

import numpy as np

from .. import data as D
from .. import ref as R
from ..core import viol

ID = "C01"
LEVEL = "exploration"
TECHNIQUE = "bounded exhaustive enumeration (model x data class x n_modes x flags x solver) of real fits against a numpy eigh/svd reference model"
RULE = (
    "full product of model class (EOF, ComplexEOF real+complex, HilbertEOF padding None/exp, ExtendedEOF tau x embedding x n_pca) "
    "x shape x spectrum x scale x n_modes in 1..min(shape) x center x standardize x use_coslat x weights x solver; "
    "a case is non-trivial when the fit returned and all six relations (orthonormal components, score Gram = diag(s^2), "
    "explained variance = eigh eigenvalues, ratios, Eckart-Young residual, scores = M V) were evaluated on non-empty arrays"
)
ASSUMPTIONS = [
    "the numeric catalogue (fixed spectra/shapes/scales, orthogonal factors drawn from VERIF_SEED) stands for 'all matrices'",
    "numpy.linalg.eigh / svd and scipy.signal.hilbert are correct",
    "HilbertEOF padding='exp': the decomposed matrix is read from model.data['input_data'] after its real part is checked against the reference anomalies",
]
TALLY_KEYS = ("model", "solver", "spec", "shape")
TRUSTED = ["statsmodels import shim not used here"]

GRID = {1: (1, 1), 4: (2, 2), 6: (3, 2), 3: (3, 1), 9: (3, 3)}
LATS = {1: [40.0], 2: [-30.0, 50.0], 3: [-60.0, 10.0, 75.0]}


def _shapes(tier):
    # (40, 4) and (12, 1) are "tall and skinny" (n >= 10 p): the regime of covariance-based shortcuts
    if tier == "quick":
        return [(6, 4), (4, 6), (12, 6), (8, 1), (40, 4)]
    return [(8, 1), (12, 1), (6, 4), (4, 6), (9, 6), (12, 6), (40, 4)]


def cases(tier, seed):
    out = []
    flags_all = list(itertools.product([True, False], [False, True], [False, True], [False, True]))  # center,std,coslat,weights
    solvers = ["full", "auto", "randomized"]
    specs_q = ["geometric", "flat_pair", "rank_def"]
    specs_t = list(D.SPECTRA)
    # ---- EOF / ComplexEOF
    for model, cplx in (("EOF", False), ("ComplexEOF", True), ("ComplexEOF", False)):
        for (n, p) in _shapes(tier):
            specs = specs_q if tier == "quick" else specs_t
            for spec in specs:
                scales = [1.0]
                if (tier == "thorough") or (n, p) == (6, 4):
                    scales = [1.0, 1e-8, 1e8]
                if model == "ComplexEOF" and not cplx and tier == "quick" and spec != "geometric":
                    continue
                for scale in scales:
                    for (c, s, cl, w) in flags_all:
                        if s and scale == 1e-8:
                            continue
                        if tier == "quick" and scale != 1.0 and (cl or w):
                            continue
                        kmax = min(n, p)
                        for k in range(1, kmax + 1):
                            for solver in solvers:
                                if tier == "quick" and solver != "full" and (s and cl and w):
                                    continue
                                out.append(dict(model=model, cplx=cplx, shape=[n, p], spec=spec, scale=scale, center=c, standardize=s, coslat=cl, weights=w, n_modes=k, solver=solver))
    # ---- EOF on integer-typed storage (counts, packed data): the same numbers as their float64 copy, which the reference uses
    for store in ("int32", "int16") if tier == "quick" else ("int64", "int32", "int16", "uint8"):
        for (n, p) in ([(12, 6)] if tier == "quick" else [(12, 6), (6, 4), (4, 6)]):
            for (c, s, cl, w) in flags_all:
                for k in ((1, min(n, p)) if tier == "quick" else range(1, min(n, p) + 1)):
                    for solver in (["full"] if tier == "quick" else solvers):
                        out.append(dict(model="EOF", cplx=False, shape=[n, p], spec="geometric", scale=1.0, center=c, standardize=s, coslat=cl, weights=w, n_modes=k, solver=solver, store=store))
    # ---- floating-point storage other than native float64: single precision (judged at single-precision accuracy) and
    #      big-endian doubles (what a netCDF/GRIB reader may hand over); the reference uses the stored numbers as float64
    for mdl in ("EOF", "HilbertEOF") if tier == "quick" else ("EOF", "HilbertEOF", "ExtendedEOF"):
        for store in ("float32", ">f8") if tier == "quick" else ("float32", ">f8", ">f4", "float16"):
            for (n, p) in ([(12, 6)] if tier == "quick" else [(12, 6), (6, 4), (4, 6)]):
                for spec in (["geometric"] if tier == "quick" else ["geometric", "rank_def"]):
                    for (c, s, cl, w) in flags_all:
                        for k in ((2, min(n, p)) if tier == "quick" else range(1, min(n, p) + 1)):
                            for solver in (["full", "randomized"] if tier == "quick" else solvers):
                                d = dict(model=mdl, cplx=False, shape=[n, p], spec=spec, scale=1.0, center=c, standardize=s, coslat=cl, weights=w, n_modes=k, solver=solver, store=store)
                                if mdl == "HilbertEOF":
                                    d["padding"] = None
                                if mdl == "ExtendedEOF":
                                    if k > min(4, n - 1):  # the embedded matrix has n - (embedding - 1) tau rows
                                        continue
                                    d.update(tau=1, embedding=2, n_pca_modes=None)
                                out.append(d)
    # ---- user weights holding the data's labels in ANOTHER element order (north-to-south weights for south-to-north data): the
    #      product is label-aligned, the reference uses the weight of each label
    for mdl in ("EOF", "HilbertEOF", "ExtendedEOF"):
        for (n, p) in ([(12, 6)] if tier == "quick" else [(12, 6), (6, 4), (4, 6)]):
            for (c, s, cl, w) in flags_all:
                if not w:
                    continue
                for k in ((2, min(n, p)) if tier == "quick" else range(1, min(n, p) + 1)):
                    d = dict(model=mdl, cplx=False, shape=[n, p], spec="geometric", scale=1.0, center=c, standardize=s, coslat=cl, weights=w, n_modes=k, solver="full", wpres="rev")
                    if mdl == "HilbertEOF":
                        d["padding"] = None
                    if mdl == "ExtendedEOF":
                        if k > min(4, n - 1):  # the embedded matrix has n - (embedding - 1) tau rows
                            continue
                        d.update(tau=1, embedding=2, n_pca_modes=None)
                    out.append(d)
    # ---- HilbertEOF   (13 samples: an odd, prime length - no FFT fast path, no Nyquist bin)
    for padding in (None, "exp"):
        for (n, p) in ([(12, 6), (6, 4), (13, 3)] if tier == "quick" else [(6, 4), (9, 6), (12, 6), (8, 1), (13, 3), (11, 4)]):
            for spec in (["geometric", "rank_def"] if tier == "quick" else specs_t):
                for (c, s, cl, w) in flags_all:
                    if tier == "quick" and (s and cl and w):
                        continue
                    for k in range(1, min(n, p) + 1):
                        for solver in (["full", "auto"] if tier == "quick" else solvers):
                            out.append(dict(model="HilbertEOF", padding=padding, cplx=False, shape=[n, p], spec=spec, scale=1.0, center=c, standardize=s, coslat=cl, weights=w, n_modes=k, solver=solver))
    # ---- ExtendedEOF
    for tau in (1, 2):
        for emb in (2, 3):
            for npca in (None, 2, 3):
                for (n, p) in ([(12, 6)] if tier == "quick" else [(12, 6), (9, 6), (12, 4)]):
                    for spec in (["geometric"] if tier == "quick" else ["geometric", "flat_pair", "rank_def"]):
                        for (c, s, cl, w) in flags_all:
                            if tier == "quick" and (cl != w):
                                continue
                            nrow = n - (emb - 1) * tau
                            ncol = (npca or p) * emb
                            for k in range(1, min(nrow, ncol) + 1):
                                if tier == "quick" and k > 4:
                                    continue
                                for solver in (["full"] if tier == "quick" else ["full", "auto"]):
                                    out.append(dict(model="ExtendedEOF", tau=tau, embedding=emb, n_pca_modes=npca, cplx=False, shape=[n, p], spec=spec, scale=1.0, center=c, standardize=s, coslat=cl, weights=w, n_modes=k, solver=solver))
    return out


def build_input(case, seed):
    import xarray as xr

    n, p = case["shape"]
    X = D.make_matrix(n, p, case["spec"], case["scale"], case["cplx"], seed)
    nlat, nlon = GRID[p]
    lats = LATS[nlat]
    store = case.get("store")
    if store and ("f" in store):
        da = D.da_grid(X.astype(store), nlat, nlon, lats=lats)
        assert da.dtype == np.dtype(store)
        X = da.values.reshape(n, -1).astype("float64")  # the stored numbers, exactly
    elif store:
        # integer-valued numbers (non-negative for unsigned storage) held in integer storage; X stays their float64 copy
        X = np.rint(X * (40.0 / np.abs(X).max()))
        if store.startswith("u"):
            X = X - X.min()
        da = D.da_grid(X.astype(store), nlat, nlon, lats=lats)
        assert str(da.dtype) == store and np.array_equal(da.values.reshape(n, -1).astype(float), X)
    else:
        da = D.da_grid(X, nlat, nlon, lats=lats)
    wvec = None
    wda = None
    if case["weights"]:
        rng = np.random.default_rng([seed, 77, p])
        wvec = 0.5 + rng.random(p) * 2.0
        wda = xr.DataArray(wvec.reshape(nlat, nlon), dims=("lat", "lon"), coords={"lat": da.lat, "lon": da.lon})
    if wda is not None and case.get("wpres") == "rev":
        wda = wda.isel(lat=slice(None, None, -1), lon=slice(None, None, -1))  # same labels, stored in reverse
    cl = np.repeat(R.sqrt_coslat(lats), nlon) if case["coslat"] else None
    return X, da, wda, wvec, cl


def run_case(case, seed):
    import xeofs as xe

    X, da, wda, wvec, cl = build_input(case, seed)
    n, p = X.shape
    k = case["n_modes"]
    kw = dict(n_modes=k, center=case["center"], standardize=case["standardize"], use_coslat=case["coslat"], solver=case["solver"], random_state=5)
    mname = case["model"]
    if mname == "EOF":
        m = xe.single.EOF(**kw)
    elif mname == "ComplexEOF":
        m = xe.single.ComplexEOF(**kw)
    elif mname == "HilbertEOF":
        m = xe.single.HilbertEOF(padding=case["padding"], **kw)
    else:
        m = xe.single.ExtendedEOF(tau=case["tau"], embedding=case["embedding"], n_pca_modes=case["n_pca_modes"], **kw)
    feats = dict(solver=case["solver"], center=case["center"], cplx=case["cplx"])
    if case.get("store"):
        feats["store"] = "float" if "f" in case["store"] else "integer"
    V = []

    def bad(check, msg, **extra):
        V.append(viol(check, mname, msg, **feats, **extra))

    with warnings.catch_warnings():
        warnings.simplefilter("ignore")
        try:
            m.fit(da, dim="time", weights=wda)
        except Exception as e:
            if _is_solver_refusal(case, e):
                return dict(outcome="refused:" + type(e).__name__, nontrivial=False)
            raise
        comps = m.components()
        scores = m.scores()
        sv = m.singular_values()
        ev = m.explained_variance()
        evr = m.explained_variance_ratio()

    # ---------------- reference decomposed matrix
    Mpre = R.preprocess(X, case["center"], case["standardize"], cl, wvec)
    ref = {"time": da.time.values, "lat": da.lat.values, "lon": da.lon.values, "mode": np.arange(1, k + 1)}
    if mname == "HilbertEOF":
        if case["padding"] is None:
            M = R.analytic_centered(Mpre)
        else:
            M = np.asarray(m.data["input_data"].values)
            re_ref = Mpre  # the real part of the analytic signal is the preprocessed input itself
            if D.relerr(M.real, re_ref, scale=max(np.abs(re_ref).max(), 1e-300)) > 1e-9:
                bad("hilbert_real_part", "real part of the analytic signal differs from the preprocessed anomalies")
        Vm = D.to_matrix(comps, ["lat", "lon"], ["mode"], ref)
        S = D.to_matrix(scores, ["time"], ["mode"], ref)
    elif mname == "ExtendedEOF":
        tau, emb, npca = case["tau"], case["embedding"], case["n_pca_modes"]
        Z = Mpre
        P = None
        if npca:
            Zc = Z - Z.mean(axis=0, keepdims=True)
            _, s0, V0 = R.svd(Zc)
            # only decidable if the PCA truncation does not cut through a degenerate cluster
            cl_ = D.clusters(s0)
            cut_ok = any(c[-1] == npca - 1 for c in cl_)
            if not cut_ok or s0[npca - 1] <= 1e-9 * s0[0]:
                return dict(outcome="skipped:pca_cut_in_cluster", nontrivial=False)
            P = V0[:, :npca]
            Zfull = Zc @ P @ P.conj().T
        else:
            Zfull = Z
        E = R.delay_embed(Zfull, tau, emb)
        M = E - E.mean(axis=0, keepdims=True)
        nrow = M.shape[0]
        ref2 = dict(ref)
        ref2["embedding"] = np.arange(emb) * tau
        Vm = D.to_matrix(comps, ["embedding", "lat", "lon"], ["mode"], ref2)
        sc = scores
        # trailing samples that have no complete delay window may be absent or NaN
        tl = list(sc.time.values.tolist())
        want = list(da.time.values[:nrow].tolist())
        if not set(want) <= set(tl):
            bad("labels", "scores lack sample labels %s" % sorted(set(want) - set(tl)))
            return dict(violations=V, outcome="violation")
        extra = sc.sel(time=[t for t in tl if t not in want])
        if extra.size and np.isfinite(np.asarray(extra.values, dtype=complex)).any():
            bad("eeof_tail", "finite scores at samples without a complete delay window")
        ref3 = dict(ref)
        ref3["time"] = np.asarray(want)
        S = D.to_matrix(sc.sel(time=want), ["time"], ["mode"], ref3)
    else:
        M = Mpre
        Vm = D.to_matrix(comps, ["lat", "lon"], ["mode"], ref)
        S = D.to_matrix(scores, ["time"], ["mode"], ref)

    svv = np.asarray(sv.sel(mode=ref["mode"]).values)
    evv = np.asarray(ev.sel(mode=ref["mode"]).values)
    evrv = np.asarray(evr.sel(mode=ref["mode"]).values)

    N = M.shape[0]
    sref = np.linalg.svd(M, compute_uv=False)
    smax = max(sref[0], 1e-300)
    exact = case["solver"] == "full"
    tol = 1e-9 if exact else 1e-7
    st = case.get("store") or ""
    if "f" in st and st != ">f8":
        tol = 2e-2 if st == "float16" else 2e-5  # results are judged at the accuracy of the storage type
    # zero padding if k exceeds len(sref) cannot happen: k <= min(shape)

    # (a) orthonormal components
    G = Vm.conj().T @ Vm
    e = np.abs(G - np.eye(k)).max()
    if not e <= tol:
        bad("components_orthonormal", "|V^H V - I| = %.3e" % e)
    # (b) score Gram = diag(s^2); s = reported singular values = reference singular values
    Gs = S.conj().T @ S
    e = np.abs(Gs - np.diag(svv**2)).max() / smax**2
    if not e <= tol:
        bad("scores_gram", "|S^H S - diag(s^2)|/s1^2 = %.3e" % e)
    e = np.abs(svv - sref[:k]).max() / smax
    if not e <= tol:
        bad("singular_values", "reported %s vs reference %s" % (svv[:4], sref[:4]))
    # (c) explained variance = leading eigenvalues of M^H M / (N-1), descending
    lam = R.eig_cov(M)[:k]
    lam = np.clip(lam, 0, None)
    e = np.abs(evv - lam).max() / max(lam[0], 1e-300)
    if not e <= tol:
        bad("explained_variance", "reported %s vs eigh %s (N=%d)" % (evv[:4], lam[:4], N))
    if np.any(np.diff(evv) > tol * max(lam[0], 1e-300)):
        bad("descending", "explained variance not descending: %s" % evv)
    # (d) ratios against total variance, centring on
    centred = case["center"] or mname == "ExtendedEOF"
    if centred:
        tot = np.clip(R.eig_cov(M), 0, None).sum()
        e = np.abs(evrv - lam / tot).max()
        if not e <= max(tol, 1e-9):
            bad("explained_variance_ratio", "reported %s vs %s" % (evrv[:4], (lam / tot)[:4]))
    # (e) Eckart-Young
    if mname == "ExtendedEOF" and case["n_pca_modes"]:
        pass  # M lives in the full feature space already (projected through P P^H)
    res = np.linalg.norm(M - S @ Vm.conj().T) ** 2
    opt = float(np.sum(sref[k:] ** 2))
    e = abs(res - opt) / smax**2
    if not e <= 10 * tol:
        bad("eckart_young", "residual %.6e vs optimum %.6e" % (res, opt))
    # (f) scores = M V
    e = np.abs(S - M @ Vm).max() / smax
    if not e <= tol:
        bad("scores_projection", "|S - M V|/s1 = %.3e" % e)
    return dict(violations=V, outcome="violation" if V else "ok", nontrivial=not V and Vm.size > 0 and S.size > 0, info=dict(k=k, s1=float(smax)))


def _is_solver_refusal(case, e):
    # scipy.sparse.linalg.svds (used for complex data when the randomized route is selected) documents 1 <= k < min(shape)
    msg = str(e)
    if case["model"] in ("ComplexEOF", "HilbertEOF") and case["solver"] != "full" and isinstance(e, ValueError) and "`k` must be" in msg:
        return True
    return False


MAX_REFUSED_FRACTION = 0.15
