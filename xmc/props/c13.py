"""C13 — A model survives serialisation unchanged. Explorer G (operation graph over codecs).

State = history [fit, op, op, ...] where an op is compute(), transform(fit data), transform(new data) or a codec
(serialize -> [insert_placeholders] -> {direct | netCDF attribute codec | JSON round trip of every attrs dict} ->
deserialize) after which the *rebuilt* object is the current model.  BFS with white-box fingerprints; in every state the
current model must have equal parameters and return the answers of the originally fitted model.
"""

from __future__ import annotations

import functools
import json
import warnings

import numpy as np
import pandas as pd
import xarray as xr

from .. import data as D
from .. import observe as O
from ..core import viol

ID = "C13"
LEVEL = "model_checking"
TECHNIQUE = "explicit-state BFS over serialise/codec/deserialise, compute and transform histories on real model objects; every state compared with the originally fitted model"
RULE = (
    "states = distinct fingerprints of the current model reached by histories over {compute, transform(fit), transform(new), "
    "codec in {direct, nc, json} x {with, without placeholders}} per (model class, input structure, user attrs); transitions = "
    "operations executed; a trace is one history whose final model was compared (params, components, scores, transform, "
    "inverse_transform, predict) with the fitted original"
)
LEVEL_TEXT = "exhaustive BFS to depth 2 (quick) / 3 (thorough) of the codec/operation graph for every model class x input structure, plus every user-attribute dictionary through every codec"
ASSUMPTIONS = [
    "no netCDF/zarr engine is installed: the netCDF path is represented by the real _sanitize_attrs_nc/_desanitize_attrs_nc pair, the zarr path by a JSON round trip of every attrs dict through xarray's encode_zarr_attr_value (DESIGN 6)",
    "user attribute values are compared for 'loading does not fail and results are identical', not for round-tripping themselves",
    "depth bound 2 (quick; 1 for rotator classes) / 3 (thorough)",
]
TALLY_KEYS = ("model", "input", "attrs")
TRUSTED = ["statsmodels import shim (cross-set constructors)", "xarray.backends.zarr.encode_zarr_attr_value as the zarr attribute encoder"]

TOL = 1e-10

CROSS = {"CPCCA", "MCA", "CPCCARotator", "ComplexCPCCA", "ComplexMCA", "MCARotator", "HilbertMCA", "MCA@rotated", "CPCCA@rotated"}
# "<M>@rotated": the model M itself, serialised after it has been handed to a rotator's fit (a model "used by a rotator")
USED = {"EOF@rotated": "EOFRotator", "MCA@rotated": "MCARotator", "CPCCA@rotated": "CPCCARotator", "ComplexEOF@rotated": "ComplexEOFRotator"}
ROT = {"EOFRotator": "EOF", "CPCCARotator": "CPCCA", "MCARotator": "MCA", "ComplexEOFRotator": "ComplexEOF"}
MODELS_Q = ["EOF", "HilbertEOF", "POP", "EOFRotator", "CPCCA", "MCA", "CPCCARotator", "ComplexMCA", "EOF@rotated", "MCA@rotated"]
MODELS_T = ["EOF", "ComplexEOF", "HilbertEOF", "ExtendedEOF", "SparsePCA", "POP", "OPA", "EOFRotator", "ComplexEOFRotator", "CPCCA", "MCA", "CPCCARotator", "MCARotator", "ComplexCPCCA", "ComplexMCA", "HilbertMCA", "EOF@rotated", "MCA@rotated", "CPCCA@rotated", "ComplexEOF@rotated"]
INPUTS_Q = ["da", "ds", "mi"]
INPUTS_T = ["da", "ds", "list", "mi", "two_sample", "nan"]
ATTRS = {
    "none": None,
    "K": "K",
    "empty": "",
    "brackets": "[m/s]",
    "None_str": "None",
    "True_str": "True",
    "braces": "{x}",
    "brackets_text": "[kg m-2 s-1]",  # bracketed, but not parseable as Python at all
    "braces_text": "{time mean}",
    "quote": "it's 5\" wide",
    "float": 2.5,
    "list": [1, 2, 3],
    "nested": {"a": {"b": [1, 2]}, "c": None},
}
CODECS = ["direct", "nc", "json"]


# ----------------------------------------------------------------------------- inputs


def _attach(obj, attrval):
    if attrval is None:
        return obj
    if isinstance(obj, xr.Dataset):
        obj.attrs["note"] = attrval
        for v in obj.data_vars:
            obj[v].attrs["units"] = attrval
    else:
        obj.attrs["units"] = attrval
    for c in obj.coords:
        if c in obj.dims and not isinstance(obj.indexes.get(c), pd.MultiIndex):
            obj[c].attrs["units"] = attrval
    return obj


def make_inputs(kind, attrs, seed, cplx=False):
    """returns dict(X, Xnew, Y, Ynew, dim)."""
    av = ATTRS[attrs]
    n, nn = 8, 3

    def field(salt, rows, t0, p=6):
        return D.make_matrix(rows, p, "geometric", 1.0, cplx, seed, salt=salt)

    def grid(M, t0):
        da = D.da_grid(M, 3, 2, lats=[-50.0, 0.0, 60.0], name="sst")
        return da.assign_coords(time=np.arange(t0, t0 + M.shape[0]))

    def yf(M, t0):
        return D.da_2d(M, "time", "station", scoord=np.arange(t0, t0 + M.shape[0]), fcoord=["s1", "s2", "s3", "s4"], name="precip")

    X, Xn = grid(field(1, n, 0), 0), grid(field(2, nn, 100), 100)
    Y, Yn = yf(field(3, n, 0, 4), 0), yf(field(4, nn, 100, 4), 100)
    dim = "time"
    W = None
    if kind == "ds":
        def tods(g, t0):
            return xr.Dataset({"a": g.isel(lat=slice(0, 2)).rename("a"), "b": g.isel(lat=2, drop=True).rename("b") * 2.0})
        X, Xn = tods(X, 0), tods(Xn, 100)
    elif kind == "list":
        X = [X.isel(lat=slice(0, 2)), X.isel(lat=2, drop=True).rename("b")]
        Xn = [Xn.isel(lat=slice(0, 2)), Xn.isel(lat=2, drop=True).rename("b")]
    elif kind == "mi":
        def mi(o, t0):
            m = o.sizes["time"]
            idx = pd.MultiIndex.from_arrays([np.arange(m) // 2 + t0, np.arange(m) % 2], names=("year", "half"))
            return o.drop_vars("time").assign_coords(xr.Coordinates.from_pandas_multiindex(idx, "time"))
        X, Xn, Y, Yn = mi(X, 0), mi(Xn, 100), mi(Y, 0), mi(Yn, 100)
    elif kind == "two_sample":
        def two(o, t0, nrun):
            m = o.sizes["time"] // nrun
            o = o.isel(time=slice(0, m * nrun))
            idx = pd.MultiIndex.from_product([np.arange(m) + t0, np.arange(nrun)], names=("t", "run"))
            o = o.drop_vars("time").assign_coords(xr.Coordinates.from_pandas_multiindex(idx, "time")).unstack("time")
            return o
        X, Y = two(X, 0, 2), two(Y, 0, 2)
        Xn, Yn = two(grid(field(2, 4, 100), 100), 100, 2), two(yf(field(4, 4, 100, 4), 100), 100, 2)
        dim = ("t", "run")
    elif kind == "wlat":
        # user weights that are NAMED like one of their own coordinates (w = cos(lat) keeps the name 'lat')
        W = np.cos(np.deg2rad(X.lat))
        assert W.name == "lat"
    elif kind == "aux":
        # auxiliary non-index coordinates: a 2-D one over the (stacked) feature dims and a 1-D one along the sample dim
        def aux(o):
            o = o.assign_coords(region=(("lat", "lon"), np.arange(6).reshape(3, 2) % 3))
            return o.assign_coords(season=("time", np.arange(o.sizes["time"]) % 4))
        X, Xn = aux(X), aux(Xn)
        Y = Y.assign_coords(network=("station", ["n1", "n1", "n2", "n2"]))
        Yn = Yn.assign_coords(network=("station", ["n1", "n1", "n2", "n2"]))
    elif kind == "list12":
        # a list of 12 single-variable items (more than 10: per-item transformers get keys "0".."11")
        def items(rows, t0, salt):
            out = []
            for i in range(12):
                M = D.make_matrix(rows, 2, "geometric", 1.0, cplx, seed, salt=salt + i) * (1 + i)
                out.append(D.da_2d(M, "time", "x%d" % i, scoord=np.arange(t0, t0 + rows), fcoord=[10 * i, 10 * i + 1], name="item%d" % i))
            return out
        X, Xn = items(n, 0, 200), items(nn, 100, 300)
    elif kind == "featfirst":
        # one feature dimension STORED BEFORE the sample dimension: the stacker has to transpose its 2-D output
        def ff(M, t0, fname, fcoord, name):
            return D.da_2d(M, "time", fname, scoord=np.arange(t0, t0 + M.shape[0]), fcoord=fcoord, name=name).transpose(fname, "time")
        X, Xn = ff(field(1, n, 0), 0, "cell", list(range(6)), "sst"), ff(field(2, nn, 100), 100, "cell", list(range(6)), "sst")
        Y, Yn = ff(field(3, n, 0, 4), 0, "station", ["s1", "s2", "s3", "s4"], "precip"), ff(field(4, nn, 100, 4), 100, "station", ["s1", "s2", "s3", "s4"], "precip")
    elif kind == "nan":
        X = X.where(X.lon != X.lon[1].item() ) if False else X.where(~((X.lat == 0.0) & (X.lon == 30.0)))
        Xn = Xn.where(~((Xn.lat == 0.0) & (Xn.lon == 30.0)))
    objs = [X, Xn, Y, Yn]
    for o in objs:
        for item in o if isinstance(o, list) else [o]:
            _attach(item, av)
    return dict(X=X, Xnew=Xn, Y=Y, Ynew=Yn, dim=dim, W=W)


# ----------------------------------------------------------------------------- models


def build_fitted(model, inp):
    import xeofs as xe

    rs = dict(random_state=5)
    base = ROT.get(model, model).split("@")[0]
    if base == "EOF":
        m = xe.single.EOF(n_modes=3, **rs)
    elif base == "ComplexEOF":
        m = xe.single.ComplexEOF(n_modes=3, **rs)
    elif base == "HilbertEOF":
        m = xe.single.HilbertEOF(n_modes=3, padding=None, **rs)
    elif base == "ExtendedEOF":
        m = xe.single.ExtendedEOF(n_modes=2, tau=1, embedding=2, **rs)
    elif base == "SparsePCA":
        m = xe.single.SparsePCA(n_modes=2, alpha=1e-3, solver="full", **rs)
    elif base == "POP":
        m = xe.single.POP(n_modes=2, n_pca_modes=3, **rs)
    elif base == "OPA":
        m = xe.single.OPA(n_modes=2, tau_max=2, n_pca_modes=3, **rs)
    elif base == "CPCCA":
        m = xe.cross.CPCCA(n_modes=2, alpha=[0.5, 0.8], use_pca=[True, False], n_pca_modes=3, standardize=[True, False], **rs)
    elif base == "MCA":
        m = xe.cross.MCA(n_modes=2, use_pca=True, n_pca_modes=3, **rs)
    elif base == "ComplexCPCCA":
        m = xe.cross.ComplexCPCCA(n_modes=2, alpha=0.5, use_pca=True, n_pca_modes=3, **rs)
    elif base == "ComplexMCA":
        m = xe.cross.ComplexMCA(n_modes=2, use_pca=False, **rs)
    elif base == "HilbertMCA":
        m = xe.cross.HilbertMCA(n_modes=2, use_pca=True, n_pca_modes=3, padding=None, **rs)
    else:
        raise ValueError(model)
    if base in CROSS:
        m.fit(inp["X"], inp["Y"], dim=inp["dim"], weights_X=inp.get("W"))
    else:
        m.fit(inp["X"], dim=inp["dim"], weights=inp.get("W"))
    if model in ROT or model in USED:
        cls = {"EOFRotator": xe.single.EOFRotator, "ComplexEOFRotator": xe.single.ComplexEOFRotator, "CPCCARotator": xe.cross.CPCCARotator, "MCARotator": xe.cross.MCARotator}[USED.get(model, model)]
        r = cls(n_modes=2, power=2)
        r.fit(m)
        return m if model in USED else r
    return m


def needs_complex(model):
    return model in ("ComplexEOF", "ComplexEOFRotator", "ComplexCPCCA", "ComplexMCA", "ComplexEOF@rotated")


def _call(f, *a, **k):
    try:
        return f(*a, **k)
    except Exception as e:
        return ("raised", type(e).__name__)


def answers(model, m, inp):
    a = {}
    cross = model in CROSS
    a["components"] = _call(m.components)
    a["scores"] = _call(m.scores)
    if cross:
        # predict first: it is the one call that reads the Y-side 'unseen' bookkeeping without writing it
        a["predict.first"] = _call(m.predict, inp["Xnew"])
        a["transform.fit"] = _call(m.transform, inp["X"], inp["Y"])
        a["transform.new"] = _call(m.transform, inp["Xnew"], inp["Ynew"])
        sc = a["scores"]
        if not O.is_raised(sc):
            a["inverse_transform"] = _call(m.inverse_transform, sc[0].sel(mode=[1]), sc[1].sel(mode=[1]))
        a["predict"] = _call(m.predict, inp["Xnew"])
    else:
        a["transform.fit"] = _call(m.transform, inp["X"])
        a["transform.new"] = _call(m.transform, inp["Xnew"])
        sc = a["scores"]
        if isinstance(sc, xr.DataArray):
            a["inverse_transform"] = _call(m.inverse_transform, sc.sel(mode=[1]))
    a["params"] = {k: repr(v) for k, v in m.get_params().items()}
    return a


# ----------------------------------------------------------------------------- codecs


def _json_rt(attrs):
    from xarray.backends.zarr import encode_zarr_attr_value

    return json.loads(json.dumps({k: encode_zarr_attr_value(v) for k, v in attrs.items()}))


def codec(m, name, placeholders):
    from xeofs.utils.io import _desanitize_attrs_nc, _sanitize_attrs_nc, insert_placeholders

    dt = m.serialize()
    if placeholders:
        dt = insert_placeholders(dt)
    if name == "nc":
        dt = _desanitize_attrs_nc(_sanitize_attrs_nc(dt))
    elif name == "json":
        for node in dt.subtree:
            node.attrs = _json_rt(node.attrs)
            for v in list(node.variables):
                node[v].attrs = _json_rt(node[v].attrs)
    return type(m).deserialize(dt)


def ops_all():
    ops = ["compute", "transform:fit", "transform:new"]
    for c in CODECS:
        ops += ["codec:%s" % c, "codec:%s+ph" % c]
    return ops


def apply_op(model, m, op, inp):
    if op == "compute":
        m.compute()
        return m
    if op.startswith("transform:"):
        which = "X" if op.endswith("fit") else "Xnew"
        if model in CROSS:
            _call(m.transform, inp[which], inp["Y" if which == "X" else "Ynew"])
        else:
            _call(m.transform, inp[which])
        return m
    name = op.split(":")[1]
    ph = name.endswith("+ph")
    return codec(m, name.replace("+ph", ""), ph)


@functools.lru_cache(maxsize=None)
def reference(model, kind, attrs, seed):
    inp = make_inputs(kind, attrs, seed, needs_complex(model))
    with warnings.catch_warnings():
        warnings.simplefilter("ignore")
        m = build_fitted(model, inp)
        return answers(model, m, inp)


# ----------------------------------------------------------------------------- exploration


def rounds(tier, seed):
    depth = 2 if tier == "quick" else 3
    models = MODELS_Q if tier == "quick" else MODELS_T
    kinds = INPUTS_Q if tier == "quick" else INPUTS_T
    frontier = []
    for mname in models:
        for k in kinds:
            for op in ops_all():
                frontier.append(dict(model=mname, input=k, attrs="none", history=[op]))
    # every user attribute dictionary through every codec (depth 1; attribute handling does not depend on the path)
    for mname in (["EOF", "MCA"] if tier == "quick" else ["EOF", "MCA", "POP", "EOFRotator"]):
        for k in (["da", "ds"] if tier == "quick" else ["da", "ds", "list", "mi"]):
            for a in ATTRS:
                if a == "none":
                    continue
                for c in CODECS:
                    for ph in ("", "+ph"):
                        frontier.append(dict(model=mname, input=k, attrs=a, history=["codec:%s%s" % (c, ph)], leaf=True))
    # input structures that only matter for the (de)serialisation itself: every codec at depth 1
    for mname in (["EOF", "MCA", "POP"] if tier == "quick" else ["EOF", "MCA", "EOFRotator", "CPCCARotator", "POP", "CPCCA", "HilbertMCA"]):
        for k in ("aux", "list12", "wlat", "featfirst"):
            for c in CODECS:
                for ph in ("", "+ph"):
                    frontier.append(dict(model=mname, input=k, attrs="none", history=["codec:%s%s" % (c, ph)], leaf=True))
            frontier.append(dict(model=mname, input=k, attrs="none", history=["compute", "codec:direct"], leaf=True))
    seen = {}
    level = 1
    while frontier:
        res = yield frontier
        nxt = []
        for c, r in zip(frontier, res):
            if c.get("leaf") or r.get("violations") or level >= depth:
                continue
            if tier == "quick" and (c["model"] in ROT or c["model"] in USED) and level >= 1:
                continue  # rotator fits cost ~1 s each: depth 1 in the quick tier, full depth in the thorough tier
            fp = r.get("info", {}).get("fp")
            key = (c["model"], c["input"])
            if fp is None or fp in seen.setdefault(key, set()):
                continue
            seen[key].add(fp)
            for op in ops_all():
                # a deferred-free model: compute twice in a row adds nothing new but is still a legal history; keep it
                nxt.append(dict(model=c["model"], input=c["input"], attrs=c["attrs"], history=c["history"] + [op]))
        frontier = nxt
        level += 1


def run_case(case, seed):
    model, kind, attrs, history = case["model"], case["input"], case["attrs"], case["history"]
    V = []
    feats = dict(input=kind, attrs=attrs, last_op=history[-1].split("+")[0], placeholders=history[-1].endswith("+ph"))
    with warnings.catch_warnings():
        warnings.simplefilter("ignore")
        ref = reference(model, kind, attrs, seed)
        inp = make_inputs(kind, attrs, seed, needs_complex(model))
        m = build_fitted(model, inp)
        for i, op in enumerate(history):
            try:
                m = apply_op(model, m, op, inp)
            except Exception as e:
                import traceback

                tb = traceback.extract_tb(e.__traceback__)
                at = next(("%s:%s" % (f.filename.split("/")[-1], f.name) for f in reversed(tb) if "/xeofs/" in f.filename), "%s:%s" % (tb[-1].filename.split("/")[-1], tb[-1].name))
                V.append(viol("codec_raises", "any", "%s on %s/%s: history %s: %s raised %s: %s" % (model, kind, attrs, ";".join(history), op, type(e).__name__, str(e)[:200]), exc=type(e).__name__, at=at, op=op.split("+")[0]))
                return dict(violations=V, outcome="violation", states=0, transitions=i + 1, traces=1, info={})
        fp = O.fp_hash(m)
        got = answers(model, m, inp)
        for k in ref:
            ds = O.compare_any(ref[k], got.get(k), TOL, k, attrs=False, name=False)
            if ds:
                V.append(viol("answers_differ", model, "history %s: %s" % (";".join(history), "; ".join(ds[:3])), answer=k.split(".")[0], **feats))
    return dict(violations=V, outcome="violation" if V else "ok", nontrivial=not V, states=0, transitions=1, traces=1, info=dict(fp=fp))


def finalize(cases, results, tier, seed):
    seen = set()
    for c, r in zip(cases, results):
        fp = r.get("info", {}).get("fp")
        if fp:
            seen.add((c["model"], c["input"], c["attrs"], fp))
    return [], dict(states=len(seen), depth_completed=max(len(c["history"]) for c in cases), histories=len(cases))


def vacuity(outcomes, results, tier):
    if outcomes.get("ok", 0) == 0:
        return "no history was validated"
    return None
