"""C20 — Bootstrap members are sign-aligned, reproducible EOF analyses of resamples. Explorer P.

For every case a real EOF model is fitted on a labelled container built from a catalogue matrix, a real
``EOFBootstrapper`` is fitted on it twice (same seed, different state of numpy's global generator) and every member
is compared with a numpy reference: the ``eigh`` of the covariance of the replayed with-replacement resample of the
model's preprocessed samples.  Public results are flattened by *label* into the row/column order of the catalogue
matrix; the only internal object read is ``model.data["input_data"]`` (the thing that is resampled), whose rows and
columns are matched numerically against the independent reference preprocessing so that resample indices can be
translated into that order.
"""

from __future__ import annotations

import contextlib
import hashlib
import io
import itertools
import json
import warnings

import numpy as np

from .. import data as D
from .. import ref as R
from ..core import CaseTimeout, _exc_violation, viol

ID = "C20"
LEVEL = "exploration"
TECHNIQUE = (
    "bounded exhaustive enumeration (container x dimension names x preprocessing flags x data class x n_modes x n_bootstraps x seed) "
    "of real EOFBootstrapper fits, each member compared with a numpy eigh reference on the replayed resample, plus a run-to-run relation"
)
RULE = (
    "full product (per tier, see cases()) of fitted model class {EOF, ComplexEOF on complex data, HilbertEOF} x provenance of the judged fit "
    "{fresh bootstrapper, second fit of one bootstrapper after the same model, ... after another model} x "
    "container {DataArray, two sample dims, MultiIndex sample dim, Dataset, list} x "
    "(sample_name, feature_name) in {defaults, (s,f), (s,default), (default,f)} x (center, standardize, use_coslat, weights) x "
    "shape x spectrum x n_modes x n_bootstraps x bootstrap seed; a case is non-trivial when both bootstrap runs returned and the "
    "clauses (a) variances/total variance, (b) orthonormal components in the reference subspaces, (c) scores = projection, "
    "(d) sign alignment, (e) same-seed reproducibility, (f) member dimension and structure were evaluated on non-empty arrays"
)
ASSUMPTIONS = [
    "the numeric catalogue (fixed spectra/shapes, orthogonal factors drawn from VERIF_SEED) stands for 'all fitted EOF models'",
    "numpy.linalg.eigh is correct; the reference preprocessing of ref.py equals the model's (checked: input_data must be a row/column permutation of it)",
    "'an EOF analysis of a resample' is read, as in DESIGN C20, as the centred (N-1) covariance eigen-decomposition of the resample; scores are centred with the resample mean",
    "resamples are first looked for as numpy.random.default_rng(seed).choice(n, n) drawn in member order; if a member does not fit that draw, "
    "every one of the C(2n-1, n) with-replacement resamples (n <= 12) is searched, so a different but valid generator is not reported "
    "(all members being the identity resample, n_bootstraps >= 2, is reported as resampling without replacement)",
    "sign alignment is accepted under any of: Pearson correlation of scores, uncentred cosine of scores, cosine of components (the statement does not choose); "
    "it is decided only where all of them exceed 1e-6 in magnitude",
    "bootstrap seeds {0,1,7} and n_bootstraps {1,2,3,50} stand for 'all integer seeds' and 1..50",
    "complex-valued models: Hermitian orthonormality, eigh of the Hermitian covariance of the resample, scores = (X - resample mean) . components "
    "(the convention of the model itself, checked by C01), orientation = real part of the Hermitian inner product with the model's mode is non-negative; "
    "HilbertEOF is fitted with padding='none' and its samples are scipy.signal.hilbert of the preprocessed data, re-centred",
    "backend: the model is fitted on numpy data or on dask arrays (one chunk, chunked along the first sample dim, along the first feature dim; chunking along both "
    "is a documented refusal of dask's svd and not enumerated) with EOF(compute=True/False); for dask-backed models the second run of clause (e) is a fresh "
    "bootstrapper on the same data fitted in memory (checks dask_equals_memory_*)",
    "scale: the whole field is multiplied by 1e-6 / 1e-3 / 1 / 1e4 (standardize off, so the factor reaches the decomposition) on the closed-form 'dipole' field; "
    "the orientation clause is decided for every member mode whose scores exceed 1e-6 of the member's leading singular value",
    "provenance 'refit': every clause is applied to the SECOND fit of one bootstrapper object; clause (e) relates it to a fresh object with the same seed",
]
TALLY_KEYS = ("mclass", "prov", "backend", "mcompute", "scale", "container", "names", "flags", "shape", "spec", "n_modes", "n_boot", "bseed")
TRUSTED = ["model.data['input_data'] as the definition of the model's own preprocessed samples"]

TOL = 1e-7  # member fits run with solver='auto' (randomized on most of these shapes): DESIGN 4.3
TOL_ALG = 1e-9
GAP = 1e-3
NAMES = {"default": ("sample", "feature"), "sf": ("s", "f"), "s_only": ("s", "feature"), "f_only": ("sample", "f")}
LATS = {1: [40.0], 2: [-30.0, 50.0], 3: [-60.0, 10.0, 75.0]}
SPLIT = {4: (2, 2), 6: (3, 2), 9: (3, 3), 12: (4, 3)}
SCALES = (1e-6, 1e-3, 1.0, 1e4)  # global factor on the whole field (units); every clause is scale-covariant, every tolerance relative
BACKENDS = ("numpy", "dask1", "dask_s", "dask_f")  # in memory; dask with one chunk; chunked along the first sample dim; along the first feature dim
FLAGS_ALL = ["".join(t) for t in itertools.product("TF", "FT", "FT", "FT")]  # center, standardize, coslat, weights


# ----------------------------------------------------------------------------- alphabet


def cases(tier, seed):
    out = []
    seen = set()

    def add(container, names, flags, shape, spec, k, nb, bs, mclass="EOF", prov="fresh", backend="numpy", mcompute=True, scale=1.0):
        n, p = shape
        kk = min(n, p) if k == "max" else k
        if kk > min(n, p):
            return
        c = dict(model="EOFBootstrapper", mclass=mclass, prov=prov, backend=backend, mcompute=mcompute, scale=scale, container=container, names=names, flags=flags, shape=list(shape), spec=spec, n_modes=kk, n_boot=nb, bseed=bs)
        key = json.dumps(c, sort_keys=True)
        if key not in seen:
            seen.add(key)
            out.append(c)

    containers = ["da", "da2s", "mi", "ds", "list"]
    names = list(NAMES)
    if tier == "quick":
        # A: structure x names product
        for cont in containers:
            for nm in names:
                for fl in ("TFFF", "FFFF", "TTTT"):
                    for shape, spec in (((6, 4), "geometric"), ((12, 6), "flat_pair"), ((6, 4), "rank_def")):
                        for k in (1, "max"):
                            for nb, bs in ((1, 0), (3, 7)):
                                add(cont, nm, fl, shape, spec, k, nb, bs)
        # B: all preprocessing flags
        for fl in FLAGS_ALL:
            for nm in ("default", "sf"):
                add("da", nm, fl, (12, 6), "geometric", 3, 2, 1)
        # C: the large member count, every seed
        for nm in names:
            for bs in (0, 1, 7):
                add("da", nm, "TFFF", (6, 4), "geometric", 2, 50, bs)
        # D: provenance - the judged fit is the SECOND fit of one bootstrapper object
        for prov in ("refit_same", "refit_other"):
            for cont in ("da", "ds", "list"):
                for nm in ("default", "sf"):
                    for shape, spec, k in (((6, 4), "geometric", "max"), ((12, 6), "flat_pair", 1)):
                        for nb, bs in ((2, 1), (3, 7)):
                            add(cont, nm, "TFFF", shape, spec, k, nb, bs, prov=prov)
        # E: complex-valued models
        for mclass in ("ComplexEOF", "HilbertEOF"):
            for cont in ("da", "ds", "list"):
                for nm in ("default", "sf"):
                    for fl in ("TFFF", "TTTT"):
                        for shape, spec in (((6, 4), "geometric"), ((12, 6), "flat_pair")):
                            for k in (1, "max"):
                                for nb, bs in ((1, 0), (3, 7)):
                                    add(cont, nm, fl, shape, spec, k, nb, bs, mclass=mclass)
            add("da", "default", "FFFF", (12, 6), "geometric", 3, 2, 1, mclass=mclass)
            add("da", "default", "TFFF", (6, 4), "geometric", "max", 2, 1, mclass=mclass, prov="refit_other")
        # F: backend of the model's data - dask-backed (one chunk / chunked along samples / along features) x EOF(compute=...)
        for backend in BACKENDS[1:]:
            for mcompute in (True, False):
                for cont in ("da", "ds", "list"):
                    if backend == "dask_s" and cont != "da":
                        continue  # variables/items concatenated along features + chunks along samples = chunked along both axes: documented refusal
                    for shape, spec, k, nb, bs in (((12, 6), "geometric", 2, 2, 1), ((6, 4), "rank_def", "max", 3, 7)):
                        add(cont, "default", "TFFF", shape, spec, k, nb, bs, backend=backend, mcompute=mcompute)
                add("da", "sf", "TTTT", (12, 6), "flat_pair", 2, 2, 0, backend=backend, mcompute=mcompute)
                add("da2s", "default", "TFFF", (12, 6), "geometric", 1, 2, 7, backend=backend, mcompute=mcompute)
        # G: global scale (physical units) of a field whose patterns are dipoles: the solver's raw orientation flips between resamples
        for scale in SCALES:
            for cont in ("da", "ds", "list"):
                for fl in ("TFFF", "FFFF"):
                    for k in (3, "max"):
                        add(cont, "default", fl, (12, 6), "dipole", k, 3, 7, scale=scale)
            for nm in ("default", "sf"):
                add("da", nm, "TFFF", (6, 4), "dipole", 2, 3, 1, scale=scale)
            add("da", "default", "TFFF", (12, 6), "dipole", 2, 2, 1, scale=scale, backend="dask1")
    else:
        for cont in containers:
            for nm in names:
                for fl in ("TFFF", "FFFF", "TTTT"):
                    for shape in ((6, 4), (4, 6), (12, 6)):
                        for spec in ("geometric", "flat_pair", "rank_def"):
                            if shape == (4, 6) and spec == "flat_pair":
                                continue
                            for k in (1, 2, "max"):
                                for nb in (1, 2, 3):
                                    for bs in (0, 1, 7):
                                        if nb == 2 and bs == 1 and k == 2:
                                            continue
                                        add(cont, nm, fl, shape, spec, k, nb, bs)
        for fl in FLAGS_ALL:
            for cont in ("da", "ds", "list"):
                for nm in ("default", "sf"):
                    for shape, spec in (((12, 6), "geometric"), ((9, 6), "rank_def"), ((4, 6), "clustered")):
                        for k in (2, "max"):
                            for nb, bs in ((2, 0), (3, 7)):
                                add(cont, nm, fl, shape, spec, k, nb, bs)
        for cont in ("da", "list", "mi"):
            for nm in names:
                for bs in (0, 1, 7):
                    for shape, spec in (((6, 4), "geometric"), ((12, 6), "near_equal_var")):
                        add(cont, nm, "TFFF", shape, spec, 2, 50, bs)
        for prov in ("refit_same", "refit_other"):
            for cont in containers:
                for nm in names:
                    for shape, spec in (((6, 4), "geometric"), ((4, 6), "rank_def"), ((12, 6), "flat_pair")):
                        for k in (1, "max"):
                            for nb in (2, 3):
                                for bs in (0, 7):
                                    add(cont, nm, "TFFF", shape, spec, k, nb, bs, prov=prov)
        for mclass in ("ComplexEOF", "HilbertEOF"):
            for cont in containers:
                for nm in ("default", "sf"):
                    for fl in ("TFFF", "FFFF", "TTTT"):
                        for shape, spec in (((6, 4), "geometric"), ((4, 6), "geometric"), ((12, 6), "flat_pair"), ((6, 4), "rank_def")):
                            for k in (1, 2, "max"):
                                for nb in (1, 3):
                                    for bs in (0, 7):
                                        add(cont, nm, fl, shape, spec, k, nb, bs, mclass=mclass)
            for prov in ("refit_same", "refit_other"):
                for cont in ("da", "ds", "list"):
                    add(cont, "default", "TFFF", (6, 4), "geometric", "max", 2, 1, mclass=mclass, prov=prov)
        for backend in BACKENDS[1:]:
            for mcompute in (True, False):
                for cont in containers:
                    if backend == "dask_s" and cont in ("ds", "list"):
                        continue  # documented refusal, see quick tier
                    for nm in ("default", "sf"):
                        for fl in ("TFFF", "TTTT"):
                            if nm == "sf" and fl == "TTTT" and cont != "da":
                                continue
                            for shape, spec in (((12, 6), "geometric"), ((6, 4), "rank_def"), ((4, 6), "geometric")):
                                for k in (1, 2, "max"):
                                    for nb, bs in ((2, 1), (3, 7)):
                                        if k == 1 and nb == 3:
                                            continue
                                        add(cont, nm, fl, shape, spec, k, nb, bs, backend=backend, mcompute=mcompute)
                add("da", "default", "TFFF", (6, 4), "geometric", 2, 50, 0, backend=backend, mcompute=mcompute)
                for prov in ("refit_same", "refit_other"):
                    add("da", "default", "TFFF", (12, 6), "geometric", 2, 2, 1, prov=prov, backend=backend, mcompute=mcompute)
        for scale in SCALES:
            for cont in containers:
                for nm in ("default", "sf"):
                    if nm == "sf" and cont != "da":
                        continue
                    for fl in ("TFFF", "FFFF"):
                        for shape in ((12, 6), (6, 4), (4, 6)):
                            for k in (1, 2, "max"):
                                for nb, bs in ((2, 1), (3, 7)):
                                    add(cont, nm, fl, shape, "dipole", k, nb, bs, scale=scale)
            add("da", "default", "TFFF", (12, 6), "dipole", 3, 50, 0, scale=scale)
            add("da", "default", "TFFF", (12, 6), "dipole", 2, 2, 1, scale=scale, backend="dask_s", mcompute=False)
            add("da", "default", "TFTT", (12, 6), "dipole", 3, 3, 7, scale=scale)
    return out


# ----------------------------------------------------------------------------- labelled containers


def dipole_matrix(n, p, seed, salt=0):
    """Closed-form field U diag(8 * 2^-i) V^T + mean whose patterns V are dipoles (e_2j - e_2j+1)/sqrt(2), then (e_2j + e_2j+1)/sqrt(2):
    the two largest loadings of every pattern tie in magnitude, so which of them a resample makes the largest - i.e. the raw
    orientation the solver's sign convention picks - changes from member to member. U (orthonormal, orthogonal to 1) comes from `seed`."""
    assert p % 2 == 0
    rng = np.random.default_rng([int(seed), n, p, 7020, int(salt)])
    r = min(n - 1, p)
    V = np.zeros((p, p))
    for j in range(p // 2):
        V[2 * j, j], V[2 * j + 1, j] = 1.0, -1.0
        V[2 * j, p // 2 + j], V[2 * j + 1, p // 2 + j] = 1.0, 1.0
    V = V[:, :r] / np.sqrt(2.0)
    U = D._orth(rng, n, r, False, True)
    return (U * D.spectrum("geometric", r)) @ V.T + (rng.standard_normal(p) * 3.0)[None, :]


def build(case, seed, salt=0, backend=None):
    """Returns obj, dim, weights and the bijection (pieces / sample spec) between cells and the n x p matrix X0."""
    import pandas as pd
    import xarray as xr

    n, p = case["shape"]
    cont = case["container"]
    if case["spec"] == "dipole":
        X0 = dipole_matrix(n, p, seed, salt)
    else:
        X0 = D.make_matrix(n, p, case["spec"], 1.0, case.get("mclass") == "ComplexEOF", seed, salt=salt)
    X0 = X0 * float(case.get("scale", 1.0))
    fl = case["flags"]
    use_w = fl[3] == "T"
    rng = np.random.default_rng([seed, 2020, p])
    wvec_all = 0.5 + rng.random(p) * 2.0

    # ---- sample side
    if cont == "da2s":
        nt, nr = SPLIT[n]
        scoords = {"time": np.arange(nt) * 2 + 1, "run": np.array([10, 20, 30, 40][:nr])}
        sdims = ["time", "run"]
        sshape = (nt, nr)
        rows = [dict(zip(sdims, t)) for t in itertools.product(*[scoords[d].tolist() for d in sdims])]
        dim = ("time", "run")
        sindex = {d: pd.Index(scoords[d]) for d in sdims}
    elif cont == "mi":
        ny, nm_ = SPLIT[n]
        mi = pd.MultiIndex.from_product([[2000 + i for i in range(ny)], [1, 4, 7, 10][:nm_]], names=("year", "month"))
        scoords = None
        sdims = ["time"]
        sshape = (n,)
        dim = "time"
        sindex = {"time": mi}
    else:
        scoords = {"time": np.arange(n) * 3 + 5}
        sdims = ["time"]
        sshape = (n,)
        dim = "time"
        sindex = {"time": pd.Index(scoords["time"])}

    def make_da(cols, fdims, fcoords, name):
        fshape = tuple(len(fcoords[d]) for d in fdims)
        vals = X0[:, cols].reshape(sshape + fshape)
        if cont == "mi":
            coords = xr.Coordinates.from_pandas_multiindex(sindex["time"], "time").assign({d: fcoords[d] for d in fdims})
        else:
            coords = {**{d: scoords[d] for d in sdims}, **{d: fcoords[d] for d in fdims}}
        return xr.DataArray(vals, dims=tuple(sdims) + tuple(fdims), coords=coords, name=name)

    def make_w(cols, fdims, fcoords):
        fshape = tuple(len(fcoords[d]) for d in fdims)
        return xr.DataArray(wvec_all[cols].reshape(fshape), dims=tuple(fdims), coords={d: fcoords[d] for d in fdims})

    pieces = []  # each: item, var, dims, coords, cols
    if cont in ("da", "da2s", "mi"):
        nlat, nlon = SPLIT[p]
        fc = {"lat": np.array(LATS[nlat]), "lon": np.arange(nlon) * 30.0}
        cols = np.arange(p)
        obj = make_da(cols, ["lat", "lon"], fc, "data")
        wobj = make_w(cols, ["lat", "lon"], fc) if use_w else None
        pieces.append(dict(item=None, var=None, dims=["lat", "lon"], coords=fc, cols=cols))
    elif cont == "ds":
        h = p // 2
        fc = {"lat": np.array(LATS[h]), "lon": np.array([15.0])}
        va = make_da(np.arange(h), ["lat", "lon"], fc, "a")
        vb = make_da(np.arange(h, p), ["lat", "lon"], fc, "b")
        obj = xr.Dataset({"a": va, "b": vb})
        wobj = xr.Dataset({"a": make_w(np.arange(h), ["lat", "lon"], fc), "b": make_w(np.arange(h, p), ["lat", "lon"], fc)}) if use_w else None
        pieces.append(dict(item=None, var="a", dims=["lat", "lon"], coords=fc, cols=np.arange(h)))
        pieces.append(dict(item=None, var="b", dims=["lat", "lon"], coords=fc, cols=np.arange(h, p)))
    elif cont == "list":
        p1 = p - 2
        fc1 = {"lat": np.array(LATS[p1 // 2]), "lon": np.array([0.0, 30.0])}
        fc2 = {"lat": np.array([-45.0, 20.0])}
        c1, c2 = np.arange(p1), np.arange(p1, p)
        obj = [make_da(c1, ["lat", "lon"], fc1, "first"), make_da(c2, ["lat"], fc2, "second")]
        wobj = [make_w(c1, ["lat", "lon"], fc1), make_w(c2, ["lat"], fc2)] if use_w else None
        pieces.append(dict(item=0, var=None, dims=["lat", "lon"], coords=fc1, cols=c1))
        pieces.append(dict(item=1, var=None, dims=["lat"], coords=fc2, cols=c2))
    else:
        raise ValueError(cont)

    clvec = None
    if fl[2] == "T":
        clvec = np.empty(p)
        for pc in pieces:
            grids = np.meshgrid(*[pc["coords"][d] for d in pc["dims"]], indexing="ij")
            clvec[pc["cols"]] = R.sqrt_coslat(grids[pc["dims"].index("lat")].ravel())
    backend = case.get("backend", "numpy") if backend is None else backend
    if backend != "numpy":
        def chunk(o, pc_dims):
            if backend == "dask1":
                return o.chunk({d: -1 for d in o.dims})
            d = sdims[0] if backend == "dask_s" else pc_dims[0]
            return o.chunk({d: max(1, o.sizes[d] // 2)})

        if cont == "list":
            obj = [chunk(o, pc["dims"]) for o, pc in zip(obj, pieces)]
        else:
            obj = chunk(obj, pieces[0]["dims"])
    return dict(X0=X0, obj=obj, dim=dim, weights=wobj, wvec=wvec_all if use_w else None, clvec=clvec, pieces=pieces, sdims=sdims, sindex=sindex, cont=cont)


class StructureError(Exception):
    def __init__(self, kind, msg):
        super().__init__(msg)
        self.kind = kind


def _take(a, dim, want_index):
    """Label-keyed reorder of DataArray `a` along `dim` into the order of pandas index `want_index`."""
    if dim not in a.indexes:
        raise StructureError("no_coordinate", "dimension %r carries no coordinate" % (dim,))
    have = a.indexes[dim]
    if len(have) != len(want_index):
        raise StructureError("labels", "dimension %r has %d labels, the model's data has %d" % (dim, len(have), len(want_index)))
    pos = have.get_indexer(want_index)
    if (pos < 0).any() or len(set(pos.tolist())) != len(pos):
        raise StructureError("labels", "labels of %r differ: %s vs %s" % (dim, list(have[:6]), list(want_index[:6])))
    return a.isel({dim: pos})


def _piece_of(obj, pc, cont):
    import xarray as xr

    if cont == "list":
        if not isinstance(obj, (list, tuple)) or len(obj) != 2:
            raise StructureError("container", "expected a list of 2 items, got %s" % type(obj).__name__)
        a = obj[pc["item"]]
    elif cont == "ds":
        if not isinstance(obj, xr.Dataset) or set(obj.data_vars) != {"a", "b"}:
            raise StructureError("container", "expected a Dataset with variables a, b; got %s" % type(obj).__name__)
        a = obj[pc["var"]]
    else:
        a = obj
    if not isinstance(a, xr.DataArray):
        raise StructureError("container", "expected a DataArray, got %s" % type(a).__name__)
    return a


def comps_matrix(obj, B, lead):
    """components-like public object -> array (*lead sizes, p) in catalogue column order; `lead` = leading dims."""
    import pandas as pd

    p = B["X0"].shape[1]
    out = None
    for pc in B["pieces"]:
        a = _piece_of(obj, pc, B["cont"])
        if set(a.dims) != set(lead) | set(pc["dims"]):
            raise StructureError("dims", "dims %s, expected %s" % (sorted(map(str, a.dims)), sorted(set(lead) | set(pc["dims"]))))
        for d in pc["dims"]:
            a = _take(a, d, pd.Index(pc["coords"][d]))
        a = a.transpose(*lead, *pc["dims"])
        v = np.asarray(a.values)
        v = v.reshape(v.shape[: len(lead)] + (-1,))
        if out is None:
            out = np.full(v.shape[: len(lead)] + (p,), np.nan, dtype=v.dtype)
        out[..., pc["cols"]] = v
    return out


def scores_matrix(obj, B, lead):
    """scores-like public DataArray -> array (*lead sizes, n) in catalogue row order."""
    import xarray as xr

    if not isinstance(obj, xr.DataArray):
        raise StructureError("container", "scores are %s, expected DataArray" % type(obj).__name__)
    a = obj
    if set(a.dims) != set(lead) | set(B["sdims"]):
        raise StructureError("dims", "dims %s, expected %s" % (sorted(map(str, a.dims)), sorted(set(lead) | set(B["sdims"]))))
    for d in B["sdims"]:
        a = _take(a, d, B["sindex"][d])
    a = a.transpose(*lead, *B["sdims"])
    v = np.asarray(a.values)
    return v.reshape(v.shape[: len(lead)] + (-1,))


def _match_perm(A, Bm, tol):
    """rows of A are a permutation of rows of Bm (values within tol): returns perm with A[i] ~ Bm[perm[i]] or None."""
    used = set()
    perm = []
    for i in range(A.shape[0]):
        d = np.abs(Bm - A[i][None, :]).max(axis=1)
        order = np.argsort(d, kind="stable")
        hit = None
        for j in order:
            if d[j] > tol:
                break
            if int(j) not in used:
                hit = int(j)
                break
        if hit is None:
            return None
        used.add(hit)
        perm.append(hit)
    return np.array(perm)


def align_input(Xin, M):
    """Xin[i, j] = M[pr[i], pc[j]]: numeric matching, rows first on column-order-free fingerprints."""
    if Xin.shape != M.shape:
        return None, None
    tol = 1e-9 * max(np.abs(M).max(), 1e-300)
    pr = _match_perm(np.sort(Xin, axis=1), np.sort(M, axis=1), tol)
    if pr is None:
        return None, None
    pc = _match_perm(Xin.T, M[pr].T, tol)
    if pc is None:
        return None, None
    return pr, pc


# ----------------------------------------------------------------------------- reference


def ref_eof(M, counts):
    """Centred EOF (N-1) of the resample that contains row i of M counts[i] times."""
    n = M.shape[0]
    c = np.asarray(counts, dtype=float)
    mean = (c[:, None] * M).sum(axis=0) / n
    Y = M - mean[None, :]
    C = (Y * c[:, None]).conj().T @ Y / (n - 1)  # Y = U S V^H  ->  (Y^H Y) V = V S^2
    w, Q = np.linalg.eigh((C + C.conj().T) / 2)
    w = np.clip(w[::-1], 0, None)
    return dict(lam=w, V=Q[:, ::-1], mean=mean, tv=float(np.trace(C).real))


_MULTISETS = {}


def _multisets(n):
    if n not in _MULTISETS:
        K = 1
        for i in range(n):
            K = K * (2 * n - 1 - i) // (i + 1)
        it = itertools.chain.from_iterable(itertools.combinations_with_replacement(range(n), n))
        _MULTISETS[n] = np.fromiter(it, dtype=np.int8, count=K * n).reshape(K, n)
    return _MULTISETS[n]


def search_resample(M, tv_obs, ev_obs, scale2, cache):
    """All with-replacement resamples (as count vectors) whose total variance and leading variances match the observation.
    `cache` (one dict per case) keeps the total variance of every resample of M."""
    n = M.shape[0]
    if n > 12:
        return None
    A = _multisets(n)
    if "tv" not in cache:
        r2 = (np.abs(M) ** 2).sum(axis=1)
        tv = np.empty(A.shape[0])
        step = 100000
        for a0 in range(0, A.shape[0], step):
            idx = A[a0 : a0 + step].astype(np.intp)
            mean = M[idx].mean(axis=1)
            tv[a0 : a0 + step] = (r2[idx].sum(axis=1) - n * (np.abs(mean) ** 2).sum(axis=1)) / (n - 1)
        cache["tv"] = tv
    hits = []
    for j in np.nonzero(np.abs(cache["tv"] - tv_obs) <= 1e-6 * scale2)[0][:2000]:
        counts = np.bincount(A[j].astype(np.intp), minlength=n)
        rf = ref_eof(M, counts)
        if np.abs(rf["lam"][: len(ev_obs)] - ev_obs).max() <= TOL * scale2:
            hits.append(counts)
    return hits


def _cos(a, b):
    """real part of the normalised (Hermitian) inner product <a, b> = a^H b"""
    na, nb = np.linalg.norm(a), np.linalg.norm(b)
    if na == 0 or nb == 0:
        return 0.0
    return float(np.vdot(a, b).real / na / nb)


def _undetermined(a, b, s0):
    """orientation of a against b is numerically undetermined under every pairing (with or without conjugate),
    or one of the two series is zero to rounding (the same threshold clause (d) uses)"""
    na, nb = np.linalg.norm(a), np.linalg.norm(b)
    if na <= 1e-6 * s0 or nb <= 1e-6 * s0:
        return True
    return min(abs(np.vdot(a, b)), abs(np.sum(a * b))) / na / nb <= 1e-6


# ----------------------------------------------------------------------------- one case


def _fit_boot(model, nb, bs, before=None):
    from xeofs.validation import EOFBootstrapper

    b = EOFBootstrapper(n_bootstraps=nb, seed=bs)
    with contextlib.redirect_stderr(io.StringIO()):  # tqdm
        if before is not None:
            b.fit(before)  # provenance: the judged fit is the second one of this object
        b.fit(model)
    return dict(comps=b.components(), scores=b.scores(), ev=b.explained_variance(), tv=b.data["total_variance"])


def _real(x, what):
    x = np.asarray(x)
    if np.iscomplexobj(x):
        if np.abs(x.imag).max() > 1e-12 * max(np.abs(x).max(), 1e-300):
            raise StructureError("complex_variance", "%s are not real" % what)
        x = x.real
    return x


def _member_dim(boot_da, model_da, what):
    extra = [d for d in boot_da.dims if d not in model_da.dims]
    missing = [d for d in model_da.dims if d not in boot_da.dims]
    if missing or len(extra) != 1:
        raise StructureError("member_dim", "%s has dims %s; the model's are %s (exactly one added member dimension expected)" % (what, list(boot_da.dims), list(model_da.dims)))
    return extra[0]


def _same_labels(boot_da, model_da, what):
    for d in model_da.dims:
        if (d in model_da.indexes) != (d in boot_da.indexes):
            raise StructureError("labels", "%s: coordinate of %r present in only one of bootstrapper/model" % (what, d))
        if d in model_da.indexes:
            a, b = boot_da.indexes[d], model_da.indexes[d]
            if len(a) != len(b) or not a.sort_values().equals(b.sort_values()) or list(getattr(a, "names", [])) != list(getattr(b, "names", [])):
                raise StructureError("labels", "%s: labels of %r differ from the model's" % (what, d))


def run_case(case, seed):
    import xeofs as xe

    B = build(case, seed)
    X0 = B["X0"]
    n, p = X0.shape
    k, nb, bs = case["n_modes"], case["n_boot"], case["bseed"]
    fl = case["flags"]
    sname, fname = NAMES[case["names"]]
    mclass = case.get("mclass", "EOF")
    dask_backed = case.get("backend", "numpy") != "numpy"
    rep_name = "dask_equals_memory" if dask_backed else "reproducible"
    prov = case.get("prov", "fresh")
    feats = dict(container=case["container"], default_names=case["names"] == "default", fitted=mclass, complex=mclass != "EOF", prov=prov, dask=dask_backed, unit_scale=float(case.get("scale", 1.0)) == 1.0)
    V = []

    def bad(check, msg, **extra):
        V.append(viol(check, "EOFBootstrapper", msg, **feats, **extra))

    with warnings.catch_warnings():
        warnings.simplefilter("ignore")
        def new_model(compute=None):
            kw = dict(compute=case.get("mcompute", True) if compute is None else compute, n_modes=k, center=fl[0] == "T", standardize=fl[1] == "T", use_coslat=fl[2] == "T", sample_name=sname, feature_name=fname, solver="full", random_state=3)
            if mclass == "HilbertEOF":
                return xe.single.HilbertEOF(padding="none", **kw)
            return getattr(xe.single, mclass)(**kw)

        model = new_model()
        try:
            model.fit(B["obj"], dim=B["dim"], weights=B["weights"])
        except NotImplementedError as e:
            if dask_backed and "chunked in one dimension only" in str(e):
                return dict(outcome="refused:NotImplementedError", nontrivial=False)  # DESIGN 3.4
            raise
        before = None
        if prov == "refit_same":
            before = model
        elif prov == "refit_other":
            B2 = build(case, seed, salt=1)
            before = new_model().fit(B2["obj"], dim=B2["dim"], weights=B2["weights"])
        m_comps, m_scores, m_ev = model.components(), model.scores(), model.explained_variance()
        Xin = np.asarray(model.data["input_data"].values)
        try:
            run1 = _fit_boot(model, nb, bs, before)
            if dask_backed:  # clause (e) becomes: the dask-backed model and the same data in memory give the same members for the same seed
                Bm = build(case, seed, backend="numpy")
                model_mem = new_model(True).fit(Bm["obj"], dim=Bm["dim"], weights=Bm["weights"])
                mem_scores = model_mem.scores()
                run2 = _fit_boot(model_mem, nb, bs)
            else:
                run2 = _fit_boot(model, nb, bs)  # always a fresh object: clause (e) relates the judged fit to it
        except (CaseTimeout, MemoryError):
            raise
        except Exception as e:  # the quantifier covers this model: raising is a violation (signature carries the naming)
            v = _exc_violation(case, e)
            v["model"] = "EOFBootstrapper"
            v["features"].update(sample_name_default=sname == "sample", feature_name_default=fname == "feature")
            return dict(violations=[v], outcome="raised:" + type(e).__name__, nontrivial=False)

    # ---------------- independent preprocessed samples, and the place of input_data's rows/columns in them
    M = R.preprocess(X0, fl[0] == "T", fl[1] == "T", B["clvec"], B["wvec"])
    if mclass == "HilbertEOF":
        M = R.analytic_centered(M)
    pr, pcol = align_input(Xin, M)
    if pr is None:
        bad("input_data", "model.data['input_data'] is not a row/column permutation of the reference preprocessed samples")
        return dict(violations=V, outcome="violation", nontrivial=False)

    # ---------------- (f) member dimension and structure
    listy = isinstance(m_comps, (list, tuple))
    try:
        mdim = _member_dim(run1["ev"], m_ev, "explained_variance")
        if _member_dim(run1["scores"], m_scores, "scores") != mdim:
            raise StructureError("member_dim", "member dimension is %r in explained_variance but %r in scores" % (mdim, _member_dim(run1["scores"], m_scores, "scores")))
        _same_labels(run1["scores"], m_scores, "scores")
        _same_labels(run1["ev"], m_ev, "explained_variance")
        if tuple(run1["tv"].dims) != (mdim,):
            raise StructureError("member_dim", "total_variance has dims %s, expected (%r,)" % (list(run1["tv"].dims), mdim))
        for what, bo in (("scores", run1["scores"]), ("explained_variance", run1["ev"]), ("total_variance", run1["tv"])):
            if bo.sizes[mdim] != nb:
                raise StructureError("member_length", "%s: member dimension has length %d, requested %d" % (what, bo.sizes[mdim], nb))
        if type(run1["comps"]) is not type(m_comps):
            raise StructureError("container", "components are %s, the model's are %s" % (type(run1["comps"]).__name__, type(m_comps).__name__))
        modes = np.asarray(m_ev["mode"].values)
        squeezed = False
        for pc_ in B["pieces"]:
            bo, mo = _piece_of(run1["comps"], pc_, B["cont"]), _piece_of(m_comps, pc_, B["cont"])
            if set(bo.dims) == set(mo.dims) and mdim not in mo.dims and nb == 1:
                squeezed = True  # reported below; the member is still evaluated
            elif set(bo.dims) != set(mo.dims) | {mdim}:
                raise StructureError("dims", "components have dims %s; the model's are %s (+ member dimension %r expected)" % (list(bo.dims), list(mo.dims), mdim))
            elif bo.sizes[mdim] != nb:
                raise StructureError("member_length", "components: member dimension has length %d, requested %d" % (bo.sizes[mdim], nb))
            _same_labels(bo, mo, "components")
        if squeezed:
            bad("structure", "components() carry no member dimension %r although n_bootstraps=1 was requested" % (mdim,), kind="member_dim_missing")

        def norm(a):  # the model's own structure may lack 'mode' (n_modes=1 on a Dataset); a squeezed member dim was reported above
            if "mode" not in a.dims and k == 1:
                a = a.drop_vars("mode", errors="ignore").expand_dims(mode=modes)
            if mdim not in a.dims and squeezed:
                a = a.drop_vars(mdim, errors="ignore").expand_dims({mdim: [1]})
            return a.sel(mode=modes)

        def norm_c(c, member):
            import xarray as xr

            f = norm if member else (lambda a: (a.drop_vars("mode", errors="ignore").expand_dims(mode=modes) if ("mode" not in a.dims and k == 1) else a).sel(mode=modes))
            if listy:
                return [f(x) for x in c]
            if isinstance(c, xr.Dataset):
                return xr.Dataset({v: f(c[v]) for v in c.data_vars})
            return f(c)

        def flat(run):
            return dict(
                Vb=np.moveaxis(comps_matrix(norm_c(run["comps"], True), B, [mdim, "mode"]), 1, 2),  # (nb, p, k)
                Sb=np.moveaxis(scores_matrix(run["scores"].sel(mode=modes), B, [mdim, "mode"]), 1, 2),  # (nb, n, k)
                ev=_real(run["ev"].sel(mode=modes).transpose(mdim, "mode").values, "explained_variance"),
                tv=_real(run["tv"].values, "total_variance"),
            )

        F1, F2 = flat(run1), flat(run2)
        Vm = comps_matrix(norm_c(m_comps, False), B, ["mode"]).T  # (p, k)
        Sm = scores_matrix(m_scores.sel(mode=modes), B, ["mode"]).T  # (n, k)
        # members are oriented against THEIR model: where the in-memory model's own mode has the opposite orientation of the dask-backed
        # model's (a tie in the model's sign convention, not the bootstrapper's business) the members must differ by exactly that factor
        rel = np.ones(k, dtype=Sm.dtype)
        if dask_backed:
            Sm_mem = scores_matrix(mem_scores.sel(mode=modes), B, ["mode"]).T
            for i in range(k):
                z = np.vdot(Sm_mem[:, i], Sm[:, i])
                rel[i] = z / abs(z) if abs(z) > 0 else 1.0
    except StructureError as e:
        bad("structure", str(e), kind=e.kind)
        return dict(violations=V, outcome="violation", nontrivial=False)
    for nm_, arr in (("components", F1["Vb"]), ("scores", F1["Sb"]), ("explained_variance", F1["ev"]), ("total_variance", F1["tv"])):
        if not np.all(np.isfinite(arr)):
            bad("finite", "%s contain non-finite values" % nm_, what=nm_)
    if any(v["check"] == "finite" for v in V):
        return dict(violations=V, outcome="violation", nontrivial=False)

    # ---------------- replay of the resamples (internal row i of input_data is catalogue row pr[i])
    rng = np.random.default_rng(bs)
    replay = [np.bincount(pr[rng.choice(n, n)], minlength=n) for _ in range(nb)]

    searched_fail = False
    search_cache = {}
    found_other = []
    n_sign = 0
    n_cluster = 0
    for j in range(nb):
        ev, tv, Vb, Sb = F1["ev"][j], float(F1["tv"][j]), F1["Vb"][j], F1["Sb"][j]
        rf = ref_eof(M, replay[j])
        scale2 = max(rf["lam"][0], np.abs(ev).max(), 1e-300)
        ok_ev = np.abs(ev - rf["lam"][:k]).max() <= TOL * scale2
        if not ok_ev and not searched_fail:
            hits = search_resample(M, tv, ev, scale2, search_cache)
            if hits:
                found_other.append(hits)
                rf = ref_eof(M, hits[0])
                scale2 = max(rf["lam"][0], 1e-300)
                ok_ev = True
            else:
                searched_fail = True
        s0 = np.sqrt(scale2 * (n - 1))
        # (a)
        if not ok_ev:
            bad("variances_of_resample", "member %d: explained variance %s; EOF of the replayed resample %s; no other with-replacement resample fits" % (j + 1, ev[:4], rf["lam"][:4]))
        if ev.min() < -TOL * scale2:
            bad("variances_nonnegative", "member %d: %s" % (j + 1, ev))
        if np.any(np.diff(ev) > TOL * scale2):
            bad("variances_descending", "member %d: %s" % (j + 1, ev))
        if ev.max() > tv + TOL * scale2 or ev.sum() > tv + k * TOL * scale2:
            bad("variances_exceed_total", "member %d: variances %s (sum %.6g) vs total variance %.6g" % (j + 1, ev[:4], ev.sum(), tv))
        if abs(tv - rf["tv"]) > TOL * scale2:
            bad("total_variance", "member %d: total variance %.9g; resample's %.9g" % (j + 1, tv, rf["tv"]))
        # (b)
        G = Vb.conj().T @ Vb
        e = np.abs(G - np.eye(k)).max()
        if not e <= TOL:
            bad("components_orthonormal", "member %d: |V^H V - I| = %.3e" % (j + 1, e))
        if ok_ev:
            sref = np.sqrt(rf["lam"] * (n - 1))
            for cl in D.clusters(sref, GAP):
                inside = [i for i in cl if i < k]
                if not inside:
                    continue
                if len(cl) > 1:
                    n_cluster += 1
                Q = rf["V"][:, cl]
                res = Vb[:, inside] - Q @ (Q.conj().T @ Vb[:, inside])
                e = np.abs(res).max()
                if not e <= 10 * TOL:
                    bad("components_subspace", "member %d: modes %s leave the reference eigen-subspace by %.3e" % (j + 1, [i + 1 for i in inside], e))
                    break
        # (c)
        proj = (M - rf["mean"][None, :]) @ Vb
        e = np.abs(Sb - proj).max() / max(s0, 1e-300)
        if ok_ev and not e <= TOL_ALG * 100:
            bad("scores_projection", "member %d: |scores - (X - resample mean) V| / s1 = %.3e" % (j + 1, e))
        # (d)
        for i in range(k):
            a, b = Sb[:, i], Sm[:, i]
            if np.linalg.norm(a) <= 1e-6 * s0 or np.linalg.norm(b) <= 1e-6 * s0:
                continue
            ac, bc = a - a.mean(), b - b.mean()
            meas = [_cos(a, b), _cos(Vb[:, i], Vm[:, i])]
            if np.linalg.norm(ac) > 1e-6 * s0 and np.linalg.norm(bc) > 1e-6 * s0:
                meas.append(_cos(ac, bc))
            if min(abs(x) for x in meas) <= 1e-6:
                continue  # (for complex models: real part of the Hermitian inner product, the loosest reading of 'correlates non-negatively')
            n_sign += 1
            if max(meas) < 0:
                bad("sign_alignment", "member %d mode %d correlates negatively with the model's mode (score cosine, component cosine, Pearson: %s)" % (j + 1, i + 1, ["%.3f" % x for x in meas]), centered=fl[0] == "T")
        # (e) second run with the same seed
        ev2, tv2, Vb2, Sb2 = F2["ev"][j], float(F2["tv"][j]), F2["Vb"][j], F2["Sb"][j]
        if np.abs(ev2 - ev).max() > TOL_ALG * scale2 or abs(tv2 - tv) > TOL_ALG * scale2:
            bad(rep_name + "_resample", "member %d: same seed, explained variance %s then %s" % (j + 1, ev[:4], ev2[:4]))
        elif ok_ev:
            for cl in D.clusters(sref, GAP):
                if cl[-1] >= k:
                    continue  # cluster shared with modes that were not retained: the retained vectors are not determined
                if len(cl) == 1:
                    i = cl[0]
                    ph = rel[i]
                    if _undetermined(Sb[:, i], Sm[:, i], s0):  # orientation itself undetermined: compare up to a unit factor
                        z = np.vdot(Vb2[:, i], Vb[:, i])
                        ph = z / abs(z) if abs(z) > 0 else 1.0
                    e = np.abs(Vb[:, i] - ph * Vb2[:, i]).max()
                    es = np.abs(Sb[:, i] - ph * Sb2[:, i]).max() / max(s0, 1e-300)
                    if not (e <= 100 * TOL and es <= 100 * TOL):
                        bad(rep_name + "_members", "member %d mode %d: same seed, components differ by %.3e, scores by %.3e" % (j + 1, i + 1, e, es))
                else:
                    e = np.abs(Vb[:, cl] @ Vb[:, cl].conj().T - Vb2[:, cl] @ Vb2[:, cl].conj().T).max()
                    if not e <= 100 * TOL:
                        bad(rep_name + "_members", "member %d modes %s: same seed, projectors differ by %.3e" % (j + 1, [i + 1 for i in cl], e))

    if found_other and len(found_other) == nb and nb >= 2 and all(all(np.all(h == 1) for h in hits) for hits in found_other):
        bad("without_replacement", "every one of the %d members is an EOF of the identity resample (a permutation of the samples)" % nb)

    dig = hashlib.sha1(np.asarray(replay[0]).tobytes()).hexdigest()[:8]
    # de-duplicate per check (one line per clause and case is enough)
    seen = set()
    V2 = []
    for v in V:
        if v["check"] not in seen:
            seen.add(v["check"])
            V2.append(v)
    return dict(
        violations=V2,
        outcome="violation" if V2 else "ok",
        nontrivial=not V2 and F1["Vb"].size > 0 and F1["Sb"].size > 0,
        info=dict(k=k, n_boot=nb, dask=dask_backed, prov=prov, fitted=mclass, resample=dig, sign_decided=n_sign, clusters=n_cluster, other_generator=bool(found_other)),
    )


def vacuity(outcomes, results, tier):
    ok = [r for r in results if r.get("outcome") == "ok"]
    if not ok:
        return "no bootstrap was evaluated to the end"
    if len({r["info"]["resample"] for r in ok}) < 2:
        return "the replayed resample never varied"
    if len({r["info"]["n_boot"] for r in ok}) < 3:
        return "fewer than three member counts evaluated"
    if sum(r["info"]["sign_decided"] for r in ok) == 0:
        return "sign alignment was never decidable"
    if sum(r["info"]["clusters"] for r in ok) == 0:
        return "no degenerate cluster was ever compared by subspace"
    if not any(r["info"].get("dask") for r in ok):
        return "no dask-backed model was evaluated"
    if not any(r["info"].get("prov") != "fresh" for r in ok):
        return "no second fit of a bootstrapper object was evaluated"
    return None
