"""C08 — Centering, standardisation and weights mean exactly what the options say.  Explorer G (presentation graph).

Nodes are *presentations* of one base data set: the base matrix after a chain of per-feature shifts, positive affine
maps, global factors and pre-multiplications, together with the fit options that travel with it (user weights, the
use_coslat flag).  Edges are transformations with a predicted effect on the fitted model:

    shift     X -> X + v            (centring on)                          nothing changes
    affine    X -> (X + b) a, a>0   (standardisation on; b=0 w/o centring)  nothing changes
    fold      (X, weights=W) -> (X W, weights=None)   (standardisation off) nothing changes
    cos2w     (X, use_coslat=True, weights=W0) -> (X, use_coslat=False, weights=W0 sqrt(cos lat))   nothing changes
    global    X -> c X              (standardisation off)   scores x c, singular values x |c|, explained variance x c^2,
                                                            components, fractions and correlations unchanged

Every case is one path of length 1 or 2 through that graph, starting at a base node (weights on/off x use_coslat
on/off).  Every node of the path is fitted with the REAL model; the law of every edge of the path and of the composed
path is evaluated between the two fitted models.  The oracle is therefore a relation between runs of the real code;
numpy is used only (i) to build the transformed matrices and the weight fields, (ii) for sqrt(cos(lat)), and (iii) to
measure how ill-conditioned the comparison is (section 4.3: digits necessarily lost by adding a large constant in
float64 are not a violation).
"""

from __future__ import annotations

import itertools
import json
import warnings

import numpy as np

from .. import data as D
from .. import ref as R
from ..core import viol

ID = "C08"
LEVEL = "model_checking"
TECHNIQUE = (
    "bounded exhaustive exploration of a presentation graph: breadth-first enumeration of all paths of length 1 and 2 over a finite "
    "alphabet of data/option transformations, every node fitted with the real model, every edge's predicted scaling law "
    "evaluated between the two real fits"
)
RULE = (
    "nodes = (base matrix after a chain of shift/affine/global/pre-multiplication, user weights, use_coslat flag) in a container "
    "(DataArray, Dataset, list); edges = shift (6 magnitudes +-1,+-1e3,+-1e6 times a per-feature pattern; centring on), affine "
    "(per-feature scales 10^-4..10^4 in 4 patterns with offsets; standardisation on), fold (weights=W <-> pre-multiplied data; "
    "standardisation off), cos2w (use_coslat <-> weights sqrt(cos lat); 9 latitude names x latitude sets incl. +-90), global "
    "(c in -3,.5,1e-6,1e6; per field for cross-set models). All depth-1 edges with the full parameter sets and all depth-2 "
    "compositions over a reduced parameter set, for EOF, ComplexEOF, SparsePCA(0,0), MCA, CPCCA(alpha grid) x (center, standardize) "
    "x base data class x start node (weights x coslat). states = distinct nodes fitted, transitions = edges whose law was evaluated, "
    "traces = law evaluations (edges and composed paths) carried out on two real fits. A case is non-trivial when every relation "
    "of its path compared components, scores and variances on non-empty arrays"
)
ASSUMPTIONS = [
    "the numeric catalogue (fixed spectra/shapes, orthogonal factors, weight fields and shift patterns drawn from VERIF_SEED) stands for 'all inputs'",
    "transformed copies are formed in float64; the comparison tolerance is 1e-10 + 20 x (relative rounding error of forming the node's "
    "data, measured after preprocessing) x (s1/gap of the compared singular subspace), i.e. digits necessarily lost are not counted",
    "vectors are compared per cluster of singular values (relative gap 1e-3): single modes entry-wise with the sign fixed unless the two "
    "largest loadings tie within 1e-6, clusters through their projector and their rank-|cluster| reconstruction",
    "global factor law for cross-set models: stated law (scores x c, singular values x |c_x c_y|) is demanded for fields with alpha=1; for a "
    "field with alpha<1 only the direction of its components, all fractions and all correlations are demanded unchanged; a joint sign "
    "per mode is free when c_x c_y < 0 (the two stated scalings are otherwise incompatible with non-negative singular values)",
    "cross-set models are run with use_pca=False (thorough: also n_pca_modes='all'); PCA truncation is C09/C16's subject",
    "fractions/correlations an accessor refuses on the source node are compared as 'refused on both nodes' (differential oracle, DESIGN 4.2)",
]
TALLY_KEYS = ("model", "kind", "container", "depth", "latname", "wpres", "entry", "store", "wstore")
TRUSTED = ["statsmodels import shim (/verif/shims) so that xeofs.cross constructors can be called; correction=None never reaches it"]
MAX_REFUSED_FRACTION = 0.02

EPS = float(np.finfo(float).eps)
K_TOL = 20.0
TOL_FLOOR = 1e-10
TOL_CAP = 1e-4  # a comparison looser than this is not counted as evaluated

# the nine accepted names, written out here on purpose (not imported from xeofs)
LATNAMES = ("lat", "latitude", "lats", "Latitude", "Lats", "Lat", "LATITUDE", "LATS", "LAT")
GRID = {1: (1, 1), 3: (3, 1), 4: (2, 2), 6: (3, 2), 10: (5, 2)}
LATSETS = {
    "L1": [40.0],
    "L2": [-30.0, 50.0],
    "L2p": [-90.0, 30.0],
    "L3": [-60.0, 10.0, 75.0],
    "L3p": [-90.0, 0.0, 90.0],
    "L3u": [30.0, -60.0, 90.0],
    "L3m": [-60.0, 0.0, 30.0],
    "L5": [-90.0, -60.0, 0.0, 30.0, 90.0],
}
DEFAULT_LATS = {1: "L1", 2: "L2", 3: "L3", 5: "L5"}

FULL = dict(
    shift=[1.0, -1.0, 1e3, -1e3, 1e6, -1e6],
    affine=[("ramp", 0.0), ("ramp", 10.0), ("alt", 1e3), ("lo", 10.0), ("hi", -10.0)],
    glob=[-3.0, 0.5, 1e-6, 1e6],
)
RED = dict(shift=[1e3, -1e6], affine=[("ramp", 10.0)], glob=[-3.0, 1e6])
RED_X = dict(shift=[1e3], affine=[("ramp", 10.0)], glob=[-3.0])
# tiny / huge physical units (mol/mol, kg m-2 s-1, Pa): global factors far below float32 eps and far above 1/eps
UNITS = dict(shift=[], affine=[], glob=[1e-10, 1e-8, 1e10])
# default PCA pre-reduction of cross-set models (float n_pca_modes = variance fraction): rescalings only, over many orders of magnitude
PCA_P = dict(shift=[], affine=[("lo", 10.0), ("ramp", 10.0)], glob=[1e-6, 1e-5, 1e5])
PCA_P_T = dict(shift=[], affine=[("lo", 10.0), ("ramp", 10.0), ("hi", -10.0), ("alt", 1e3)], glob=[1e-6, 1e-5, 1e5, -3.0])


# ----------------------------------------------------------------------------- alphabet


def _edges(sym, f, center, std, P):
    """edges applicable at the symbolic node `sym` on field f; `std` is the per-field list of standardize flags: an edge
    on field f is licensed by field f's OWN options, whatever the other field's options are."""
    out = []
    if center:
        out += [dict(kind="shift", f=f, mag=m) for m in P["shift"]]
    if std[f]:
        seen = set()
        for pat, off in P["affine"]:
            off = off if center else 0.0
            if (pat, off) not in seen:
                seen.add((pat, off))
                out.append(dict(kind="affine", f=f, pat=pat, off=off))
    else:
        out += [dict(kind="global", f=f, c=c) for c in P["glob"]]
        if sym["w"][f]:
            out.append(dict(kind="fold", f=f))
    if sym["cos"][f]:
        out.append(dict(kind="cos2w", f=f))
    return out


def _step(sym, e):
    w, c = list(sym["w"]), list(sym["cos"])
    if e["kind"] == "fold":
        w[e["f"]] = False
    elif e["kind"] == "cos2w":
        w[e["f"]], c[e["f"]] = True, False
    return dict(w=w, cos=c)


def _paths(start, nf, center, std, P1, P2):
    """all paths of length 1 over parameter set P1 and (if P2) of length 2 over P2."""
    out = []
    for f in range(nf):
        for e in _edges(start, f, center, std, P1):
            out.append([e])
    if P2:
        for f1 in range(nf):
            for e1 in _edges(start, f1, center, std, P2):
                s1 = _step(start, e1)
                for f2 in range(nf):
                    for e2 in _edges(s1, f2, center, std, P2):
                        if e2 != e1:
                            out.append([e1, e2])
    return out


def _both(start, center, std, P):
    """cross-set: the same edge applied to X and then to Y (each licensed by its own field's options)."""
    out = []
    for e0 in _edges(start, 0, center, std, P):
        e1 = dict(e0, f=1)
        if e1 in _edges(_step(start, e0), 1, center, std, P):
            out.append([e0, e1])
    if std[0] != std[1]:  # mixed flags: each field rescaled by the edge its own option licenses (affine where standardised, global where not)
        for e0 in _edges(start, 0, center, std, P):
            for e1 in _edges(start, 1, center, std, P):
                if {e0["kind"], e1["kind"]} == {"affine", "global"}:
                    out.append([e0, e1])
    return out


def _kind(path):
    return ">".join(e["kind"] for e in path)


def _mk(model, shape, spec, center, std, container, start, path, k, latname="lat", lats=None, alpha=None, pca="off", irr=None):
    nf = len(shape) - 1
    lats = lats or [DEFAULT_LATS[GRID[p][0]] for p in shape[1:]]
    c = dict(
        model=model, shape=list(shape), spec=spec, center=center, standardize=(list(std) if nf == 2 else bool(std)), container=container, latname=latname, lats=list(lats),
        n_modes=k, start=dict(w=list(start["w"]), cos=list(start["cos"])), path=path, depth=len(path), kind=_kind(path),
    )
    if nf == 2:
        c["alpha"] = list(alpha)
        c["pca"] = pca
        if irr is not None:
            c["irr"] = irr
        c["patterns"] = False
    return c


def _starts(nf):
    return [dict(w=[w] * nf, cos=[c] * nf) for w in (False, True) for c in (False, True)]


def _k_for(shape, spec):
    n = shape[0]
    r = min(D.rank_of(n, p, spec) for p in shape[1:])
    return max(1, min(3, r))


def cases(tier, seed):
    out = []
    thorough = tier == "thorough"
    FLAGS = [(True, False), (True, True), (False, False), (False, True)]

    # ---------------------------------------------------------------- single-set models
    def single(model, shape, spec, flags, containers, starts, depth2_starts, kmodes=None):
        for (c, s) in flags:
            for cont in containers:
                for st in starts:
                    if cont != "DA" and not (st["w"][0] or st["cos"][0]):
                        continue  # the container only matters where a weight field has to match it
                    p2 = RED if (st in depth2_starts and (cont == "DA" or thorough)) else None
                    for path in _paths(st, 1, c, [s], FULL, p2):
                        if cont != "DA" and not any(e["kind"] in ("fold", "cos2w") for e in path) and not thorough:
                            continue
                        for k in (kmodes or [_k_for(shape, spec)]):
                            out.append(_mk(model, shape, spec, c, s, cont, st, path, k))

    S1 = _starts(1)
    s_all = dict(w=[True], cos=[True])
    s_none = dict(w=[False], cos=[False])
    if not thorough:
        single("EOF", (12, 6), "geometric", FLAGS, ["DA", "DS", "LIST"], S1, [s_none, s_all])
        single("EOF", (4, 6), "geometric", FLAGS, ["DA"], [s_none, s_all], [])
        single("EOF", (9, 6), "flat_pair", FLAGS[:2], ["DA"], [s_none, s_all], [])
        single("ComplexEOF", (12, 6), "geometric", FLAGS[:2], ["DA"], [s_none, s_all], [s_all])
        single("SparsePCA", (12, 6), "geometric", FLAGS[:3], ["DA"], [s_none, s_all], [s_all])
    else:
        for shape, spec in (((12, 6), "geometric"), ((4, 6), "geometric"), ((9, 6), "flat_pair"), ((6, 4), "rank_def"), ((12, 6), "near_equal_var")):
            big = shape == (12, 6) and spec == "geometric"
            single("EOF", shape, spec, FLAGS, ["DA", "DS", "LIST"] if big else ["DA"], S1, S1 if big else [s_all],
                   kmodes=[1, 3, 6] if big else None)
        single("EOF", (8, 1), "geometric", FLAGS, ["DA"], [s_none, s_all], [s_all])
        for shape, spec in (((12, 6), "geometric"), ((9, 6), "flat_pair"), ((4, 6), "geometric")):
            single("ComplexEOF", shape, spec, FLAGS, ["DA", "DS"] if shape == (12, 6) else ["DA"], S1, [s_none, s_all])
            single("SparsePCA", shape, spec, FLAGS, ["DA", "LIST"] if shape == (12, 6) else ["DA"], S1, [s_none, s_all])

    # ---------------------------------------------------------------- use_coslat: names x latitude sets
    cos_only = dict(w=[False], cos=[True])
    cos_w = dict(w=[True], cos=[True])
    cos_path = [dict(kind="cos2w", f=0)]
    sweep = []
    for name in LATNAMES:
        sweep.append(((12, 10), "L5", name, "DA"))
    for ls in ("L3p", "L3u", "L3m"):
        for cont in ("DA", "DS", "LIST"):
            sweep.append(((12, 6), ls, "lat", cont))
    sweep += [((6, 4), "L2p", "Lat", "DA"), ((12, 10), "L5", "LATITUDE", "DS"), ((12, 10), "L5", "lats", "LIST")]
    if thorough:
        for name in LATNAMES:
            for ls in ("L3p", "L3u", "L3m", "L3"):
                for cont in ("DA", "DS", "LIST"):
                    sweep.append(((12, 6), ls, name, cont))
            sweep += [((12, 10), "L5", name, "DS"), ((12, 10), "L5", name, "LIST"), ((6, 4), "L2p", name, "DA"), ((8, 1), "L1", name, "DA")]
    seen = set()
    for shape, ls, name, cont in sweep:
        if (shape, ls, name, cont) in seen:
            continue
        seen.add((shape, ls, name, cont))
        models = ["EOF"] if not thorough else ["EOF", "ComplexEOF", "SparsePCA"]
        for model in models:
            for (c, s) in (FLAGS[:2] if not thorough else FLAGS):
                for st in (cos_only, cos_w):
                    k = _k_for(shape, "geometric")
                    out.append(_mk(model, shape, "geometric", c, s, cont, st, cos_path, k, latname=name, lats=[ls]))
                    if not s:  # use_coslat == pre-multiplied data: cos2w then fold
                        out.append(_mk(model, shape, "geometric", c, s, cont, st, cos_path + [dict(kind="fold", f=0)], k, latname=name, lats=[ls]))

    # ---------------------------------------------------------------- cross-set models
    def cross(model, alpha, shape, stds, containers, starts, depth2_starts, pca="off", P1=FULL, both=None, lats=None):
        """stds: list of per-field pairs [standardize_x, standardize_y]; both: parameter set for 'same edge on X and on Y' paths."""
        for s in stds:
            for cont in containers:
                for st in starts:
                    if cont != "DA" and not (any(st["w"]) or any(st["cos"])):
                        continue
                    p2 = RED_X if (st in depth2_starts and cont == "DA") else None
                    paths = _paths(st, 2, True, s, P1, p2)
                    if both and not p2:
                        paths += _both(st, True, s, both)
                    for path in paths:
                        if cont != "DA" and not any(e["kind"] in ("fold", "cos2w") for e in path):
                            continue
                        out.append(_mk(model, shape, "geometric", True, s, cont, st, path, _k_for(shape, "geometric"), alpha=alpha, pca=pca, lats=lats))

    FF, TT, FT, TF = [False, False], [True, True], [False, True], [True, False]
    STD4 = [FF, TT, FT, TF]
    x_all = dict(w=[True, True], cos=[True, True])
    x_none = dict(w=[False, False], cos=[False, False])
    # every per-field option in all four (x, y) combinations: weights given for one field only, use_coslat for one field only
    x_mixed = [dict(w=[True, False], cos=[False, True]), dict(w=[False, True], cos=[True, False])]
    S4 = [x_none, x_all] + x_mixed
    S16 = [dict(w=[wx, wy], cos=[cx, cy]) for wx in (False, True) for wy in (False, True) for cx in (False, True) for cy in (False, True)]
    if not thorough:
        cross("MCA", [1.0, 1.0], (9, 4, 3), [FF], ["DA"], [x_none, x_all], [])
        cross("MCA", [1.0, 1.0], (9, 4, 3), STD4, ["DA"], S4, [], P1=RED_X, both=RED_X)
        cross("MCA", [1.0, 1.0], (12, 6, 4), [FF], ["DS", "LIST"], [x_all] + x_mixed, [], P1=RED_X)
        cross("CPCCA", [0.5, 0.5], (9, 4, 3), [FF], ["DA"], [x_all], [x_all], P1=RED)
        cross("CPCCA", [0.5, 0.5], (9, 4, 3), [TT, FT, TF], ["DA"], x_mixed, [], P1=RED_X, both=RED_X)
        cross("CPCCA", [0.0, 1.0], (9, 4, 3), [FF, TF], ["DA"], [x_all], [], P1=RED_X)
        cross("MCA", [1.0, 1.0], (9, 4, 3), [FF], ["DA"], [x_none], [], P1=UNITS, both=UNITS)
        cross("CPCCA", [0.0, 1.0], (9, 4, 3), [FF], ["DA"], [x_none], [], P1=UNITS)
        cross("CPCCA", [1.0, 0.5], (9, 4, 3), [FF], ["DA"], [x_none], [], P1=UNITS)
    else:
        for shape in ((9, 4, 3), (12, 6, 4)):
            cross("MCA", [1.0, 1.0], shape, [FF, TT], ["DA", "DS", "LIST"], S4, [x_none, x_all])
        cross("MCA", [1.0, 1.0], (9, 4, 3), STD4, ["DA"], S16, [], P1=RED, both=RED)
        cross("MCA", [1.0, 1.0], (12, 6, 4), [FT, TF], ["DA", "DS", "LIST"], S4, [], P1=RED_X, both=RED_X)
        cross("MCA", [1.0, 1.0], (9, 4, 3), STD4, ["DA"], [x_all] + x_mixed, [x_all], pca="all", P1=RED)
        for ax in (0.0, 0.25, 0.5, 1.0):
            for ay in (0.0, 0.25, 0.5, 1.0):
                main = (ax, ay) in ((0.5, 0.5), (0.0, 1.0), (1.0, 1.0))
                cross("CPCCA", [ax, ay], (9, 4, 3), [FF, TT], ["DA", "LIST"] if main else ["DA"], S4 if main else [x_all],
                      [x_all] if main else [], P1=FULL if main else RED)
                cross("CPCCA", [ax, ay], (9, 4, 3), [FT, TF], ["DA"], S4 if main else x_mixed, [], P1=RED_X, both=RED_X)
        cross("CPCCA", [0.5, 0.5], (12, 6, 4), STD4, ["DA"], [x_all] + x_mixed, [x_all], P1=RED)

    # default PCA pre-reduction: n_pca_modes is a variance fraction, so the number of retained PCs must not depend on the units
    # of the data (global factor) nor, with standardisation on, on per-feature units (affine); edge on X only, Y only, both
    def cross_pca(model, alpha, fracs_irr, P):
        shape = (12, 6, 4)
        for (frac, irr) in fracs_irr:
            k = 1 if irr < 1.0 else 2  # int(rank * 0.3) = 1 PC per field; >= 2 PCs are needed for 90 % on the catalogue spectrum
            for std in (FF, TT):
                for st in ([x_none] if not thorough else [x_none, x_all]):
                    for path in _paths(st, 2, True, std, P, None) + _both(st, True, std, P):
                        if not all(e["kind"] in ("affine", "global") for e in path):
                            continue
                        out.append(_mk(model, shape, "geometric", True, std, "DA", st, path, k, alpha=alpha, pca="f%g" % frac, irr=irr))

    ALLF = [(0.999, 0.3), (0.999, 1.0), (0.9, 0.3), (0.9, 1.0)]
    if not thorough:
        cross_pca("MCA", [1.0, 1.0], ALLF, PCA_P)
        cross_pca("CPCCA", [0.5, 0.5], [(0.999, 1.0), (0.9, 0.3)], PCA_P)
        cross_pca("CCA", [0.0, 0.0], [(0.999, 1.0), (0.9, 0.3)], PCA_P)
    else:
        for model, alpha in (("MCA", [1.0, 1.0]), ("CPCCA", [0.5, 0.5]), ("CPCCA", [0.0, 1.0]), ("CCA", [0.0, 0.0])):
            cross_pca(model, alpha, ALLF, PCA_P_T)

    # ---------------------------------------------------------------- presentation of the user weights
    # xarray objects are matched by LABEL: a weight field carrying the data's coordinate labels in another storage order
    # (latitude N->S while the data is S->N, a permuted dimension) or only a subset of the feature dimensions is the same
    # weight field. Every weights == pre-multiplied-data path (fold) is repeated under each presentation of the weights.
    extra = []
    for c in out:
        kinds = [e["kind"] for e in c["path"]]
        if "fold" not in kinds:
            continue
        single_set = len(c["shape"]) == 2
        two_lons = all(GRID[p][1] > 1 for p in c["shape"][1:])
        if c["depth"] == 1 or c["kind"] == "cos2w>fold":
            if single_set or thorough:
                pres = ["rev", "perm"] + (["lat", "lat_rev"] if (c["container"] == "DA" and two_lons) else [])
            else:
                pres = ["perm"] + (["lat_rev"] if (c["container"] == "DA" and two_lons) else [])
            if c["kind"] == "cos2w>fold":  # the latitude-name sweep: one non-trivial order, lat-only weights under the plain name
                if thorough:
                    pres = ["perm"] + (["lat_rev"] if (c["latname"] == "lat" and c["container"] == "DA" and two_lons) else [])
                else:
                    pres = ["perm"] if (c["latname"] == "lat" or c["container"] != "DA") else []
        else:
            pres = ["perm"] if (c["model"] in ("EOF", "MCA") and c["center"] and (thorough or single_set)) else []
        for pr in pres:
            extra.append(dict(c, wpres=pr))
    out += extra
    for c in out:
        c.setdefault("wpres", "same")

    # ---------------------------------------------------------------- fitting entry point
    # single-set models have two public methods that fit: fit(X, dim, weights) and fit_transform(X, dim, weights) (the
    # cross-set classes only have fit). Every equivalence edge of the options (fold, cos2w, cos2w>fold) is evaluated on models
    # fitted through either one; the scores fit_transform returns are compared with model.scores() as well.
    extra = []
    for c in out:
        if len(c["shape"]) != 2 or c["wpres"] not in ("same", "perm"):
            continue
        kinds = c["kind"].split(">")
        if c["kind"] in ("cos2w", "cos2w>fold"):
            # the latitude sweep is large: second entry point where user weights are in play, all names for EOF, the plain name otherwise
            take = c["start"]["w"][0] and (c["model"] == "EOF" or c["latname"] == "lat") and (thorough or c["kind"] == "cos2w>fold" or c["latname"] == "lat")
        else:
            take = "fold" in kinds and (c["depth"] == 1 or thorough)
        if take:
            extra.append(dict(c, entry="fit_transform"))
    out += extra
    for c in out:
        c.setdefault("entry", "fit")

    # ---------------------------------------------------------------- storage type of the data
    # The same numbers held in integer storage (counts, packed data) are the same input: every weights / use_coslat /
    # pre-multiplied-data equivalence is repeated on an integer-valued field stored as int32 (int16, int64, uint8 thorough).
    # A node whose matrix is no longer integer-valued (after a fold or an affine map) is stored as float64 again.
    extra = []
    for c in out:
        kinds = [e["kind"] for e in c["path"]]
        if not ("fold" in kinds or "cos2w" in kinds) or c["model"] == "ComplexEOF" or c.get("wpres", "same") != "same":
            continue
        if c["spec"] != "geometric" or c["latname"] != "lat" or c.get("pca", "off") != "off":
            continue
        if not thorough and (c["depth"] > 1 and c["kind"] != "cos2w>fold" or c["model"] not in ("EOF", "MCA")):
            continue
        for store in (("int32",) if not thorough else ("int32", "int16", "int64", "uint8")):
            extra.append(dict(c, store=store))
    out += extra

    # ---------------------------------------------------------------- storage type of the user weights
    # integer-valued weights (band weights 1, 2, 3; counts) held in integer storage are the same weights as their float copy
    extra = []
    for c in out:
        kinds = [e["kind"] for e in c["path"]]
        if "fold" not in kinds or c.get("wpres", "same") != "same" or c.get("store") or c["latname"] != "lat" or c.get("pca", "off") != "off":
            continue
        if not thorough and (c["depth"] > 1 or c["model"] not in ("EOF", "MCA", "CPCCA") or c["spec"] != "geometric"):
            continue
        for ws in (("int64",) if not thorough else ("int64", "int32", "uint8")):
            extra.append(dict(c, wstore=ws))
    out += extra

    for c in out:
        if "patterns" in c:
            c["patterns"] = thorough  # homogeneous/heterogeneous correlation patterns are compared in the thorough tier only (0.1 s per fit)
    # simplest first: short paths, single-set, DataArray
    out.sort(key=lambda c: (c["depth"], len(c["shape"]), c["container"] != "DA"))
    # drop exact duplicates (the sweeps overlap)
    uniq, seen = [], set()
    for c in out:
        key = json.dumps(c, sort_keys=True)
        if key not in seen:
            seen.add(key)
            uniq.append(c)
    return uniq + _pre_cases(tier)


# ----------------------------------------------------------------------------- the options against the pre-processed data
# For the model classes the scaling-law graph above does not carry (inner decompositions of their own: ExtendedEOF with and
# without PCA pre-step, HilbertEOF, OPA, POP, penalised SparsePCA, EOFRotator): the fit with (center, standardize, use_coslat,
# weights) on X must equal the fit with every option off on the numpy-preprocessed matrix (X - mean)/std * sqrt(cos lat) * w.
PRE_MODELS = ["ExtendedEOF", "ExtendedEOF+pca", "HilbertEOF", "HilbertEOF+exp", "OPA", "POP", "SparsePCA+pen", "EOFRotator", "EOF"]


def _pre_cases(tier):
    out = []
    for model in PRE_MODELS:
        for (c, s, cl, w) in itertools.product([True, False], [False, True], [False, True], [False, True]):
            if not (s or cl or w or not c):
                continue  # nothing to undo
            if tier == "quick" and model in ("HilbertEOF+exp", "EOF") and not (s and (cl or w)):
                continue
            out.append(dict(sweep="pre", model=model, shape=[12, 6], spec="geometric", center=c, standardize=s, container="DA", latname="lat", lats=["L3"],
                            n_modes=3, start=dict(w=[w], cos=[cl]), path=[dict(kind="pre", f=0)], depth=1, kind="pre", entry="fit"))
    return out


def _pre_model(model, **kw):
    import xeofs as xe

    k = dict(n_modes=3, random_state=5, solver="full", **kw)
    rot = None
    if model == "ExtendedEOF":
        m = xe.single.ExtendedEOF(tau=1, embedding=2, **k)
    elif model == "ExtendedEOF+pca":
        m = xe.single.ExtendedEOF(tau=1, embedding=2, n_pca_modes=4, **k)
    elif model.startswith("HilbertEOF"):
        m = xe.single.HilbertEOF(padding="exp" if model.endswith("exp") else None, **k)
    elif model == "OPA":
        k["n_modes"] = 2
        m = xe.single.OPA(tau_max=2, n_pca_modes=3, **k)
    elif model == "POP":
        k.pop("solver")
        m = xe.single.POP(n_pca_modes=3, **k)
    elif model == "SparsePCA+pen":
        m = xe.single.SparsePCA(alpha=1e-2, beta=1e-3, **k)
    else:
        m = xe.single.EOF(**k)
        if model == "EOFRotator":
            rot = xe.single.EOFRotator(n_modes=3, power=1)
    return m, rot


def _run_pre(case, seed):
    import xarray as xr

    model = case["model"]
    n, p = case["shape"]
    lats = LATSETS["L3"]
    X = D.make_matrix(n, p, case["spec"], 1.0, False, seed, salt=81) + np.random.default_rng([int(seed), 818]).normal(size=p) * 3.0
    da = D.da_grid(X, 3, 2, lats=lats)
    rng = np.random.default_rng([int(seed), 808, p])
    wvec = 0.5 + 2.0 * rng.random(p) if case["start"]["w"][0] else None
    cl = np.repeat(R.sqrt_coslat(lats), 2) if case["start"]["cos"][0] else None
    wda = None if wvec is None else xr.DataArray(wvec.reshape(3, 2), dims=("lat", "lon"), coords={"lat": da.lat, "lon": da.lon})
    P = R.preprocess(X, case["center"], case["standardize"], cl, wvec)
    dp = D.da_grid(P, 3, 2, lats=lats)
    V = []
    with warnings.catch_warnings():
        warnings.simplefilter("ignore")
        ma, ra = _pre_model(model, center=case["center"], standardize=case["standardize"], use_coslat=bool(case["start"]["cos"][0]))
        mb, rb = _pre_model(model, center=False, standardize=False, use_coslat=False)
        ma.fit(da, dim="time", weights=wda)
        mb.fit(dp, dim="time")
        a, b = ma, mb
        if ra is not None:
            a, b = ra.fit(ma), rb.fit(mb)
        obs = {}
        for nm in ("components", "scores", "explained_variance", "explained_variance_ratio", "singular_values", "eigenvalues", "decorrelation_time", "filter_patterns"):
            if hasattr(a, nm):
                obs[nm] = (getattr(a, nm)(), getattr(b, nm)())
    compared = 0
    for nm, (qa, qb) in obs.items():
        try:
            qa2, qb2 = xr.align(qa, qb, join="exact")
            qb2 = qb2.transpose(*qa2.dims)
        except Exception as e:  # noqa: BLE001
            V.append(viol("options_vs_preprocessed", model, "%s: label sets differ between the two fits (%s)" % (nm, type(e).__name__), quantity=nm))
            continue
        va, vb = np.asarray(qa2.values), np.asarray(qb2.values)
        if model == "POP" or model.startswith("HilbertEOF"):
            # complex modes are defined up to a unit factor (DESIGN 11.1): compare magnitudes, and the spectrum itself
            if nm in ("components", "scores"):
                va, vb = np.abs(va), np.abs(vb)
        fin = np.isfinite(va) & np.isfinite(vb)
        if not np.array_equal(np.isfinite(va), np.isfinite(vb)) or not fin.any():
            V.append(viol("options_vs_preprocessed", model, "%s: missing values differ between the two fits" % nm, quantity=nm))
            continue
        e = float(np.max(np.abs(va[fin] - vb[fin]))) / max(float(np.max(np.abs(vb[fin]))), 1e-300)
        compared += 1
        if not e <= 1e-7:
            V.append(viol("options_vs_preprocessed", model, "%s of the fit with options (center=%s, standardize=%s, use_coslat=%s, weights=%s) differs from the fit with all options "
                          "off on the preprocessed matrix by %.3e (relative)" % (nm, case["center"], case["standardize"], bool(case["start"]["cos"][0]), bool(case["start"]["w"][0]), e),
                          quantity=nm, standardize=bool(case["standardize"])))
    return dict(violations=V, outcome="violation" if V else "ok", nontrivial=not V and compared >= 2, states=2, transitions=1, traces=1,
                info=dict(nodes=[json.dumps(["pre", case["model"], case["center"], case["standardize"], case["start"], i]) for i in (0, 1)], kind="pre", latname="lat", wpres="same", entry="fit",
                          values=compared, vectors=1, clusters=0, skipped_loose=0, skipped_cut=0, skipped_null=0, delta=0.0, margin=0.0))


# ----------------------------------------------------------------------------- presentations (numpy -> xarray -> numpy)


class Field:
    """layout of one n x p field: (time, <latname>, lon) grid, column j = lat j//nlon, lon j%nlon."""

    def __init__(self, n, p, latname, latkey, container, tag):
        self.n, self.p = n, p
        self.nlat, self.nlon = GRID[p]
        self.lats = np.asarray(LATSETS[latkey], dtype=float)
        assert len(self.lats) == self.nlat
        self.latname = latname
        self.container = container if self.nlon == 2 else "DA"
        self.lons = np.arange(self.nlon) * 30.0 + 5.0
        self.time = np.arange(n) * 2 + 1
        self.tag = tag
        self.coslat = np.repeat(R.sqrt_coslat(self.lats), self.nlon)  # sqrt(cos(lat)) per column

    def _grid(self, A, with_time):
        import xarray as xr

        if with_time:
            return xr.DataArray(A.reshape(self.n, self.nlat, self.nlon), dims=("time", self.latname, "lon"),
                                coords={"time": self.time, self.latname: self.lats, "lon": self.lons}, name=self.tag)
        return xr.DataArray(A.reshape(self.nlat, self.nlon), dims=(self.latname, "lon"), coords={self.latname: self.lats, "lon": self.lons}, name=self.tag + "_w")

    def build(self, A, with_time=True):
        import xarray as xr

        da = self._grid(np.asarray(A), with_time)
        if self.container == "DA":
            return da
        parts = {v: da.isel(lon=i, drop=True).rename(v) for i, v in enumerate(("a", "b"))}
        if self.container == "DS":
            return xr.Dataset(parts)
        return [parts["a"], parts["b"]]

    def features(self, obj, extra):
        """label-keyed p x len(extra-dim) matrix of a feature-shaped result (components, patterns)."""
        ref = {self.latname: self.lats, "lon": self.lons, extra[0]: extra[1]}
        if self.container == "DA":
            return D.to_matrix(obj, [self.latname, "lon"], [extra[0]], ref)
        import xarray as xr

        if self.container == "DS":
            if not isinstance(obj, xr.Dataset):
                raise D.LabelError("expected a Dataset, got %s" % type(obj).__name__)
            items = [obj["a"], obj["b"]]
        else:
            if not isinstance(obj, (list, tuple)) or len(obj) != 2:
                raise D.LabelError("expected a list of 2 DataArrays, got %s" % type(obj).__name__)
            items = list(obj)
        out = None
        for i, it in enumerate(items):
            A = D.to_matrix(it, [self.latname], [extra[0]], ref)
            if out is None:
                out = np.zeros((self.p, A.shape[1]), dtype=A.dtype if np.iscomplexobj(A) else float)
            out[i :: self.nlon, :] = A
        return out


class Ctx:
    def __init__(self, case, seed):
        self.case = case
        self.seed = seed
        sh = case["shape"]
        self.n = sh[0]
        self.nf = len(sh) - 1
        self.cplx = case["model"] == "ComplexEOF"
        st = case["standardize"]
        self.std = [bool(x) for x in st] if isinstance(st, (list, tuple)) else [bool(st)] * self.nf
        self.fields = [Field(self.n, p, case["latname"], case["lats"][i], case["container"], "xy"[i]) for i, p in enumerate(sh[1:])]
        self.base = [D.make_matrix(self.n, p, case["spec"], 1.0, self.cplx, seed, salt=80 + i) for i, p in enumerate(sh[1:])]
        self.store = case.get("store")
        if self.store:  # integer-valued numbers (non-negative for unsigned storage)
            self.base = [np.rint(M * (40.0 / np.abs(M).max())) for M in self.base]
            if self.store.startswith("u"):
                self.base = [M - M.min() for M in self.base]
        self.W, self.u = [], []
        for i, p in enumerate(sh[1:]):
            rng = np.random.default_rng([int(seed), 808, p, i])
            W = 0.5 + 2.0 * rng.random(p)
            if case.get("wstore"):
                W = rng.integers(1, 4, size=p).astype(float)
            if str(case.get("wpres", "same")).startswith("lat"):  # weights given on a subset of the feature dims (latitude only)
                nlat, nlon = GRID[p]
                W = np.repeat(W[:nlat], nlon)
            self.W.append(W)
            u = (0.5 + rng.random(p)) * np.where(rng.random(p) < 0.5, -1.0, 1.0)
            if self.cplx:
                u = u + 1j * (0.5 + rng.random(p)) * np.where(rng.random(p) < 0.5, -1.0, 1.0)
            self.u.append(u)

    # ---- nodes
    def start(self):
        st = self.case["start"]
        return [dict(M=self.base[f], w=self.W[f] if st["w"][f] else None, cos=bool(st["cos"][f]), g=np.ones(self.base[f].shape[1])) for f in range(self.nf)]

    def _scales(self, pat, p):
        if pat == "ramp":
            e = np.linspace(-4.0, 4.0, p) if p > 1 else np.array([-4.0])
        elif pat == "alt":
            e = np.where(np.arange(p) % 2 == 0, 4.0, -4.0)
        elif pat == "lo":
            e = np.full(p, -4.0)
        else:
            e = np.full(p, 4.0)
        return 10.0**e

    def apply(self, node, e):
        """-> (new node, [factor per field])"""
        f = e["f"]
        new = [dict(x) for x in node]
        fs = new[f]
        c = [1.0] * self.nf
        k = e["kind"]
        if k == "shift":
            fs["M"] = fs["M"] + e["mag"] * self.u[f][None, :]
        elif k == "affine":
            fs["M"] = (fs["M"] + e["off"] * self.u[f][None, :]) * self._scales(e["pat"], fs["M"].shape[1])[None, :]
            fs["g"] = fs["g"] * self._scales(e["pat"], fs["M"].shape[1])
        elif k == "global":
            fs["M"] = fs["M"] * e["c"]
            fs["g"] = fs["g"] * e["c"]
            c[f] = e["c"]
        elif k == "fold":
            fs["M"] = fs["M"] * fs["w"][None, :]
            fs["g"] = fs["g"] * fs["w"]
            fs["w"] = None
        elif k == "cos2w":
            cw = self.fields[f].coslat
            fs["w"] = cw.copy() if fs["w"] is None else fs["w"] * cw
            fs["cos"] = False
        else:
            raise ValueError(k)
        return new, c

    # ---- real fits
    def fit(self, node):
        case = self.case
        args = [self._stored(self.fields[f].build(node[f]["M"]), node[f]["M"]) for f in range(self.nf)]
        wts = [None if node[f]["w"] is None else self._present_weights(self.fields[f], node[f]["w"]) for f in range(self.nf)]
        with warnings.catch_warnings():
            warnings.simplefilter("ignore")
            if self.nf == 1:
                return self._fit_single(node, args[0], wts[0])
            return self._fit_cross(node, args, wts)

    def _stored(self, obj, M):
        """the field in the case's storage type, if its numbers are representable there exactly (else float64 as built)"""
        import xarray as xr

        if not self.store or np.iscomplexobj(M):
            return obj
        info = np.iinfo(self.store)
        if not (np.array_equal(M, np.rint(M)) and M.min() >= info.min and M.max() <= info.max):
            return obj
        cast = lambda o: o.astype(self.store)  # noqa: E731
        out = [cast(o) for o in obj] if isinstance(obj, list) else cast(obj)
        first = out[0] if isinstance(out, list) else (out[list(out.data_vars)[0]] if isinstance(out, xr.Dataset) else out)
        assert str(first.dtype) == self.store
        return out

    def _present_weights(self, fld, wvec):
        """the weight vector (label-keyed: column j = lat j//nlon, lon j%nlon) as an xarray object in the case's presentation:
        same labels, possibly another storage order per feature dim, possibly only the latitude dimension."""
        import xarray as xr

        pres = str(self.case.get("wpres", "same"))
        if pres.startswith("lat") and fld.container == "DA" and fld.nlon > 1:
            col = wvec.reshape(fld.nlat, fld.nlon)
            assert np.array_equal(col, np.repeat(col[:, :1], fld.nlon, axis=1)), "harness error: lat-only weights must be constant along lon"
            obj = xr.DataArray(col[:, 0].copy(), dims=(fld.latname,), coords={fld.latname: fld.lats}, name=fld.tag + "_w")
        else:
            obj = fld.build(wvec[None, :], with_time=False)
        ws = self.case.get("wstore")
        if ws and np.array_equal(wvec, np.rint(wvec)):  # only integer-valued weights are representable in integer storage
            obj = [o.astype(ws) for o in obj] if isinstance(obj, list) else obj.astype(ws)
        order = pres.split("_")[-1]
        if order not in ("rev", "perm"):
            return obj

        def reorder(o):
            idx = {}
            for d in (fld.latname, "lon"):
                if d in o.dims and o.sizes[d] > 1:
                    n = o.sizes[d]
                    if d == "lon":
                        if order == "perm":
                            idx[d] = np.arange(n)[::-1]
                    else:
                        idx[d] = np.arange(n)[::-1] if order == "rev" else np.roll(np.arange(n), 1)
            return o.isel(idx)

        return [reorder(o) for o in obj] if isinstance(obj, list) else reorder(obj)

    def _fit_single(self, node, X, w):
        import xeofs as xe

        case = self.case
        k = case["n_modes"]
        kw = dict(n_modes=k, center=case["center"], standardize=case["standardize"], use_coslat=node[0]["cos"], random_state=5, solver="full")
        if case["model"] == "SparsePCA":
            m = xe.single.SparsePCA(alpha=0.0, beta=0.0, **kw)
        else:
            m = getattr(xe.single, case["model"])(**kw)
        ret = None
        if case.get("entry", "fit") == "fit_transform":
            ret = m.fit_transform(X, dim="time", weights=w)
        else:
            m.fit(X, dim="time", weights=w)
        fld = self.fields[0]
        modes = np.arange(1, k + 1)
        o = dict(
            V=[fld.features(m.components(), ("mode", modes))],
            S=[D.to_matrix(m.scores(), ["time"], ["mode"], {"time": fld.time, "mode": modes})],
            vals={}, mats={}, pats={},
        )
        if hasattr(m, "singular_values"):
            o["sv"] = np.asarray(m.singular_values().sel(mode=modes).values)
        o["ev"] = np.asarray(m.explained_variance().sel(mode=modes).values)
        o["G"] = [self._gain(m.preprocessor, 0, node)]
        if ret is not None:  # what the second entry point returns is the fitted model's scores
            Rm = D.to_matrix(ret, ["time"], ["mode"], {"time": fld.time, "mode": modes})
            o["entry_dev"] = _mx(Rm - o["S"][0]) / max(_mx(o["S"][0]), 1e-300)
        o["vals"]["explained_variance_ratio"] = np.asarray(m.explained_variance_ratio().sel(mode=modes).values)
        return o

    def _fit_cross(self, node, args, wts):
        import xeofs as xe

        case = self.case
        k = case["n_modes"]
        pca = case["pca"] != "off"
        kw = dict(n_modes=k, standardize=list(self.std), use_coslat=[node[0]["cos"], node[1]["cos"]], use_pca=pca, n_pca_modes="all",
                  random_state=5, solver="full")
        if str(case["pca"]).startswith("f"):  # the default kind of pre-reduction: keep a fraction of the variance
            kw.update(n_pca_modes=float(case["pca"][1:]), pca_init_rank_reduction=float(case["irr"]))
        if case["model"] in ("MCA", "CCA"):
            m = getattr(xe.cross, case["model"])(**kw)
        else:
            m = xe.cross.CPCCA(alpha=list(case["alpha"]), **kw)
        m.fit(args[0], args[1], dim="time", weights_X=wts[0], weights_Y=wts[1])
        modes = np.arange(1, k + 1)
        fx, fy = self.fields
        cx, cy = m.components()
        sx, sy = m.scores()
        tref = {"time": fx.time, "mode": modes}
        o = dict(
            V=[fx.features(cx, ("mode", modes)), fy.features(cy, ("mode", modes))],
            S=[D.to_matrix(sx, ["time"], ["mode"], tref), D.to_matrix(sy, ["time"], ["mode"], tref)],
            sv=np.asarray(m.data["singular_values"].sel(mode=modes).values), vals={}, mats={}, pats={},
            G=[self._gain(m.preprocessor1, 0, node), self._gain(m.preprocessor2, 1, node)],
        )
        names = ["squared_covariance_fraction", "fraction_variance_X_explained_by_X", "fraction_variance_Y_explained_by_Y",
                 "fraction_variance_Y_explained_by_X", "cross_correlation_coefficients"]
        if case["model"] == "MCA":
            names.append("covariance_fraction_CD95")
        for nm in names:
            try:
                o["vals"][nm] = np.asarray(getattr(m, nm)().sel(mode=modes).values)
            except Exception as e:  # compared as an observation (differential)
                o["vals"][nm] = "refused:" + type(e).__name__
        mref = {"mode_x": modes, "mode_y": modes}
        for nm in ("correlation_coefficients_X", "correlation_coefficients_Y"):
            o["mats"][nm] = D.to_matrix(getattr(m, nm)(), ["mode_x"], ["mode_y"], mref)
        for nm in ("homogeneous_patterns", "heterogeneous_patterns") if case.get("patterns") else ():
            (p1, p2), _ = getattr(m, nm)(correction=None)
            o["pats"][nm] = [fx.features(p1, ("mode", modes)), fy.features(p2, ("mode", modes))]
        return o

    def _gain(self, pre, f, node):
        """per-cell factor the fitted Scaler multiplies the (centred) data with, times the gain of the node's data over the base
        data: coslat_weights_ * weights_ / std_ * g.  White-box: exactly the state the property's anchors name."""
        outs = []
        fld = self.fields[f]
        ones = fld.build(np.ones((1, fld.p)), with_time=False)  # label-aligned broadcast of lat-only weights onto the feature grid
        ones = ones if isinstance(ones, list) else [ones]
        for i, sc in enumerate(pre.scaler.transformers):
            g = ones[i] * sc.weights_
            if sc.with_coslat:
                g = g * sc.coslat_weights_
            if sc.with_std:
                g = g / sc.std_
            outs.append(g.expand_dims(one=[0]))
        obj = outs if fld.container == "LIST" else outs[0]
        return fld.features(obj, ("one", np.array([0])))[:, 0] * node[f]["g"]

    # ---- conditioning of a node (numpy only): spectrum of what is decomposed, rounding error of forming the node
    def conditioning(self, node):
        case = self.case
        per = []
        for f in range(self.nf):
            M = node[f]["M"]
            cl = self.fields[f].coslat if node[f]["cos"] else None
            P = R.preprocess(M, case["center"], self.std[f], cl, node[f]["w"])
            s = np.linalg.svd(P, compute_uv=False)
            scale = np.ones(M.shape[1])
            sd = np.sqrt(np.mean(np.abs(M - M.mean(axis=0, keepdims=True)) ** 2, axis=0))
            if self.std[f]:
                scale = scale / np.maximum(sd, 1e-300)
            if cl is not None:
                scale = scale * cl
            if node[f]["w"] is not None:
                scale = scale * node[f]["w"]
            delta = EPS * np.linalg.norm(np.abs(M) * scale[None, :]) / max(s[0], 1e-300)
            # relative rounding error of a stored standard deviation: the column carries eps * max|x| absolute error
            cell = np.full(M.shape[1], 4 * EPS) if not self.std[f] else 4 * EPS * (1.0 + np.max(np.abs(M), axis=0) / np.maximum(sd, 1e-300))
            per.append(dict(P=P, s=s, delta=delta, cell=cell, sd_min=(float(sd.min()) if sd.size else 0.0) if self.std[f] else np.inf))
        if self.nf == 1:
            return dict(s=per[0]["s"], delta=per[0]["delta"], sd_min=per[0]["sd_min"], cell=[per[0]["cell"]])
        N = self.n
        Wh, delta = [], 0.0
        for f in range(2):
            a = float(case["alpha"][f])
            P, s = per[f]["P"], per[f]["s"]
            kappa = 1.0
            if a < 1.0:
                nz = s[s > s[0] * 1e-12]
                kappa = (nz[0] / nz[-1]) ** (1.0 - a)
                P = P @ R.frac_power_psd(P.conj().T @ P / (N - 1), (a - 1.0) / 2.0)
            Wh.append(P)
            delta += per[f]["delta"] * kappa
        C = Wh[0].conj().T @ Wh[1] / (N - 1)
        return dict(s=np.linalg.svd(C, compute_uv=False), delta=delta, sd_min=min(per[0]["sd_min"], per[1]["sd_min"]), cell=[per[0]["cell"], per[1]["cell"]])


# ----------------------------------------------------------------------------- law evaluation


def _mx(a):
    a = np.asarray(a)
    return float(np.max(np.abs(a))) if a.size else 0.0


def _tie(v):
    a = np.sort(np.abs(v))[::-1]
    return len(a) < 2 or (a[0] - a[1]) <= 1e-6 * max(a[0], 1e-300)


def _colnorm(A):
    nrm = np.sqrt(np.sum(np.abs(A) ** 2, axis=0, keepdims=True))
    return A / np.maximum(nrm, 1e-300)


def evaluate(a, b, c, alpha, conds, k, bad):
    """law `c` (factor per field) between source observables `a` and target observables `b`. Returns dict of counters."""
    nf = len(a["V"])
    cond_s = conds[0]["s"]
    delta = conds[0]["delta"] + conds[1]["delta"]
    s1 = max(cond_s[0], 1e-300)
    tv = TOL_FLOOR + K_TOL * delta
    done = dict(values=0, vectors=0, clusters=0, skipped_loose=0, skipped_cut=0, skipped_null=0, margin=0.0)
    cabs = [abs(x) for x in c]
    strict = [(c[f] == 1.0) or (alpha[f] == 1.0) for f in range(nf)]
    neg = nf == 2 and (c[0] * c[1] < 0)

    # ---- what the Scaler learnt: per cell, (coslat x weights / std) x gain of the node's data is multiplied by exactly c.
    # Relative per cell, so that a cell with a tiny weight (the poles under use_coslat) is compared as sharply as any other
    for f in range(nf):
        Ga, Gb = np.asarray(a["G"][f]), np.asarray(b["G"][f])
        pred = c[f] * Ga
        tcell = TOL_FLOOR + K_TOL * (conds[0]["cell"][f] + conds[1]["cell"][f])
        rel = np.abs(Gb - pred) / np.maximum(np.maximum(np.abs(pred), np.abs(Gb)), 1e-300)
        rel = np.where((pred == 0) & (Gb == 0), 0.0, rel)
        i = int(np.argmax(rel - tcell))
        if not np.all(rel <= tcell):
            bad("effective_weight", "field %s cell %d: the fitted scaler multiplies the base data by %.6e, predicted %.6e (rel. dev. %.3e > %.1e)"
                % ("xy"[f], i, Gb[i], pred[i], rel[i], tcell[i]), field="xy"[f])
        done["values"] += 1

    # ---- values
    if "sv" in a and all(strict):
        fac = float(np.prod(cabs))
        e = _mx(b["sv"] - fac * a["sv"]) / max(fac * _mx(a["sv"]), 1e-300)
        if not e <= tv:
            bad("singular_values", "reported %s, predicted %s x %s (rel. err %.3e > %.1e)" % (np.asarray(b["sv"])[:4], fac, np.asarray(a["sv"])[:4], e, tv))
        done["values"] += 1
    if "ev" in a:
        fac = cabs[0] ** 2
        e = _mx(b["ev"] - fac * a["ev"]) / max(fac * _mx(a["ev"]), 1e-300)
        if not e <= 2 * tv:
            bad("explained_variance", "reported %s, predicted %s x %s (rel. err %.3e)" % (np.asarray(b["ev"])[:4], fac, np.asarray(a["ev"])[:4], e))
        done["values"] += 1
    # fractions: explained-variance ratios are value-level; the cross-set fractions are residuals after reconstructing
    # with single modes, i.e. as well conditioned as the least separated reported mode
    tfrac = 2 * tv
    if nf == 2:
        tfrac = 10 * (TOL_FLOOR + K_TOL * delta * s1 / max(_min_gap(cond_s, range(min(k, len(cond_s)))), 1e-300))
    for nm, va in a["vals"].items():
        vb = b["vals"].get(nm)
        if isinstance(va, str) or isinstance(vb, str):
            if va != vb:
                bad("fraction_refusal", "%s: source node %s, target node %s" % (nm, va if isinstance(va, str) else "answered", vb if isinstance(vb, str) else "answered"), quantity=nm)
            continue
        if tfrac > TOL_CAP:
            continue
        e = _mx(np.asarray(vb) - np.asarray(va))
        if not e <= tfrac:
            bad("fraction_changed", "%s: %s -> %s (abs. diff %.3e > %.1e)" % (nm, np.round(np.asarray(va)[:4], 12), np.round(np.asarray(vb)[:4], 12), e, tfrac), quantity=nm)
        done["values"] += 1

    # ---- vectors, per cluster of the decomposed matrix's singular values
    cl = D.clusters(cond_s, gap=1e-3)
    sign = np.ones((nf, k))
    decided = np.zeros(k, dtype=bool)
    for idx in cl:
        if idx[0] >= k:
            break
        if idx[-1] >= k:
            done["skipped_cut"] += 1
            continue
        vals = cond_s[idx]
        others = np.delete(cond_s, idx)
        gap = min(float(vals.min()), float(np.min(np.abs(vals[:, None] - others[None, :]))) if others.size else np.inf)
        if gap <= 1e-8 * s1:
            done["skipped_null"] += 1
            continue
        tvec = TOL_FLOOR + K_TOL * delta * s1 / gap
        if tvec > TOL_CAP:
            done["skipped_loose"] += 1
            continue
        if len(idx) == 1:
            j = idx[0]
            # joint sign of the mode: free only when c_x c_y < 0 (then e_x e_y = -1), else fixed unless the loadings tie
            ex = 1.0
            if neg:
                ex = 1.0 if np.real(np.vdot(a["V"][0][:, j], b["V"][0][:, j])) >= 0 else -1.0
            es = [ex, -ex] if neg else [1.0] * nf
            errs = _mode_errs(a, b, c, strict, es, j)
            if max(errs.values()) > tvec and not neg:
                alt = _mode_errs(a, b, c, strict, [-1.0] * nf, j)
                if max(alt.values()) <= tvec:
                    # the mode came back with the opposite orientation (components and scores jointly): legitimate only when the
                    # two largest loadings of the vector the sign convention looks at tie
                    ref_f = nf - 1
                    if not (_tie(a["V"][ref_f][:, j]) or _tie(b["V"][ref_f][:, j])):
                        bad("mode_sign", "mode %d: components came back as -1 x the predicted ones and scores as %s x the source scores "
                            "(predicted factor %s); no tie between the two largest loadings" % (j + 1, [-x for x in c], c), negative_factor=bool(min(c) < 0))
                    errs, es = alt, [-1.0] * nf
            for nm, e in errs.items():
                done["margin"] = max(done["margin"], e / tvec)
                if not e <= tvec:
                    bad(nm.split(":")[0], "mode %d field %s: deviation %.3e > %.1e from the predicted %s" % (j + 1, nm.split(":")[1], e, tvec, nm.split(":")[0]), field=nm.split(":")[1])
            for f in range(nf):
                sign[f, j] = es[f]
            decided[j] = True
            done["vectors"] += 1
        else:
            for f in range(nf):
                Va, Vb = a["V"][f][:, idx], b["V"][f][:, idx]
                if not strict[f]:
                    continue
                if nf == 1:  # orthonormal components: projector onto the cluster's subspace
                    e = _mx(Vb @ Vb.conj().T - Va @ Va.conj().T)
                    if not e <= tvec:
                        bad("components", "modes %s (degenerate cluster): projector differs by %.3e > %.1e" % ([i + 1 for i in idx], e, tvec), field="xy"[f])
                Ta = c[f] * a["S"][f][:, idx] @ Va.conj().T
                Tb = b["S"][f][:, idx] @ Vb.conj().T
                e = _mx(Tb - Ta) / max(_mx(Ta), 1e-300)
                if not e <= tvec:
                    bad("scores", "modes %s (degenerate cluster): S V^H differs from the predicted one by %.3e > %.1e" % ([i + 1 for i in idx], e, tvec), field="xy"[f])
            done["clusters"] += 1

    # ---- correlation matrices and patterns (cross-set), on the modes whose orientation was decided
    if decided.any():
        J = np.where(decided)[0]
        tmax = TOL_FLOOR + K_TOL * delta * s1 / max(_min_gap(cond_s, J), 1e-300)
        if tmax <= TOL_CAP:
            for nm, Ma in a["mats"].items():
                f = 0 if nm.endswith("_X") else 1
                pred = (sign[f, J][:, None] * Ma[np.ix_(J, J)]) * sign[f, J][None, :]
                e = _mx(b["mats"][nm][np.ix_(J, J)] - pred)
                if not e <= 10 * tmax:
                    bad("correlation_changed", "%s: abs. diff %.3e > %.1e" % (nm, e, 10 * tmax), quantity=nm)
                done["values"] += 1
            for nm, Pa in a["pats"].items():
                for f in range(nf):
                    pred = Pa[f][:, J] * sign[f, J][None, :]
                    e = _mx(b["pats"][nm][f][:, J] - pred)
                    if not e <= 10 * tmax:
                        bad("correlation_changed", "%s field %s: abs. diff %.3e > %.1e" % (nm, "xy"[f], e, 10 * tmax), quantity=nm, field="xy"[f])
                    done["values"] += 1
    return done


def _min_gap(s, J):
    g = np.inf
    for j in J:
        others = np.delete(s, j)
        g = min(g, float(s[j]), float(np.min(np.abs(s[j] - others))) if others.size else np.inf)
    return g


def _mode_errs(a, b, c, strict, es, j):
    out = {}
    for f in range(len(a["V"])):
        va, vb = a["V"][f][:, j], b["V"][f][:, j]
        if strict[f]:
            out["components:" + "xy"[f]] = _mx(vb - es[f] * va) / max(_mx(va), 1e-300)
            sa, sb = a["S"][f][:, j], b["S"][f][:, j]
            out["scores:" + "xy"[f]] = _mx(sb - es[f] * c[f] * sa) / max(abs(c[f]) * _mx(sa), 1e-300)
        else:  # alpha < 1 and c != 1: only the direction of the pattern is stated to be unchanged
            out["components:" + "xy"[f]] = _mx(_colnorm(vb[:, None]) - es[f] * _colnorm(va[:, None]))
    return out


# ----------------------------------------------------------------------------- one case = one path


def node_keys(case):
    base = {k: case[k] for k in ("model", "shape", "spec", "center", "standardize", "container", "latname", "lats", "n_modes", "start")}
    base["wpres"] = case.get("wpres", "same")
    base["entry"] = case.get("entry", "fit")
    base["store"] = case.get("store")
    base["wstore"] = case.get("wstore")
    base["alpha"] = case.get("alpha")
    base["pca"] = case.get("pca")
    return [json.dumps([base, case["path"][:i]], sort_keys=True) for i in range(len(case["path"]) + 1)]


def run_case(case, seed):
    if case.get("sweep") == "pre":
        return _run_pre(case, seed)
    ctx = Ctx(case, seed)
    nodes = [ctx.start()]
    facs = []
    for e in case["path"]:
        nd, c = ctx.apply(nodes[-1], e)
        nodes.append(nd)
        facs.append(c)
    conds = [ctx.conditioning(nd) for nd in nodes]
    if min(cd["sd_min"] for cd in conds) < 1e-6:  # only standardised fields report a finite sd_min
        return dict(outcome="skipped:std_floor", nontrivial=False, states=0, transitions=0, traces=0)
    fits = [ctx.fit(nd) for nd in nodes]
    V0 = []
    for i, ft in enumerate(fits):
        if ft.get("entry_dev", 0.0) > 1e-8:
            V0.append(viol("fit_transform_scores", case["model"], "node %d of path %s: scores returned by fit_transform differ from model.scores() by %.3e (relative)"
                           % (i, json.dumps(case["path"]), ft["entry_dev"]), container=case["container"]))
    alpha = [float(x) for x in case.get("alpha", [1.0])]
    k = case["n_modes"]
    V = list(V0)
    rels = [(0, 1)] if len(nodes) == 2 else [(0, 1), (1, 2), (0, 2)]
    totals = dict(values=0, vectors=0, clusters=0, skipped_loose=0, skipped_cut=0, skipped_null=0)
    margin = 0.0
    worst = 0.0
    for (i, j) in rels:
        c = [float(np.prod([fc[f] for fc in facs[i:j]])) for f in range(ctx.nf)]
        name = _kind(case["path"][i:j])

        def bad(check, msg, **extra):
            V.append(viol(check, case["model"], "edge %s (%s): %s" % (name, json.dumps(case["path"][i:j]), msg), edge=name, container=case["container"], **extra))

        d = evaluate(fits[i], fits[j], c, alpha, (conds[i], conds[j]), k, bad)
        for kk in totals:
            totals[kk] += d[kk]
        margin = max(margin, d["margin"])
        worst = max(worst, conds[i]["delta"] + conds[j]["delta"])
    nontrivial = not V and totals["values"] > 0 and (totals["vectors"] + totals["clusters"]) > 0
    return dict(
        violations=V, outcome="violation" if V else ("ok" if nontrivial else "ok:values_only"), nontrivial=nontrivial,
        states=0, transitions=len(case["path"]), traces=len(rels),
        info=dict(nodes=node_keys(case), delta=float(worst), margin=float(margin), kind=case["kind"], latname=case["latname"], wpres=case.get("wpres", "same"), entry=case.get("entry", "fit"), **totals),
    )


def finalize(cases_, results, tier, seed):
    seen = set()
    kinds = {}
    loose = 0
    for c, r in zip(cases_, results):
        info = r.get("info") or {}
        seen.update(info.get("nodes", []))
        loose += info.get("skipped_loose", 0)
        if r.get("nontrivial"):
            for e in c["path"]:
                kinds[e["kind"]] = kinds.get(e["kind"], 0) + 1
    for r in results:  # node keys are long; keep them out of the evidence samples
        if "info" in r:
            r["info"] = {k: v for k, v in r["info"].items() if k != "nodes"}
    return [], dict(states=len(seen), depth_completed=max(c["depth"] for c in cases_), edge_kinds_validated=kinds, comparisons_too_ill_conditioned=loose)


def vacuity(outcomes, results, tier):
    n = len(results)
    good = sum(bool(r.get("nontrivial")) for r in results)
    viols = sum(bool(r.get("violations")) for r in results)
    if good + viols < 0.95 * n:
        return "only %d of %d cases compared components and scores of at least one mode" % (good, n)
    infos = [r.get("info") or {} for r in results if r.get("nontrivial")]
    loose = sum(i.get("skipped_loose", 0) for i in infos)
    vec = sum(i.get("vectors", 0) + i.get("clusters", 0) for i in infos)
    if loose > 0.05 * max(vec, 1):
        return "%d mode comparisons were too ill-conditioned to count (against %d made)" % (loose, vec)
    kinds = set()
    for i in infos:
        kinds |= set(i.get("kind", "").split(">"))
    missing = {"shift", "affine", "global", "fold", "cos2w"} - kinds
    if missing:
        return "edge kinds never validated: %s" % sorted(missing)
    entries = {i.get("entry") for i in infos if "fold" in i.get("kind", "")}
    if not {"fit", "fit_transform"} <= entries:
        return "weights == pre-multiplied data validated through entry points %s only" % sorted(map(str, entries))
    pres = {i.get("wpres") for i in infos if "fold" in i.get("kind", "")}
    if not {"same", "rev", "perm", "lat", "lat_rev"} <= pres:
        return "weights == pre-multiplied data validated under weight presentations %s only" % sorted(map(str, pres))
    names = {i.get("latname") for i in infos if "cos2w" in i.get("kind", "")}
    if len(names & set(LATNAMES)) < len(LATNAMES):
        return "use_coslat validated for %d of the %d accepted latitude names only" % (len(names & set(LATNAMES)), len(LATNAMES))
    if not any(i.get("clusters", 0) for i in infos):
        return "no degenerate cluster of singular values was compared through its projector"
    return None
