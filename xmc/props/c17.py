"""C17 — Unusable input is rejected with an error, never answered with numbers. Explorer P over a fault alphabet.

A case is a pair (valid call, single fault).  The valid call is one public entry point of one model class on one
container layout (constructor+fit, fit, transform, predict, inverse_transform, rotator.fit ...).  For every case

  1. the UN-MUTATED call is executed on freshly built objects and must return a non-empty result
     (otherwise the case says nothing and is tallied as ``skipped:baseline:<Exception>``);
  2. exactly one fault of the alphabet is applied to the call's arguments (the harness builds the mutated
     argument outside the observed region, so an exception of the harness itself is never mistaken for a refusal);
  3. the mutated call is executed: on freshly built and fitted objects when the fault sits in constructor or fit
     arguments, on the same fitted object as step 1 when it sits in the arguments of transform / predict /
     inverse_transform (the user's history ``fit; call(valid); call(faulty)``).

Oracle: step 3 must raise (any exception type).  Returning any object is a violation; the message records what
came back (type, dims, shape, number of finite values).  Nothing else is demanded: the calls the property declares
valid (alpha > 1, additional Dataset variables, additional score dimensions) are not in the fault alphabet; together
with n_modes = rank and a subset of the model's modes they are exercised only as *controls* that must NOT be refused
(``entry`` ending in ``!valid``), so that an over-eager validation patch is caught as well.  bool n_modes is neither
a fault nor a control.

One fault has a two-sided oracle: transform-time data whose feature coordinate carries the FITTED labels in another order
(``permute_feature_coord``: reversed, rolled, or relabelled).  The statement names "re-ordered with different values" as the
fault; the same label set re-ordered is the same labelled data.  So the call must either raise, or return exactly what the
same fitted object returns for that data laid out in the fitted order (label-keyed comparison of two real runs).  An
answer computed by position (``reordered_coord_misread``) is a violation.
"""

from __future__ import annotations

import contextlib
import io
import warnings

import numpy as np

from .. import data as D
from ..core import CaseTimeout, viol

ID = "C17"
LEVEL = "fault_enumeration"
LEVEL_TEXT = "every single fault of a stated fault alphabet applied to every applicable valid call; the real call is executed, the oracle is 'raises'"
TECHNIQUE = (
    "bounded exhaustive fault enumeration: (model class x container x entry point) valid calls, each first executed un-mutated, "
    "then once per applicable single fault of the alphabet; oracle = the mutated call raises"
)
RULE = (
    "full product of model class {EOF, SparsePCA, POP, CPCCA, MCA, EOFRotator, MCARotator, multi.CCA} x container {DataArray, Dataset, list} "
    "x configuration {plain, check_nans=False; thorough: + standardize&coslat, PCA pre-reduction} x entry point {ctor+fit, fit, transform (X / Y), predict, inverse_transform, rotator ctor+fit, "
    "rotator.fit; every entry point with a `normalized` switch also with normalized=True} x every applicable fault: wrong type (ndarray, list of ndarrays, None); sample dim unknown / partly unknown / empty / of wrong type / "
    "equal to all dims (no feature dim left); each dimension of each item dropped (isel with and without scalar coordinate, mean), renamed, one added; "
    "each feature coordinate shifted (disjoint, overlapping), replaced by re-ordered different values, and given the fitted labels in another order "
    "(reversed, rolled, relabelled; also on a DataArray with ONE feature dim); Dataset variables (Dataset, 3-variable Dataset, Dataset item of a list) reversed / rolled / "
    "with an additional variable first or in the middle; rotator n_modes above the model's modes; integer n_pca_modes / init_pca_modes above min(n_samples, n_features) of a field (rank+1, 500; scalar, "
    "only X, only Y) for all twelve cross-set classes, POP, OPA, ExtendedEOF and multi.CCA; Dataset variable dropped / renamed / stripped "
    "of one dim; list length -1 / +1; n_modes in {0, -1, rank+1, 'three', 2.5, None}; alpha < 0 (scalar and one of a pair); unknown solver; score arrays "
    "with unknown mode labels, without a mode dimension, of wrong type; cross-set / multi-view fields with different sample counts. "
    "A case is non-trivial when the un-mutated call returned a non-empty finite result and the mutated call was executed and refused"
)
ASSUMPTIONS = [
    "one small well-conditioned data set per container (10 samples; 6 or 8 features; new data of 5 samples) stands for 'all fitted models': the faults are structural, not numeric",
    "'more modes than the rank' is read with the rank the decomposer uses, min(shape) of the matrix it decomposes; n_modes = that + 1",
    "for rotators, besides non-positive / non-numeric n_modes, n_modes above the fitted model's number of modes (modes + 1, 99) is a fault: it asks for more modes than there are "
    "(all nine rotator classes; the seven Complex/Hilbert/CPCCA ones are enumerated for the rotator-constructor faults only)",
    "Dataset arguments whose variables come in another order (reverse, roll), optionally with one additional variable inserted, may be refused or answered; if answered, the answer "
    "must equal the un-mutated call's (variables are named); the fitted order plus an additional variable (first / in the middle) is a valid call and must be answered, equally",
    "a Dataset with additional variables, score arrays with additional dimensions or a subset of the model's modes, alpha > 1 and n_modes = rank are valid calls: "
    "they are run as controls that must not raise; bool n_modes is neither a fault nor a control",
    "a feature coordinate carrying the fitted labels in another order may be refused or answered; if answered, the answer must equal (1e-9 relative, label-keyed) "
    "the answer of the same fitted object for the label-aligned data",
    "inverse_transform(X=None, Y=scores) of a cross-set model is a valid call (one field is optional), so None is a type fault there only for single-set models",
    "MCARotator.transform is given new values on sample labels seen in training: with unseen labels its un-mutated call returns only NaN (a C05 matter) and nothing could be decided",
    "the quick tier keeps every fault kind on every entry point and container but thins variants (how a dim is dropped, which list item) for the costly classes "
    "(rotators, SparsePCA, POP) and for MCA, which is CPCCA(alpha=1); the thorough tier is the full product",
    "a fault applied to a call whose un-mutated form already raises decides nothing and is reported as skipped, never as a pass",
]
TALLY_KEYS = ("model", "container", "entry", "fault", "normalized")
TRUSTED = ["statsmodels import shim (/verif/shims) so that xeofs.cross constructors can be called"]

N_FIT = 10
N_NEW = 5
K = 2  # n_modes of every valid call

SINGLE = ("EOF", "SparsePCA", "POP")
CROSS = ("CPCCA", "MCA")
ROT = {"EOFRotator": "EOF", "MCARotator": "MCA"}
MULTI = ("CCA",)
# further rotator classes: enumerated for the rotator-constructor faults only (their transform paths are the base classes')
ROT_EXTRA = {
    "ComplexEOFRotator": "ComplexEOF",
    "HilbertEOFRotator": "HilbertEOF",
    "CPCCARotator": "CPCCA",
    "ComplexCPCCARotator": "ComplexCPCCA",
    "HilbertCPCCARotator": "HilbertCPCCA",
    "ComplexMCARotator": "ComplexMCA",
    "HilbertMCARotator": "HilbertMCA",
}
ROT_ALL = {**ROT, **ROT_EXTRA}
FAMILY = {"ComplexEOF": "EOF", "HilbertEOF": "EOF", "ComplexCPCCA": "CPCCA", "HilbertCPCCA": "CPCCA", "ComplexMCA": "MCA", "HilbertMCA": "MCA"}
# classes enumerated for the PCA-pre-reduction option only ("CrossCCA" is xeofs.cross.CCA; "CCA" in these tables is xeofs.multi.CCA)
CROSS_EXTRA = ("CrossCCA", "RDA", "ComplexCPCCA", "ComplexMCA", "ComplexCCA", "ComplexRDA", "HilbertCPCCA", "HilbertMCA", "HilbertCCA", "HilbertRDA")
SINGLE_EXTRA = ("OPA", "ExtendedEOF")
FAMILY.update({m: "MCA" for m in ("CrossCCA", "RDA", "ComplexCCA", "ComplexRDA", "HilbertCCA", "HilbertRDA")})  # alpha is fixed by the class


def _base(model):
    return ROT_ALL.get(model, model)


def _fam(model):
    """EOF / SparsePCA / POP / CPCCA / MCA / CCA: the class whose configuration and call conventions `model` (or its base) follows."""
    b = _base(model)
    return FAMILY.get(b, b)


# ----------------------------------------------------------------------------- data


LAYOUT = {
    # role, container -> list of pieces (item index | None, variable | None, dims, coords)
    ("X", "da"): [dict(item=None, var=None, name="data", dims=("lat", "lon"), coords={"lat": [-50.0, 0.0, 40.0], "lon": [0.0, 30.0]})],
    ("X", "ds"): [
        dict(item=None, var="a", name="a", dims=("lat", "lon"), coords={"lat": [-50.0, 40.0], "lon": [0.0, 30.0]}),
        dict(item=None, var="b", name="b", dims=("lat", "lon"), coords={"lat": [-50.0, 40.0], "lon": [0.0, 30.0]}),
    ],
    ("X", "list"): [
        dict(item=0, var=None, name="first", dims=("lat", "lon"), coords={"lat": [-50.0, 0.0, 40.0], "lon": [0.0, 30.0]}),
        dict(item=1, var=None, name="second", dims=("lat",), coords={"lat": [-45.0, 20.0]}),
    ],
    ("Y", "da"): [dict(item=None, var=None, name="y", dims=("lat", "lon"), coords={"lat": [-30.0, 30.0], "lon": [10.0, 50.0]})],
    ("Y", "ds"): [
        dict(item=None, var="c", name="c", dims=("lat",), coords={"lat": [-30.0, 30.0]}),
        dict(item=None, var="d", name="d", dims=("lat",), coords={"lat": [-30.0, 30.0]}),
    ],
    ("Y", "list"): [
        dict(item=0, var=None, name="y0", dims=("lat", "lon"), coords={"lat": [-30.0, 30.0], "lon": [10.0, 50.0]}),
        dict(item=1, var=None, name="y1", dims=("lon",), coords={"lon": [5.0, 25.0]}),
    ],
    # a DataArray with ONE feature dimension (enumerated for the permutation fault only: there the stacked feature index keeps
    # the user's labels, with two or more feature dims / a Dataset it becomes positional)
    ("X", "da1"): [dict(item=None, var=None, name="data1", dims=("lat",), coords={"lat": [-50.0, -10.0, 20.0, 40.0]})],
    ("Y", "da1"): [dict(item=None, var=None, name="y1d", dims=("lat",), coords={"lat": [-30.0, 0.0, 30.0]})],
    # Datasets used for the variable-order presentations only: three variables of equal shape (a positional mix-up raises nothing),
    # and a list whose first item is a Dataset
    ("X", "ds3"): [dict(item=None, var=v, name=v, dims=("lat",), coords={"lat": [-50.0, 40.0]}) for v in ("a", "b", "c")],
    ("X", "lds"): [
        dict(item=0, var="a", name="a", dims=("lat",), coords={"lat": [-50.0, 0.0, 40.0]}),
        dict(item=0, var="b", name="b", dims=("lat",), coords={"lat": [-50.0, 0.0, 40.0]}),
        dict(item=1, var=None, name="second", dims=("lat",), coords={"lat": [-45.0, 20.0]}),
    ],
    ("Z", "da"): [dict(item=None, var=None, name="z", dims=("lev",), coords={"lev": [1000.0, 850.0, 500.0]})],
}


def _npieces_cols(role, cont):
    return [int(np.prod([len(pc["coords"][d]) for d in pc["dims"]])) for pc in LAYOUT[(role, cont)]]


def build_field(role, cont, n, seed, new=False, seen_labels=False):
    """Labelled container for role X / Y / Z; `new` = unseen samples (other values and, unless `seen_labels`, other time labels)."""
    import xarray as xr

    cols = _npieces_cols(role, cont)
    p = sum(cols)
    salt = {"X": 1, "Y": 2, "Z": 3}[role] + (50 if new else 0)
    M = D.make_matrix(n, p, "geometric", 1.0, False, seed, salt=salt)
    t = (100 + np.arange(n)) if (new and not seen_labels) else np.arange(n)
    out = []
    c0 = 0
    for pc, nc in zip(LAYOUT[(role, cont)], cols):
        shape = (n,) + tuple(len(pc["coords"][d]) for d in pc["dims"])
        da = xr.DataArray(
            M[:, c0 : c0 + nc].reshape(shape),
            dims=("time",) + pc["dims"],
            coords={"time": t, **{d: np.asarray(pc["coords"][d]) for d in pc["dims"]}},
            name=pc["name"],
        )
        c0 += nc
        out.append(da)
    if cont in ("da", "da1"):
        return out[0]
    if cont in ("ds", "ds3"):
        return xr.Dataset({da.name: da for da in out})
    if cont == "lds":
        items = {}
        for pc, da in zip(LAYOUT[(role, cont)], out):
            if pc["var"] is None:
                items[pc["item"]] = da
            else:
                items.setdefault(pc["item"], {})[pc["var"]] = da
        return [xr.Dataset(v) if isinstance(v, dict) else v for _, v in sorted(items.items())]
    return out


def build_scores(n, k, seed, salt=0):
    """A hand-made score array (time, mode) with the public labels mode = 1..k."""
    import xarray as xr

    rng = np.random.default_rng([int(seed), 1717, int(salt), n, k])
    return xr.DataArray(rng.standard_normal((n, k)), dims=("time", "mode"), coords={"time": 100 + np.arange(n), "mode": np.arange(1, k + 1)}, name="scores")


# ----------------------------------------------------------------------------- alphabet


def _items(role, cont):
    """Addressable DataArray-like pieces of a container: (item, var) pairs plus the whole-object address."""
    return LAYOUT[(role, cont)]


def data_faults(role, cont):
    """Single faults of one data argument (transform / predict)."""
    F = []
    for how in ("ndarray", "list_of_ndarrays", "none"):
        F.append(dict(fault="wrong_type", how=how))
    pieces = LAYOUT[(role, cont)]
    # whole-object dimension faults (a Dataset is addressed as a whole; list items one at a time)
    if cont == "list":
        targets = [dict(item=pc["item"], dims=("time",) + pc["dims"]) for pc in pieces]
    else:
        alld = ("time",) + tuple(dict.fromkeys(d for pc in pieces for d in pc["dims"]))
        targets = [dict(item=None, dims=alld)]
    for tg in targets:
        for d in tg["dims"]:
            role_d = "sample" if d == "time" else "feature"
            for how in ("isel_drop", "isel_keep", "mean"):
                F.append(dict(fault="drop_%s_dim" % role_d, dim=d, how=how, item=tg["item"]))
            F.append(dict(fault="rename_%s_dim" % role_d, dim=d, item=tg["item"]))
            if d != "time":
                F.append(dict(fault="shift_feature_coord", dim=d, how="disjoint", item=tg["item"]))
                F.append(dict(fault="shift_feature_coord", dim=d, how="overlap", item=tg["item"]))
                F.append(dict(fault="reorder_feature_coord_new_values", dim=d, item=tg["item"]))
                # the same label set in another order: the data either travel with their labels (reverse, roll) or not (relabel)
                size = max(len(pc["coords"][d]) for pc in pieces if d in pc["dims"] and (tg["item"] is None or pc["item"] == tg["item"]))
                for how in ("reverse", "roll", "relabel_reverse"):
                    if how == "roll" and size < 3:
                        continue  # a roll of two labels is their reversal
                    F.append(dict(fault="permute_feature_coord", dim=d, how=how, item=tg["item"]))
        F.append(dict(fault="add_dim", how="len2", item=tg["item"]))
        F.append(dict(fault="add_dim", how="len1", item=tg["item"]))
    if cont == "ds":
        v = pieces[-1]["var"]
        F.append(dict(fault="drop_variable", var=v))
        F.append(dict(fault="drop_variable", var=pieces[0]["var"]))
        F.append(dict(fault="rename_variable", var=v))
        for d in pieces[-1]["dims"]:
            F.append(dict(fault="drop_feature_dim_of_variable", var=v, dim=d, how="isel_drop"))
            F.append(dict(fault="drop_feature_dim_of_variable", var=v, dim=d, how="mean"))
    if cont == "list":
        F.append(dict(fault="list_length", how="minus"))
        F.append(dict(fault="list_length", how="plus"))
        F.append(dict(fault="list_length", how="bare_item"))
    else:
        F.append(dict(fault="list_length", how="plus"))
    return F


VAR_ORDER_HOWS = ("reverse", "roll", "extra_first", "extra_middle", "reverse_extra_middle")


def variable_order_faults(role, cont):
    """Presentations of a Dataset argument: the fitted variables in another order and/or with one additional variable inserted."""
    pieces = LAYOUT[(role, cont)]
    item = pieces[0]["item"]
    nvar = sum(1 for pc in pieces if pc["var"] is not None)
    return [dict(fault="permute_dataset_variables", how=h, item=item) for h in VAR_ORDER_HOWS if not (h == "roll" and nvar < 3)]


def permutation_faults(role, cont):
    return [f for f in data_faults(role, cont) if f["fault"] == "permute_feature_coord"]


def data_controls(role, cont):
    """Valid variations that must NOT be refused."""
    C = []
    if cont == "ds":
        C.append(dict(fault="extra_variable"))
    return C


def fit_faults(role, cont):
    F = []
    for how in ("ndarray", "list_of_ndarrays", "none"):
        F.append(dict(fault="wrong_type", how=how))
    for how in ("unknown", "partly_unknown", "empty_tuple", "empty_list", "empty_string", "none", "int", "all_dims"):
        F.append(dict(fault="sample_dim", how=how))
    if cont == "list":
        F.append(dict(fault="item_lacks_sample_dim", item=1))
        F.append(dict(fault="item_wrong_type", item=1))
    F.append(dict(fault="weights_wrong_type", how="ndarray"))
    # non-xarray weights that WOULD broadcast against the field (nothing downstream trips over them): a Python scalar, and a
    # numpy array of the field's own shape
    F.append(dict(fault="weights_wrong_type", how="scalar"))
    F.append(dict(fault="weights_wrong_type", how="ndarray_field_shape"))
    return F


NMODES_FAULTS = ["0", "-1", "rank+1", "three", "2.5", "None"]
NMODES_FAULTS_ROT = ["0", "-1", "three", "2.5", "None", "model+1", "large"]  # the last two: more modes than the fitted model has

SCORE_FAULTS = (
    [dict(fault="wrong_type", how=h) for h in ("ndarray", "list_of_ndarrays", "none")]
    + [dict(fault="unknown_mode_label", how=h) for h in ("one_beyond", "all_beyond", "zero", "string")]
    + [dict(fault="rename_mode_dim")]
)
SCORE_CONTROLS = [dict(fault="extra_score_dim"), dict(fault="subset_of_modes")]


def _confs(model, tier):
    """plain: defaults; nocheck: check_nans=False (the NaN bookkeeping of the Sanitizer must not be what refuses a fault);
    std_coslat: standardize + use_coslat (more stored scaling fields to broadcast against); pca: PCA pre-reduction."""
    if tier == "quick":
        return ["plain"] + (["nocheck"] if model == "EOF" else [])
    if model in ROT:
        return ["plain", "std_coslat"] + (["pca"] if ROT[model] in CROSS else [])
    if model in SINGLE:
        return ["plain", "nocheck", "std_coslat"] + (["pca"] if model == "POP" else [])
    if model in MULTI:
        return ["plain", "pca"]
    return ["plain", "nocheck", "pca", "std_coslat"]


def _conts(model, tier):
    return ["da", "ds", "list"]


def cases(tier, seed):
    out = []

    def add(model, cont, conf, entry, f, **extra):
        c = dict(model=model, container=cont, conf=conf, entry=entry)
        c.update(f)
        c.update(extra)
        out.append(c)

    models = list(SINGLE) + list(CROSS) + list(ROT) + list(MULTI)
    for model in models:
        for conf in _confs(model, tier):
            for cont in _conts(model, tier):
                base = ROT.get(model, model)
                is_cross = base in CROSS
                is_multi = model in MULTI
                is_rot = model in ROT
                dims_conf_only = conf != "plain"  # non-plain configurations repeat only the data-argument entries
                # ---------------- constructor (+ fit)
                if not dims_conf_only:
                    for v in NMODES_FAULTS_ROT if is_rot else NMODES_FAULTS:
                        # which exception (if any) stops an over-large n_modes depends on the SVD route taken
                        solvers = [None]
                        if model in ("EOF", "SparsePCA", "CPCCA", "MCA"):
                            solvers = ["full", "randomized", "auto"] if tier == "thorough" else (["full", "randomized"] if v == "rank+1" else ["full"])
                        for sv in solvers:
                            add(model, cont, conf, "ctor_fit", dict(fault="n_modes", how=v), **({"solver": sv} if sv else {}))
                    add(model, cont, conf, "ctor_fit!valid", dict(fault="n_modes_equals_rank"))
                    if not is_rot and not is_multi:
                        add(model, cont, conf, "ctor_fit", dict(fault="unknown_solver", how="string"))
                        add(model, cont, conf, "ctor_fit", dict(fault="unknown_solver", how="none"))
                    if model == "CPCCA":
                        add(model, cont, conf, "ctor_fit", dict(fault="negative_alpha", how="scalar"))
                        add(model, cont, conf, "ctor_fit", dict(fault="negative_alpha", how="first_of_pair"))
                        add(model, cont, conf, "ctor_fit", dict(fault="negative_alpha", how="second_of_pair"))
                        add(model, cont, conf, "ctor_fit!valid", dict(fault="alpha_above_one"))
                    if is_rot:
                        for how in ("none", "ndarray", "dataarray", "unfitted_model"):
                            add(model, cont, conf, "rotator_fit", dict(fault="wrong_type", how=how))
                # ---------------- fit
                if not dims_conf_only and not is_rot:
                    fields = ["X", "Y"] if is_cross else ["X"]
                    for fld in fields:
                        fc = cont if fld == "X" else "da"
                        for f in fit_faults(fld, fc):
                            if is_multi and f["fault"] in ("weights_wrong_type", "item_lacks_sample_dim", "item_wrong_type"):
                                continue
                            if is_multi and f["fault"] == "wrong_type" and f["how"] == "list_of_ndarrays":
                                continue
                            if f["fault"] == "sample_dim" and fld == "Y":
                                continue
                            add(model, cont, conf, "fit", f, field=fld)
                    if is_cross:
                        for how in ("y_shorter", "x_shorter", "y_longer", "y_shorter_x_tail_nan", "x_shorter_y_tail_nan", "y_shorter_x_head_nan"):
                            add(model, cont, conf, "fit", dict(fault="sample_count_mismatch", how=how))
                        add(model, cont, conf, "fit", dict(fault="sample_dim", how="renamed_in_Y"))
                    if is_multi:
                        add(model, cont, conf, "fit", dict(fault="sample_count_mismatch", how="view_shorter"))
                        add(model, cont, conf, "fit", dict(fault="wrong_type", how="view_ndarray"))
                # ---------------- data-argument entries
                if is_multi:
                    for f in data_faults("X", cont):
                        add(model, cont, conf, "transform", f, field="X")
                    continue
                if is_cross:
                    for f in data_faults("X", cont):
                        add(model, cont, conf, "transform_X", f, field="X")
                    for f in data_controls("X", cont):
                        add(model, cont, conf, "transform_X!valid", f, field="X")
                    if not is_rot:
                        for f in data_faults("X", cont):
                            add(model, cont, conf, "predict", f, field="X")
                    # Y path (second preprocessor): the Y container follows the case's container only in the thorough tier
                    ycont = cont if tier == "thorough" else "da"
                    for f in data_faults("Y", ycont):
                        add(model, cont, conf, "transform_Y", f, field="Y", ycont=ycont)
                    if not dims_conf_only:
                        for fld in ("X", "Y"):
                            for f in SCORE_FAULTS:
                                if f["fault"] == "wrong_type" and f["how"] == "none":
                                    continue  # inverse_transform(X=None, Y=scores) is a valid call of a cross-set model
                                add(model, cont, conf, "inverse_transform", f, field=fld)
                            for f in SCORE_CONTROLS:
                                add(model, cont, conf, "inverse_transform!valid", f, field=fld)
                else:
                    for f in data_faults("X", cont):
                        add(model, cont, conf, "transform", f, field="X")
                    for f in data_controls("X", cont):
                        add(model, cont, conf, "transform!valid", f, field="X")
                    if not dims_conf_only:
                        for f in SCORE_FAULTS:
                            add(model, cont, conf, "inverse_transform", f, field="X")
                        for f in SCORE_CONTROLS:
                            add(model, cont, conf, "inverse_transform!valid", f, field="X")
    # ---------------- DataArray with ONE feature dimension: permutation fault on every data-argument entry point
    for model in models:
        base = ROT.get(model, model)
        if base in CROSS:
            for f in permutation_faults("X", "da1"):
                add(model, "da1", "plain", "transform_X", f, field="X")
                if model not in ROT:
                    add(model, "da1", "plain", "predict", f, field="X")
            for f in permutation_faults("Y", "da1"):
                add(model, "da1", "plain", "transform_Y", f, field="Y", ycont="da1")
        else:
            for f in permutation_faults("X", "da1"):
                add(model, "da1", "plain", "transform", f, field="X")
    # ---------------- Dataset arguments: variables in another order / with an additional variable inserted
    for model in models:
        base = ROT.get(model, model)
        for cont in ("ds", "ds3", "lds"):
            for f in variable_order_faults("X", cont):
                if base in CROSS:
                    add(model, cont, "plain", "transform_X", f, field="X")
                    if model not in ROT:
                        add(model, cont, "plain", "predict", f, field="X")
                else:
                    add(model, cont, "plain", "transform", f, field="X")
        if base in CROSS:
            for f in variable_order_faults("Y", "ds"):
                add(model, "ds", "plain", "transform_Y", f, field="Y", ycont="ds")
    # ---------------- the other rotator classes: constructor faults of the rotator
    for model in ROT_EXTRA:
        for cont in ["da"] if tier == "quick" else ["da", "ds", "list"]:
            for v in NMODES_FAULTS_ROT:
                add(model, cont, "plain", "ctor_fit", dict(fault="n_modes", how=v))
    # ---------------- the PCA pre-reduction: an INTEGER number of PCs above the rank min(n_samples, n_features) of the field
    # (a second rank check, in preprocessing.PCA / linalg.SVD for the cross-set classes and POP, in the inner EOF for the others)
    conts_pca = ["da"] if tier == "quick" else ["da", "ds", "list"]
    for model in list(CROSS) + list(CROSS_EXTRA):
        for cont in conts_pca:
            for v in ("rank+1", "large"):
                for form in ("scalar", "only_X", "only_Y"):
                    add(model, cont, "pca", "ctor_fit", dict(fault="n_pca_modes", how=v, form=form))
            if model in CROSS:
                add(model, cont, "pca", "ctor_fit!valid", dict(fault="n_pca_modes_equals_rank"))
    for model in ("POP",) + SINGLE_EXTRA:
        for cont in conts_pca:
            for v in ("rank+1", "large"):
                add(model, cont, "pca", "ctor_fit", dict(fault="n_pca_modes", how=v, form="scalar"))
    for cont in conts_pca:
        for v in ("rank+1", "large"):
            for form in ("scalar", "only_Y"):
                add("CCA", cont, "pca", "ctor_fit", dict(fault="n_pca_modes", how=v, form=form))
    # ---------------- the `normalized` switch: every entry point that has one is enumerated a second time with
    # normalized=True (scores are multiplied / divided by the stored norms BEFORE the algorithm's own label lookup,
    # a different code path for mode-label and mode-dimension faults); entries without the switch are not repeated
    for c in list(out):
        if c["conf"] == "plain" and _has_normalized(c["model"], c["entry"].split("!")[0]):
            out.append(dict(c, normalized=True))
    if tier == "quick":
        out = [c for c in out if _in_quick(c)]
    out.sort(key=_simplicity)
    return out


def _has_normalized(model, entry):
    if entry in ("transform", "inverse_transform"):
        return model in SINGLE or model == "EOFRotator"  # BaseModelSingleSet.transform / inverse_transform
    if entry in ("transform_X", "transform_Y"):
        return model in CROSS or model == "MCARotator"  # cross-set transform; cross-set inverse_transform has no switch
    return False


_QUICK_NORMALIZED_DATA = {("wrong_type", "ndarray"), ("drop_feature_dim", "isel_drop"), ("shift_feature_coord", "disjoint"), ("list_length", "plus")}


def _in_quick(c):
    """Quick tier: every fault kind on every entry point and container; expensive classes carry a thinner set of variants."""
    if c.get("normalized"):
        if c["entry"].startswith("inverse_transform"):  # every score fault and control; all containers for EOF, da for the others
            return c["model"] == "EOF" or c["container"] == "da"
        # data-argument entries: these faults are refused before the switch is looked at; one variant per kind, DataArray only
        return c["container"] == "da" and (c["fault"], c.get("how")) in _QUICK_NORMALIZED_DATA and c.get("dim") in (None, "lat", "time")
    if c["fault"] == "permute_dataset_variables":
        if c["model"] in ("EOF", "CPCCA"):
            return True
        return c["how"] in ("reverse", "roll", "reverse_extra_middle") and (c["container"] != "lds" or c["how"] == "reverse")
    if c["model"] in ROT_EXTRA:
        return c["how"] in ("0", "three", "model+1", "large")
    if c["fault"] in ("n_pca_modes", "n_pca_modes_equals_rank"):
        return True
    heavy = c["model"] in ("MCARotator", "EOFRotator", "SparsePCA", "POP", "MCA")  # MCA = CPCCA(alpha=1): same code paths
    if heavy:
        if c.get("how") in ("isel_keep", "len1", "overlap", "list_of_ndarrays", "empty_list", "empty_string", "partly_unknown", "all_beyond", "roll", "relabel_reverse"):
            return False
        if c["fault"] == "unknown_mode_label" and c.get("how") == "string":
            return False
        if c["fault"] in ("rename_variable",) or (c["fault"] == "drop_variable" and c.get("var") == "a"):
            return False
        if c["container"] == "list" and c.get("item") == 0 and c["fault"] not in ("drop_feature_dim", "permute_feature_coord"):
            return False
    if c["model"] == "MCARotator" and c["container"] not in ("da", "da1") and c["entry"] not in ("transform_X", "ctor_fit"):
        return False
    if c["model"] in ROT and c["entry"].startswith("transform") and c["container"] != "da" and c["fault"] not in (
        "drop_feature_dim", "drop_feature_dim_of_variable", "drop_variable", "list_length", "wrong_type", "permute_feature_coord"
    ):
        return False  # a rotator transforms through the model's own preprocessor object
    if c["model"] == "CCA" and c["entry"] == "transform" and c["container"] not in ("da", "da1"):
        return False
    if c["model"] == "MCA" and c["container"] != "da" and c["entry"] not in ("ctor_fit", "transform_X"):
        return False
    if c["model"] == "EOFRotator" and c["container"] != "da" and c["entry"].startswith("inverse_transform"):
        return False
    if c["model"] in ("MCA", "CPCCA") and c["entry"] == "predict" and c["container"] not in ("da", "da1"):
        return False  # predict preprocesses X exactly as transform(X=...) does
    if c["entry"] == "transform_Y" and c["container"] not in ("da", "da1"):
        return False  # in the quick tier Y is a DataArray whatever the container of X: the X container does not reach this path
    return True


_MODEL_ORDER = {m: i for i, m in enumerate(list(SINGLE) + list(CROSS) + list(ROT) + list(MULTI) + list(ROT_EXTRA) + list(CROSS_EXTRA) + list(SINGLE_EXTRA))}


def _simplicity(c):
    return (0 if c["conf"] == "plain" else 1, {"da": 0, "da1": 0, "ds": 1, "ds3": 1, "list": 2, "lds": 2}[c["container"]], _MODEL_ORDER[c["model"]])


# ----------------------------------------------------------------------------- building calls


def _rank_plus_one(model, cont, conf):
    base = ROT.get(model, model)
    px = sum(_npieces_cols("X", cont))
    if base in CROSS:
        py = sum(_npieces_cols("Y", "da"))
        return min(px, py) + 1
    if base in MULTI:
        return min(px, sum(_npieces_cols("Y", "da")), sum(_npieces_cols("Z", "da"))) + 1
    return min(N_FIT, px) + 1


def _rank(model, cont, conf):
    """Largest n_modes every class must accept on this layout (control): centred rank of the smallest matrix decomposed."""
    base = ROT.get(model, model)
    px = sum(_npieces_cols("X", cont))
    if base in CROSS:
        return min(px, sum(_npieces_cols("Y", "da")), N_FIT - 1)
    if base in MULTI:
        return min(px, sum(_npieces_cols("Y", "da")), sum(_npieces_cols("Z", "da")))
    return min(N_FIT - 1, px)


def ctor_kwargs(model, conf):
    base = _fam(model)
    kw = dict(n_modes=K)
    if base == "OPA":
        return dict(n_modes=K, tau_max=2, n_pca_modes=3, random_state=5, solver="full")
    if base == "ExtendedEOF":
        return dict(n_modes=K, tau=1, embedding=2, n_pca_modes=3, random_state=5, solver="full")
    if base in SINGLE:
        kw.update(random_state=5, solver="full")
        if base == "SparsePCA":
            kw.update(max_iter=30)
        if base == "POP":
            kw.update(use_pca=(conf == "pca"), n_pca_modes=4)
            kw.pop("solver")
        if conf == "std_coslat":
            kw.update(standardize=True, use_coslat=True)
        if conf == "nocheck":
            kw.update(check_nans=False)
    elif base in CROSS:
        kw.update(random_state=5, solver="full", use_pca=(conf == "pca"), n_pca_modes=3)
        if base == "CPCCA":
            kw.update(alpha=0.5 if conf == "pca" else 1.0)
        if conf == "std_coslat":
            kw.update(standardize=True, use_coslat=[True, True])
        if conf == "nocheck":
            kw.update(check_nans=False)
    elif base in MULTI:
        kw.update(pca=(conf == "pca"), init_pca_modes=3 if conf == "pca" else 0.75)
    return kw


def make(model_name, kw):
    import xeofs as xe

    cls = {
        "EOF": xe.single.EOF,
        "SparsePCA": xe.single.SparsePCA,
        "POP": xe.single.POP,
        "CPCCA": xe.cross.CPCCA,
        "MCA": xe.cross.MCA,
        "EOFRotator": xe.single.EOFRotator,
        "MCARotator": xe.cross.MCARotator,
        "CCA": xe.multi.CCA,
        "OPA": xe.single.OPA,
        "ExtendedEOF": xe.single.ExtendedEOF,
        "CrossCCA": xe.cross.CCA,
        "RDA": xe.cross.RDA,
        "ComplexCCA": xe.cross.ComplexCCA,
        "ComplexRDA": xe.cross.ComplexRDA,
        "HilbertCCA": xe.cross.HilbertCCA,
        "HilbertRDA": xe.cross.HilbertRDA,
        "ComplexEOF": xe.single.ComplexEOF,
        "HilbertEOF": xe.single.HilbertEOF,
        "ComplexCPCCA": xe.cross.ComplexCPCCA,
        "HilbertCPCCA": xe.cross.HilbertCPCCA,
        "ComplexMCA": xe.cross.ComplexMCA,
        "HilbertMCA": xe.cross.HilbertMCA,
        "ComplexEOFRotator": xe.single.ComplexEOFRotator,
        "HilbertEOFRotator": xe.single.HilbertEOFRotator,
        "CPCCARotator": xe.cross.CPCCARotator,
        "ComplexCPCCARotator": xe.cross.ComplexCPCCARotator,
        "HilbertCPCCARotator": xe.cross.HilbertCPCCARotator,
        "ComplexMCARotator": xe.cross.ComplexMCARotator,
        "HilbertMCARotator": xe.cross.HilbertMCARotator,
    }[model_name]
    return cls(**kw)


class Call:
    """One complete scenario: constructor kwargs, fit arguments, (rotator kwargs), entry point and its arguments."""

    def __init__(self, case, seed):
        model, cont, conf = case["model"], case["container"], case["conf"]
        self.model, self.cont, self.conf = model, cont, conf
        self.base = _base(model)
        fam = _fam(model)
        self.kind = "single" if (fam in SINGLE or fam in SINGLE_EXTRA) else "cross" if fam in CROSS else "multi"
        self.is_rot = model in ROT_ALL
        self.entry = case["entry"].split("!")[0]
        self.ctor = ctor_kwargs(model, conf)
        if case.get("solver") and "solver" in self.ctor:
            self.ctor["solver"] = case["solver"]  # part of the valid call, not a fault
        # (the analytic signal of 10 samples needs more than 200 Varimax sweeps: the extra classes run with the library default)
        self.rot_ctor = dict(n_modes=K, power=1, max_iter=200 if model in ROT else 1000) if self.is_rot else None
        ycont = case.get("ycont", "da")
        self.ycont = ycont
        if conf == "std_coslat" and self.kind == "cross" and ycont == "list":
            self.ctor["use_coslat"] = [True, False]  # the second item of the Y list has no latitude dimension
        self.fit = dict(X=build_field("X", cont, N_FIT, seed), dim="time", weights=None)
        if self.kind == "cross":
            self.fit["Y"] = build_field("Y", ycont, N_FIT, seed)
            self.fit["weights_Y"] = None
        if self.kind == "multi":
            self.fit = dict(views=[build_field("X", cont, N_FIT, seed), build_field("Y", "da", N_FIT, seed), build_field("Z", "da", N_FIT, seed)], dim="time")
            if cont == "list":  # a view is one DataArray/Dataset/list handled by one Preprocessor
                pass
        self.rot_model_arg = "fitted"
        self.normalized = bool(case.get("normalized", False))  # part of the valid call, not a fault
        self.kfit = None
        self.m = None  # the fitted (rotated) object, once prepared
        self.result = None  # what the entry point returned, once observed
        # CPCCARotator.transform re-indexes its result to the training sample labels (a C05 matter): with unseen labels the
        # un-mutated call returns only NaN and every fault on it would be vacuous, so this class gets new values on seen labels
        sl = model == "MCARotator"
        # entry arguments
        e = self.entry
        self.args = {}
        if e in ("transform", "transform_X", "predict"):
            if self.kind == "multi":
                self.args = dict(views=[build_field("X", cont, N_NEW, seed, new=True), build_field("Y", "da", N_NEW, seed, new=True), build_field("Z", "da", N_NEW, seed, new=True)])
            else:
                self.args = dict(X=build_field("X", cont, N_NEW, seed, new=True, seen_labels=sl))
        elif e == "transform_Y":
            self.args = dict(Y=build_field("Y", ycont, N_NEW, seed, new=True, seen_labels=sl))
        elif e == "inverse_transform":
            if self.kind == "cross":
                self.args = dict(X=build_scores(N_NEW, K, seed, 1), Y=build_scores(N_NEW, K, seed, 2))
            else:
                self.args = dict(scores=build_scores(N_NEW, K, seed, 1))

    # ---- execution -------------------------------------------------------------------------------------------

    ARG_ENTRIES = ("transform", "transform_X", "transform_Y", "predict", "inverse_transform")

    def run(self):
        """construct, fit, (rotate) unless a fitted object was handed over, then call the entry point."""
        if self.m is None:
            self.m = self.prepare()
        return self.invoke(self.m)

    def prepare(self):
        m = make(self.base, self.ctor)
        if self.kind == "single":
            m.fit(self.fit["X"], self.fit["dim"], weights=self.fit["weights"])
        elif self.kind == "cross":
            m.fit(self.fit["X"], self.fit["Y"], self.fit["dim"], weights_X=self.fit["weights"], weights_Y=self.fit["weights_Y"])
        else:
            m.fit(self.fit["views"], self.fit["dim"])
        if self.is_rot:
            r = make(self.model, self.rot_ctor)
            arg = m
            if self.rot_model_arg == "none":
                arg = None
            elif self.rot_model_arg == "ndarray":
                arg = np.asarray(_first_da(self.fit["X"]).values)
            elif self.rot_model_arg == "dataarray":
                arg = _first_da(self.fit["X"])
            elif self.rot_model_arg == "unfitted_model":
                arg = make(self.base, self.ctor)
            r.fit(arg)
            m = r
        return m

    def invoke(self, m):
        e = self.entry
        if e in ("ctor_fit", "fit", "rotator_fit"):
            return m.scores()
        nk = dict(normalized=True) if self.normalized else {}  # the default path is called exactly as before
        if e == "transform":
            if self.kind == "multi":
                return m.transform(self.args["views"])
            return m.transform(self.args["X"], **nk)
        if e == "transform_X":
            return m.transform(X=self.args["X"], **nk)
        if e == "transform_Y":
            return m.transform(Y=self.args["Y"], **nk)
        if e == "predict":
            return m.predict(self.args["X"])
        if e == "inverse_transform":
            if self.kfit is None:  # number of modes the fitted model really has (POP does not follow n_modes)
                sc = m.scores()
                self.kfit = int((sc[0] if isinstance(sc, (list, tuple)) else sc).sizes["mode"])
            if self.kind == "cross":
                return m.inverse_transform(X=self.args["X"], Y=self.args["Y"])
            return m.inverse_transform(self.args["scores"], **nk)
        raise ValueError(e)


def _first_da(obj):
    import xarray as xr

    if isinstance(obj, (list, tuple)):
        obj = obj[0]
    if isinstance(obj, xr.Dataset):
        obj = obj[list(obj.data_vars)[0]]
    return obj


# ----------------------------------------------------------------------------- fault application (harness side)


class Inapplicable(Exception):
    pass


def _to_ndarray(obj):
    import xarray as xr

    if isinstance(obj, (list, tuple)):
        return np.asarray(obj[0].values if isinstance(obj[0], xr.DataArray) else obj[0].to_array().values)
    if isinstance(obj, xr.Dataset):
        return np.asarray(obj.to_array().values)
    return np.asarray(obj.values)


def _wrong_type(obj, how):
    if how == "ndarray":
        return _to_ndarray(obj)
    if how == "list_of_ndarrays":
        a = _to_ndarray(obj)
        return [a, a]
    if how == "none":
        return None
    raise ValueError(how)


def _map_item(obj, item, fn):
    """apply fn to the addressed item of a list (or to the object itself when item is None)"""
    if item is None:
        return fn(obj)
    obj = list(obj)
    obj[item] = fn(obj[item])
    return obj


def _drop_dim(x, dim, how):
    if dim not in x.dims:
        raise Inapplicable(dim)
    if how == "isel_drop":
        return x.isel({dim: 0}, drop=True)
    if how == "isel_keep":
        return x.isel({dim: 0})
    if how == "mean":
        return x.mean(dim)
    raise ValueError(how)


def _shift(x, dim, how):
    c = np.asarray(x[dim].values, dtype=float)
    step = float(np.min(np.abs(np.diff(c)))) if c.size > 1 else 1.0
    if how == "disjoint":
        new = c + 0.37 * step + 1000.0
    else:  # shifted by one grid step where the grid is regular, else onto the next label: shares labels with the fitted coordinate
        new = np.concatenate([c[1:], [c[-1] + step]])
    return x.assign_coords({dim: new})


def _reorder_new_values(x, dim):
    c = np.asarray(x[dim].values, dtype=float)
    new = (c[::-1] * 0.5 - 7.0).copy()
    if new.size > 1:
        new[0], new[-1] = new[-1] + 3.0, new[0]
    return x.assign_coords({dim: new})


def _permute(x, dim, how):
    if dim not in x.dims:
        raise Inapplicable(dim)
    n = x.sizes[dim]
    if how == "reverse":
        return x.isel({dim: list(range(n - 1, -1, -1))})
    if how == "roll":
        if n < 3:
            raise Inapplicable("roll of %d labels" % n)
        return x.isel({dim: list(range(1, n)) + [0]})
    if how == "relabel_reverse":
        return x.assign_coords({dim: np.asarray(x[dim].values)[::-1].copy()})
    raise ValueError(how)


def _permute_vars(ds, how):
    import xarray as xr

    if not isinstance(ds, xr.Dataset):
        raise Inapplicable("not a Dataset")
    names = list(ds.data_vars)
    extra = "k_extra"  # additional variables are valid (the statement says so); its position is the presentation
    if how in ("reverse", "reverse_extra_middle"):
        order = names[::-1]
    elif how == "roll":
        if len(names) < 3:
            raise Inapplicable("roll of %d variables" % len(names))
        order = names[1:] + names[:1]
    else:
        order = list(names)
    if how == "extra_first":
        order = [extra] + order
    elif how in ("extra_middle", "reverse_extra_middle"):
        order = order[:1] + [extra] + order[1:]
    full = ds.assign({extra: ds[names[0]] * 2.0 + 1.0})
    out = full[order]
    assert list(out.data_vars) == order
    return out


def align_to(obj, like):
    """The same labelled data as `obj`, laid out in the coordinate order of `like` (harness side, plain xarray label selection)."""
    if isinstance(obj, (list, tuple)):
        return [align_to(o, l) for o, l in zip(obj, like)]
    sel = {d: np.asarray(like[d].values) for d in obj.dims if d != "time" and d in like.dims}
    return obj.sel(sel)


def mutate_data(obj, f):
    """Returns the mutated data argument for data fault / control `f` (harness side; may raise Inapplicable)."""
    import xarray as xr

    k = f["fault"]
    item = f.get("item")
    if k == "wrong_type":
        return _wrong_type(obj, f["how"])
    if k in ("drop_sample_dim", "drop_feature_dim"):
        return _map_item(obj, item, lambda x: _drop_dim(x, f["dim"], f["how"]))
    if k in ("rename_sample_dim", "rename_feature_dim"):
        return _map_item(obj, item, lambda x: x.rename({f["dim"]: f["dim"] + "_x"}))
    if k == "add_dim":
        lab = [0, 1] if f["how"] == "len2" else [0]
        return _map_item(obj, item, lambda x: x.expand_dims(extra=lab))
    if k == "shift_feature_coord":
        return _map_item(obj, item, lambda x: _shift(x, f["dim"], f["how"]))
    if k == "reorder_feature_coord_new_values":
        return _map_item(obj, item, lambda x: _reorder_new_values(x, f["dim"]))
    if k == "permute_feature_coord":
        return _map_item(obj, item, lambda x: _permute(x, f["dim"], f["how"]))
    if k == "permute_dataset_variables":
        return _map_item(obj, item, lambda x: _permute_vars(x, f["how"]))
    if k == "drop_variable":
        return obj.drop_vars(f["var"])
    if k == "rename_variable":
        return obj.rename({f["var"]: f["var"] + "_x"})
    if k == "drop_feature_dim_of_variable":
        return obj.assign({f["var"]: _drop_dim(obj[f["var"]], f["dim"], f["how"])})
    if k == "extra_variable":
        v0 = list(obj.data_vars)[0]
        return obj.assign(zzz_extra=obj[v0] * 2.0 + 1.0)
    if k == "list_length":
        if f["how"] == "minus":
            return list(obj)[:-1]
        if f["how"] == "bare_item":
            return list(obj)[0]
        if isinstance(obj, (list, tuple)):
            return list(obj) + [obj[-1]]
        return [obj, obj]
    raise ValueError(k)


def mutate_scores(s, f, k, kfit):
    """k = number of modes in the valid score array (labels 1..k); kfit = number of modes of the fitted model (>= k)."""
    kind = f["fault"]
    top = max(k, kfit)
    if kind == "wrong_type":
        return _wrong_type(s, f["how"])
    if kind == "unknown_mode_label":
        how = f["how"]
        if how == "one_beyond":
            lab = list(range(1, k)) + [top + 1]
        elif how == "all_beyond":
            lab = list(range(top + 1, top + k + 1))
        elif how == "zero":
            lab = list(range(0, k))
        else:
            lab = ["m%d" % i for i in range(k)]
        return s.assign_coords(mode=lab)
    if kind == "rename_mode_dim":
        return s.rename(mode="mode_x")
    if kind == "extra_score_dim":
        return s.expand_dims(member=[0, 1])
    if kind == "subset_of_modes":
        return s.isel(mode=[0])
    raise ValueError(kind)


def apply_fault(call, case, kfit=None):
    """Mutates `call` in place according to the case's single fault. Harness side only."""
    import xarray as xr

    f = case
    kind = f["fault"]
    e = call.entry
    if e == "ctor_fit":
        target = call.rot_ctor if call.is_rot else call.ctor
        if kind == "n_modes":
            target["n_modes"] = {"0": 0, "-1": -1, "rank+1": _rank_plus_one(call.model, call.cont, call.conf), "three": "three", "2.5": 2.5, "None": None, "model+1": K + 1, "large": 99}[f["how"]]
        elif kind == "n_modes_equals_rank":
            if call.is_rot:
                call.ctor["n_modes"] = _rank(call.model, call.cont, call.conf)
            target["n_modes"] = _rank(call.model, call.cont, call.conf)
        elif kind in ("n_pca_modes", "n_pca_modes_equals_rank"):
            rx = min(N_FIT, sum(_npieces_cols("X", call.cont)))
            ry = min(N_FIT, sum(_npieces_cols("Y", "da")))
            rz = min(N_FIT, sum(_npieces_cols("Z", "da")))
            big = (lambda r: r + 1) if f.get("how") == "rank+1" else (lambda r: 500)
            ok = 3  # the valid call's number of PCs
            if kind == "n_pca_modes_equals_rank":
                call.ctor["n_pca_modes"] = [rx, ry]
            elif call.kind == "cross":
                call.ctor["n_pca_modes"] = {"scalar": big(max(rx, ry)), "only_X": [big(rx), ok], "only_Y": [ok, big(ry)]}[f["form"]]
            elif call.kind == "multi":
                call.ctor["init_pca_modes"] = {"scalar": big(max(rx, ry, rz)), "only_Y": [ok, big(ry), ok]}[f["form"]]
            else:
                call.ctor["n_pca_modes"] = big(rx)
        elif kind == "unknown_solver":
            call.ctor["solver"] = "lanczos-ish" if f["how"] == "string" else None
        elif kind == "negative_alpha":
            call.ctor["alpha"] = {"scalar": -0.5, "first_of_pair": [-0.5, 0.5], "second_of_pair": [0.5, -0.25]}[f["how"]]
        elif kind == "alpha_above_one":
            call.ctor["alpha"] = 1.5
        else:
            raise ValueError(kind)
        return
    if e == "rotator_fit":
        call.rot_model_arg = f["how"]
        return
    if e == "fit":
        fld = f.get("field", "X")
        if call.kind == "multi":
            views = list(call.fit["views"])
            if kind == "wrong_type":
                if f["how"] == "view_ndarray":
                    views[1] = np.asarray(views[1].values)
                    call.fit["views"] = views
                else:
                    call.fit["views"] = _wrong_type(views[0], f["how"])
            elif kind == "sample_dim":
                call.fit["dim"] = _bad_dim(f["how"], views[1])
            elif kind == "sample_count_mismatch":
                views[1] = views[1].isel(time=slice(0, N_FIT - 1))
                call.fit["views"] = views
            else:
                raise ValueError(kind)
            return
        if kind == "wrong_type":
            call.fit[fld] = _wrong_type(call.fit[fld], f["how"])
        elif kind == "sample_dim":
            if f["how"] == "renamed_in_Y":
                call.fit["Y"] = call.fit["Y"].rename(time="time_y")
            else:
                call.fit["dim"] = _bad_dim(f["how"], call.fit[fld])
        elif kind == "item_lacks_sample_dim":
            call.fit[fld] = _map_item(call.fit[fld], f["item"], lambda x: x.isel(time=0, drop=True))
        elif kind == "item_wrong_type":
            call.fit[fld] = _map_item(call.fit[fld], f["item"], lambda x: np.asarray(x.values))
        elif kind == "weights_wrong_type":
            key = "weights" if fld == "X" else "weights_Y"
            how = f.get("how", "ndarray")
            first = _first_da(call.fit[fld])
            call.fit[key] = np.ones(3) if how == "ndarray" else (1.5 if how == "scalar" else np.full(first.shape, 1.5))
        elif kind == "sample_count_mismatch":
            cut = lambda o: _map_all(o, lambda x: x.isel(time=slice(0, N_FIT - 1)))  # noqa: E731
            if f["how"] == "y_shorter":
                call.fit["Y"] = cut(call.fit["Y"])
            elif f["how"] == "x_shorter":
                call.fit["X"] = cut(call.fit["X"])
            elif f["how"].endswith("_nan"):
                # the counts differ AND the longer field's surplus sample is entirely missing (an unfilled time step)
                short, long_ = ("Y", "X") if f["how"].startswith("y_shorter") else ("X", "Y")
                pos = 0 if "head" in f["how"] else N_FIT - 1

                def blank(x):
                    x = x.astype(float).copy()
                    x[dict(time=pos)] = np.nan
                    return x

                call.fit[long_] = _map_all(call.fit[long_], blank)
                call.fit[short] = _map_all(call.fit[short], (lambda x: x.isel(time=slice(1, N_FIT))) if pos == 0 else (lambda x: x.isel(time=slice(0, N_FIT - 1))))
            else:
                call.fit["X"] = _map_all(call.fit["X"], lambda x: x.isel(time=slice(0, N_FIT - 2)))
        else:
            raise ValueError(kind)
        return
    if e in ("transform", "transform_X", "transform_Y", "predict"):
        if call.kind == "multi":
            views = list(call.args["views"])
            if kind == "wrong_type" or kind == "list_length":
                # faults of the outer list of views
                if kind == "wrong_type":
                    call.args["views"] = _wrong_type(views[0], f["how"])
                else:
                    call.args["views"] = views[:-1] if f["how"] in ("minus", "bare_item") else views + [views[-1]]
            else:
                views[0] = mutate_data(views[0], f)
                call.args["views"] = views
            return
        key = "Y" if e == "transform_Y" else "X"
        call.args[key] = mutate_data(call.args[key], f)
        return
    if e == "inverse_transform":
        key = "scores" if call.kind != "cross" else f.get("field", "X")
        call.args[key] = mutate_scores(call.args[key], f, K, kfit or K)
        return
    raise ValueError(e)


def _map_all(obj, fn):
    if isinstance(obj, (list, tuple)):
        return [fn(x) for x in obj]
    return fn(obj)


def _bad_dim(how, obj):
    o = _first_da(obj) if not hasattr(obj, "dims") else obj
    return {
        "unknown": "nope",
        "partly_unknown": ("time", "nope"),
        "empty_tuple": (),
        "empty_list": [],
        "empty_string": "",
        "none": None,
        "int": 0,
        "all_dims": tuple(str(d) for d in o.dims),
    }[how]


# ----------------------------------------------------------------------------- observation


def describe(res, depth=0):
    """(text, n_values, n_finite) of whatever an entry point returned."""
    import xarray as xr

    if isinstance(res, (list, tuple)):
        parts = [describe(r, depth + 1) for r in res]
        return "%s[%s]" % (type(res).__name__, "; ".join(p[0] for p in parts)), sum(p[1] for p in parts), sum(p[2] for p in parts)
    if isinstance(res, xr.Dataset):
        parts = [describe(res[v], depth + 1) for v in res.data_vars]
        return "Dataset{%s}" % "; ".join("%s=%s" % (v, p[0]) for v, p in zip(res.data_vars, parts)), sum(p[1] for p in parts), sum(p[2] for p in parts)
    if isinstance(res, xr.DataArray):
        v = np.asarray(res.values)
        nf = int(np.isfinite(v.astype(complex)).sum()) if v.dtype.kind in "fciub" else 0
        return "DataArray(%s)" % ", ".join("%s=%d" % (d, n) for d, n in res.sizes.items()), int(v.size), nf
    if isinstance(res, np.ndarray):
        return "ndarray%s" % (res.shape,), int(res.size), int(np.isfinite(res.astype(complex)).sum()) if res.dtype.kind in "fciub" else 0
    return type(res).__name__, 0, 0


def _observe(call):
    """Runs the scenario; returns ('returned', description tuple) or ('raised', exception)."""
    with warnings.catch_warnings(), contextlib.redirect_stdout(io.StringIO()):  # multi.CCA prints its PCA warnings
        warnings.simplefilter("ignore")
        try:
            res = call.run()
            d = describe(res)  # touches .values: a lazily failing result counts as a refusal
            call.result = res
        except (CaseTimeout, MemoryError):
            raise
        except Exception as e:  # noqa: BLE001 - any exception type is a refusal (DESIGN C17, O)
            return "raised", e
    return "returned", d


def _where(e):
    import os
    import traceback

    tb = traceback.extract_tb(e.__traceback__)
    for fr in reversed(tb):
        if "/xeofs/" in fr.filename:
            return "%s:%d %s" % (os.path.basename(fr.filename), fr.lineno, fr.name)
    return "%s:%d %s" % (os.path.basename(tb[-1].filename), tb[-1].lineno, tb[-1].name) if tb else "?"


def run_case(case, seed):
    r = _run_case(case, seed)
    r["fault"] = case["fault"]  # for vacuity(): which fault kinds were decided at all
    return r


def _run_case(case, seed):
    is_control = case["entry"].endswith("!valid")
    entry = case["entry"].split("!")[0]
    feats = dict(fault=case["fault"], entry=entry)
    if case["fault"] in ("n_modes", "n_pca_modes"):
        feats["value"] = case["how"]
    if case.get("normalized"):
        feats["normalized"] = True

    # 1. the un-mutated call must succeed, else the case is vacuous
    base = Call(case, seed)
    what, obs = _observe(base)
    if what == "raised":
        return dict(
            violations=[],
            outcome="skipped:baseline:%s" % type(obs).__name__,
            nontrivial=False,
            info=dict(baseline="%s: %s @ %s" % (type(obs).__name__, str(obs)[:120], _where(obs))),
        )
    base_desc, base_n, base_finite = obs
    if base_n == 0 or base_finite == 0:
        return dict(violations=[], outcome="skipped:baseline:empty", nontrivial=False, info=dict(baseline=base_desc))

    # 2. apply the single fault (harness side). A fault in the arguments of transform / predict / inverse_transform is
    #    presented to the same fitted object (the user's history fit; call(valid); call(faulty)); a fault in the
    #    constructor or fit arguments gets freshly built objects
    mut = Call(case, seed)
    if mut.entry in Call.ARG_ENTRIES:
        mut.m = base.m
    try:
        apply_fault(mut, case, kfit=base.kfit)
    except Inapplicable:
        return dict(violations=[], outcome="skipped:inapplicable", nontrivial=False)

    # 3. the mutated call
    what, obs = _observe(mut)
    if is_control:
        if what == "raised":
            v = viol(
                "valid_call_refused",
                case["model"],
                "a call the property declares valid was refused: %s: %s (at %s); un-mutated call returned %s" % (type(obs).__name__, str(obs)[:200], _where(obs), base_desc),
                **feats,
            )
            return dict(violations=[v], outcome="violation", nontrivial=False)
        desc, n, nf = obs
        if n == 0 or nf == 0:
            v = viol("valid_call_empty", case["model"], "a call the property declares valid returned no finite values: %s" % desc, **feats)
            return dict(violations=[v], outcome="violation", nontrivial=False)
        return dict(violations=[], outcome="accepted_valid", nontrivial=True, info=dict(returned=desc))
    if what == "raised":
        if case["fault"] == "permute_dataset_variables" and case["how"] in ("extra_first", "extra_middle"):
            # the fitted variables in the fitted order plus one additional variable: a valid call by the statement's own words
            v = viol(
                "valid_call_refused",
                case["model"],
                "a Dataset carrying an additional variable (%s) was refused: %s: %s (at %s)" % (case["how"], type(obs).__name__, str(obs)[:200], _where(obs)),
                **feats,
            )
            return dict(violations=[v], outcome="violation", nontrivial=False)
        return dict(violations=[], outcome="rejected:%s" % type(obs).__name__, nontrivial=True, info=dict(exc=type(obs).__name__, at=_where(obs), baseline=base_desc))
    desc, n, nf = obs
    detail = {k: v for k, v in case.items() if k not in ("model", "container", "conf", "entry", "fault")}  # incl. solver, normalized
    if case["fault"] == "permute_feature_coord":
        return _judge_permutation(case, base, mut, feats, entry, detail, desc, base_desc, seed)
    if case["fault"] == "permute_dataset_variables":
        # accepted: the variables are named, so the answer must be the answer for the fitted order (= the un-mutated call)
        ok, txt = same_result(base.result, mut.result)
        if ok:
            return dict(violations=[], outcome="accepted_equivalent", nontrivial=True, info=dict(returned=desc, agreement=txt))
        v = viol(
            "dataset_variables_misread",
            case["model"],
            "%s of a %s input whose Dataset variables are presented as %s was accepted and returned %s, which is NOT the answer for the same "
            "named variables in the fitted order (%s): variables were matched by position" % (entry, case["container"], detail, desc, txt),
            **feats,
        )
        return dict(violations=[v], outcome="violation", nontrivial=False, info=dict(returned=desc, disagreement=txt))
    v = viol(
        "fault_accepted",
        case["model"],
        "%s with fault %s %s on a %s input returned %s (%d values, %d finite) instead of raising; the un-mutated call returned %s"
        % (entry, case["fault"], detail, case["container"], desc, n, nf, base_desc),
        **feats,
    )
    return dict(violations=[v], outcome="violation", nontrivial=False, info=dict(returned=desc, finite=nf))


def same_result(a, b, tol=1e-9):
    """Label-keyed equality of two entry-point results (DataArray or list of them); returns (ok, text)."""
    import xarray as xr

    if isinstance(a, (list, tuple)) or isinstance(b, (list, tuple)):
        if not (isinstance(a, (list, tuple)) and isinstance(b, (list, tuple)) and len(a) == len(b)):
            return False, "containers differ"
        for i, (x, y) in enumerate(zip(a, b)):
            ok, txt = same_result(x, y, tol)
            if not ok:
                return False, "item %d: %s" % (i, txt)
        return True, ""
    if not (isinstance(a, xr.DataArray) and isinstance(b, xr.DataArray)):
        return False, "types %s / %s" % (type(a).__name__, type(b).__name__)
    if set(a.dims) != set(b.dims):
        return False, "dims %s / %s" % (list(a.dims), list(b.dims))
    try:
        b2 = b.sel({d: np.asarray(a[d].values) for d in a.dims}).transpose(*a.dims)
    except Exception as e:  # noqa: BLE001 - a label of one result is missing in the other
        return False, "labels differ (%s)" % type(e).__name__
    va, vb = np.asarray(a.values), np.asarray(b2.values)
    if va.shape != vb.shape:
        return False, "shapes %s / %s" % (va.shape, vb.shape)
    scale = max(float(np.nanmax(np.abs(va))) if va.size else 0.0, 1e-300)
    err = D.relerr(vb, va, scale=scale)
    return bool(err <= tol), "max |difference| / max |reference| = %.3e" % err


def _judge_permutation(case, base, mut, feats, entry, detail, desc, base_desc, seed):
    """A feature coordinate carrying the fitted labels in another order was ACCEPTED. The statement lists 're-ordered with
    different values' as the fault; the same labels re-ordered are the same labelled data, so an answer is right exactly when
    it is the answer for the label-aligned data (a relation between two runs of the real code on the same fitted object)."""
    key = "views" if mut.kind == "multi" else ("Y" if entry == "transform_Y" else "X")
    ref = Call(case, seed)
    ref.m = base.m
    ref.args[key] = align_to(mut.args[key], base.args[key])
    what, obs = _observe(ref)
    if what == "raised":
        v = viol("valid_call_refused", case["model"], "the label-aligned form of the permuted data was refused: %s: %s (at %s)" % (type(obs).__name__, str(obs)[:200], _where(obs)), **feats)
        return dict(violations=[v], outcome="violation", nontrivial=False)
    ok, txt = same_result(ref.result, mut.result)
    if ok:
        return dict(violations=[], outcome="accepted_equivalent", nontrivial=True, info=dict(returned=desc, agreement=txt))
    v = viol(
        "reordered_coord_misread",
        case["model"],
        "%s with fault %s %s on a %s input was accepted and returned %s, which is NOT the answer for the same labelled data laid out in the fitted "
        "order (%s): the values were read by position; the un-mutated call returned %s" % (entry, case["fault"], detail, case["container"], desc, txt, base_desc),
        **feats,
    )
    return dict(violations=[v], outcome="violation", nontrivial=False, info=dict(returned=desc, disagreement=txt))


# ----------------------------------------------------------------------------- cross-case summary, vacuity


def _decided(o):
    return o.startswith("rejected:") or o in ("violation", "accepted_valid", "accepted_equivalent")


def finalize(cases, results, tier, seed):
    """No cross-case oracle; records what the run decided and what it could not decide."""
    from collections import Counter, defaultdict

    by_fault = defaultdict(Counter)
    skipped = Counter()
    sites = Counter()
    for c, r in zip(cases, results):
        o = r["outcome"]
        by_fault[c["fault"]][o.split(":")[0]] += 1
        if o.startswith("skipped:"):
            skipped["%s.%s on %s: %s" % (c["model"], c["entry"].split("!")[0], c["container"], o[len("skipped:"):])] += 1
        if o.startswith("rejected:"):
            at = r.get("info", {}).get("at", "?:0 ?")  # "file.py:LINE function"
            sites["%s %s" % (at.split(":")[0], at.split(" ")[-1])] += 1
    extra = dict(
        outcomes_by_fault={k: dict(v) for k, v in sorted(by_fault.items())},
        undecided_baseline_failed=dict(sorted(skipped.items())),
        refusal_sites=dict(sites.most_common()),
    )
    return [], extra


def vacuity(outcomes, results, tier):
    rej = sum(n for o, n in outcomes.items() if o.startswith("rejected:"))
    if rej == 0:
        return "no fault was ever refused"
    seen = {r.get("fault") for r in results}
    decided = {r.get("fault") for r in results if _decided(r["outcome"])}
    never = sorted(str(f) for f in seen - decided)
    if never:
        return "fault kinds never decided (every un-mutated call failed): %s" % never
    if outcomes.get("accepted_valid", 0) == 0:
        return "no valid control call was ever accepted"
    skipped = sum(n for o, n in outcomes.items() if o.startswith("skipped:"))
    total = sum(outcomes.values())
    if skipped > 0.25 * total:
        return "%d of %d cases skipped (baseline call failed or fault inapplicable)" % (skipped, total)
    if len({o for o in outcomes if o.startswith("rejected:")}) < 3:
        return "fewer than three distinct refusal exception types observed"
    return None
