"""C15 — Solver choice, variance thresholds and seeds behave as documented. Explorer P.

Five kinds of case, all running the real xeofs code:

  threshold   Decomposer / _SVD / SVD / PCA with a fractional n_modes on a matrix whose cumulative variance
              fractions are known; oracle (a): count kept = min{k : cum_k >= f} over the precomputed modes, else all of
              them and a warning.
  solvers     Decomposer / _SVD / SVD, each of full / randomized / auto run twice; oracles (b) exact vs randomised vs
              numpy reference across a gap, (c) auto bit-equals one of the two, (d) repeated run bit-identical,
              (e) largest-magnitude loading positive (real data).
  kwargs      every class advertising `solver_kwargs` (linalg wrappers, PCA, all models found by introspection) is
              given a documented option of the solver it runs; (f) accepted, result unchanged beyond solver accuracy;
              plus one accuracy-degrading option that must be *felt* (the option reached the solver).
  model_seed  every model advertising `random_state`: two fits with the same integer seed are bit-identical (d).
  model_frac  POP / cross-set models with fractional n_pca_modes: (a) observed on model.pca*.V.
  dask_lossy  dask input whose sketch is genuinely lossy (k + oversampling < rank): randomised == exact to the method's
              accuracy with and without pass-through options, and dask's own default value changes nothing (b, f).
"""

from __future__ import annotations

import inspect
import os
import traceback
import warnings

import numpy as np

from .. import data as D
from ..core import viol

ID = "C15"
LEVEL = "exploration"
TECHNIQUE = (
    "bounded exhaustive enumeration (wrapper/model class x back-end x shape x spectrum x n_modes or variance fraction x "
    "init_rank_reduction x solver x seed x solver option) of real decompositions against closed-form variance fractions, "
    "a numpy SVD reference and relations between repeated runs"
)
RULE = (
    "threshold: {Decomposer,_SVD,SVD,PCA} x shape x {geometric,flat_pair,clustered,rank_def} x init_rank_reduction in "
    "{.1,.3,.5,1} x f in {cum_k-1e-6, cum_k+1e-6 for every k, 1.0} x solver x {real,complex,dask}; "
    "solvers: {Decomposer,_SVD,SVD} x {numpy,complex,dask} x shape (incl. 501x3) x spectrum x n_modes in 1..min(shape) x "
    "random_state in {0,1,12345}, every solver run twice; kwargs: every class advertising solver_kwargs x solver route x "
    "documented option; model_seed: every class advertising random_state x solver x PCA variant x seed; model_frac: POP, "
    "CPCCA, MCA x init_rank_reduction x f; dask_lossy: {Decomposer,_SVD,SVD,PCA,EOF} x shape x seed x 3 option sets. A case is non-trivial when the real code returned and every applicable "
    "oracle clause compared non-empty arrays"
)
ASSUMPTIONS = [
    "the numeric catalogue (fixed spectra/shapes, orthogonal factors drawn from VERIF_SEED) stands for 'all matrices'",
    "numpy.linalg.svd / eigvalsh are correct (reference for singular values, subspaces and variance fractions)",
    "exact float ties f == cum_k are excluded (f = 1.0 is treated as a tie: any count between the two admissible ones passes)",
    "the number of precomputed modes is read from the object (n_modes_precompute) and only required to be "
    "floor or ceil of min(shape)*init_rank_reduction, at least 1",
    "a 'cannot be reached' warning is any UserWarning issued from xeofs code whose text does not contain 'too low' (the other documented warning)",
    "mirror-antisymmetric / mirror-duplicated data classes (X[:, j] == -/+ X[:, p-1-j]) are added to the solver cases: their "
    "modes have |max loading| == |min loading| up to rounding, very often exactly; on an exact tie either sign passes, a zero mode never",
    "dask_lossy: 60x40 (thorough also 300x120) with spectrum [10,9,8,7,6 | 1.8 flat], n_modes=5, solver options {} / "
    "{n_oversamples:10} (dask's default) / {n_oversamples:20}: values within 1e-3, subspace sine within 1e-2 of numpy's SVD, {} == {n_oversamples:10}",
    "classes that cannot choose the solver (PCA, POP: their SVD always follows the auto policy) must accept the option of "
    "whichever route auto takes; ExtendedEOF with an inner PCA is not given options under solver='auto' (two decompositions, two routes)",
    "SparsePCA advertises solver_kwargs but runs no SVD solver they could reach: acceptance is judged, reach only tallied",
    "documented refusals are tallied, not judged: scipy svds needs k < min(shape); fractional n_modes with dask arrays",
    "options used: n_iter / n_oversamples / power_iteration_normalizer (sklearn randomized_svd), full_matrices (numpy svd), "
    "n_power_iter / n_oversamples (dask svd_compressed), maxiter (scipy svds)",
]
TALLY_KEYS = ("kind", "target", "backend", "solver", "spec")
TRUSTED = ["statsmodels import shim (cross-set constructors)"]
MAX_REFUSED_FRACTION = 0.25

SPECS = ("geometric", "flat_pair", "clustered", "rank_def")
SEEDS = (0, 1, 12345)
IRRS = (0.1, 0.3, 0.5, 1.0)
EPS_F = 1e-6
TIE = 1e-9
TOL_R = 1e-7
# lossy-sketch data class (dask_lossy kind): five leading values, a gap of ratio 0.3, then a flat tail, so that
# k + n_oversamples < rank and the answer depends on xeofs' own defaults (4 re-orthonormalised power iterations)
LOSSY_LEAD = (10.0, 9.0, 8.0, 7.0, 6.0)
LOSSY_TAIL = 1.8
LOSSY_OPTS = ({}, {"n_oversamples": 10}, {"n_oversamples": 20})
MIRROR = ("antisym", "symdup")  # X[:, j] == -/+ X[:, p-1-j]: every right singular vector is mirror (anti)symmetric

# ----------------------------------------------------------------------------- model catalogue (by introspection)

SINGLE_EXTRA = {
    "ExtendedEOF": [dict(tau=1, embedding=2), dict(tau=1, embedding=2, n_pca_modes=3), dict(tau=1, embedding=2, n_pca_modes=5)],
    "OPA": [dict(tau_max=2, n_pca_modes=3)],
    "POP": [dict(n_pca_modes=3), dict(n_pca_modes=6), dict(n_pca_modes=0.9, pca_init_rank_reduction=0.5)],
}
CROSS_VARIANTS = [
    dict(use_pca=False),
    dict(use_pca=True, n_pca_modes=3),
    dict(use_pca=True, n_pca_modes=0.9, pca_init_rank_reduction=0.5),
    dict(use_pca=True, n_pca_modes="all"),
]


def _advertisers():
    """[(package, class name, has_solver_kwargs, has_random_state)] sorted; found by introspection."""
    import xeofs as xe

    out = []
    for pkg in ("single", "cross"):
        try:
            mod = getattr(xe, pkg)
        except Exception:
            continue
        for nm in sorted(dir(mod)):
            if nm.startswith("_"):
                continue
            try:
                cls = getattr(mod, nm)
            except Exception:
                continue
            if not inspect.isclass(cls):
                continue
            try:
                ps = inspect.signature(cls.__init__).parameters
            except Exception:
                continue
            sk, rs = "solver_kwargs" in ps, "random_state" in ps
            if sk or rs:
                out.append((pkg, nm, sk, rs))
    return out


def _variants(pkg, nm):
    if pkg == "single":
        return SINGLE_EXTRA.get(nm, [dict()])
    return CROSS_VARIANTS


def _is_complex_route(pkg, nm, cplx_input):
    return cplx_input or nm.startswith("Hilbert")


# ----------------------------------------------------------------------------- enumeration


def _cum_closed_form(n, p, spec):
    r = min(n - 1, p)
    s = D.spectrum(spec, r)
    lam = np.zeros(min(n, p))
    lam[:r] = s**2
    return np.cumsum(lam) / lam.sum()


def _fractions(n, p, spec):
    """descriptors [k, side] (f = cum_k + side*1e-6) that are valid fractions and no float tie, plus 'one'."""
    cum = _cum_closed_form(n, p, spec)
    out = []
    for k in range(1, len(cum) + 1):
        for side in (-1, 1):
            f = cum[k - 1] + side * EPS_F
            if not (0 < f <= 1.0):
                continue
            if np.min(np.abs(cum - f)) < 10 * TIE:
                continue
            d = [k, side]
            # identical f from a repeated cum value (rank_def tail) is enumerated once
            if any(abs((cum[kk - 1] + ss * EPS_F) - f) < 1e-15 for kk, ss in out):
                continue
            out.append(d)
    return out + ["one"]


def cases(tier, seed):
    quick = tier == "quick"
    out = []
    # ---------------- threshold
    shapes = [(6, 4), (12, 6)] if quick else [(6, 4), (4, 6), (9, 6), (12, 6)]
    for target in ("Decomposer", "_SVD", "SVD", "PCA"):
        for (n, p) in shapes:
            for spec in SPECS:
                for irr in IRRS:
                    for fr in _fractions(n, p, spec):
                        for backend in ("numpy", "complex"):
                            if quick and backend == "complex" and ((n, p) != (6, 4) or target in ("SVD",)):
                                continue
                            for solver in (["auto"] if target == "PCA" else ["auto", "full", "randomized"]):
                                if quick and solver == "full" and irr in (0.1, 0.5):
                                    continue
                                out.append(dict(kind="threshold", target=target, backend=backend, shape=[n, p], spec=spec, irr=irr, frac=fr, solver=solver))
    for target in ("Decomposer", "_SVD", "SVD", "PCA"):  # documented refusal: fraction + dask
        for solver in (["auto"] if target == "PCA" else ["auto", "full", "randomized"]):
            out.append(dict(kind="threshold", target=target, backend="dask", shape=[12, 6], spec="geometric", irr=1.0, frac=[2, 1], solver=solver))
    # ---------------- solvers
    for target in ("Decomposer", "_SVD", "SVD"):
        for backend in ("numpy", "complex", "dask"):
            if backend == "dask":
                shp = [(12, 6), (501, 3)] if quick else [(6, 4), (4, 6), (12, 6), (501, 3)]
            else:
                shp = [(8, 1), (6, 4), (4, 6), (12, 6), (501, 3)] if quick else [(8, 1), (6, 4), (4, 6), (9, 6), (12, 6), (501, 3)]
            for (n, p) in shp:
                for spec in SPECS + MIRROR:
                    if quick and backend == "dask" and spec in ("flat_pair", "clustered"):
                        continue
                    if p == 1 and spec != "geometric":
                        continue
                    if spec in MIRROR and (p % 2 or n > 100):
                        continue
                    for k in range(1, min(n, p) + 1):
                        for rs in SEEDS:
                            if quick and rs != 0 and not ((n, p) == (12, 6) and spec == "geometric"):
                                continue
                            out.append(dict(kind="solvers", target=target, backend=backend, shape=[n, p], spec=spec, n_modes=k, rs=rs, solver="all"))
    # tall and skinny matrices (n >= 10 p) with a wide dynamic range: the corner where forming X^H X (which squares the condition
    # number) would be a tempting shortcut for the "exact" solver
    for target in ("Decomposer", "_SVD", "SVD"):
        for backend in ("numpy", "complex"):
            for (n, p) in ([(80, 8)] if quick else [(80, 8), (60, 6), (120, 8)]):
                for k in range(1, p + 1):
                    out.append(dict(kind="solvers", target=target, backend=backend, shape=[n, p], spec="steep", n_modes=k, rs=0, solver="all"))
    # ---------------- kwargs on the linalg wrappers and PCA
    for target in ("Decomposer", "_SVD", "SVD", "PCA"):
        for backend in ("numpy", "complex", "dask"):
            for solver in (["auto"] if target == "PCA" else ["full", "randomized"]):
                for k in ((2, 6) if target == "PCA" else (2,)):
                    for oi in range(len(_options(backend, solver))):
                        out.append(dict(kind="kwargs", target=target, backend=backend, solver=solver, n_modes=k, opt=oi, spec="geometric"))
            if backend != "complex":
                out.append(dict(kind="kwargs", target=target, backend=backend, solver="auto" if target == "PCA" else "randomized", n_modes=2, opt="degrade", spec="near_equal_var"))
    # ---------------- models
    for (pkg, nm, sk, rs_) in _advertisers():
        cplx_inputs = [False, True] if nm.startswith("Complex") else [False]
        for vi, var in enumerate(_variants(pkg, nm)):
            for cplx in cplx_inputs:
                backend = "complex" if _is_complex_route(pkg, nm, cplx) else "numpy"
                if sk:
                    for solver in ("full", "randomized", "auto"):
                        if solver == "auto" and nm == "ExtendedEOF" and var.get("n_pca_modes"):
                            continue  # two internal decompositions may each pick a different route: no single option fits both
                        # POP's only decomposition runs inside its PCA, which has no `solver` and always follows the auto policy
                        opts = _options(backend, "auto" if nm == "POP" else solver)
                        for oi in range(len(opts)):
                            out.append(dict(kind="kwargs", target=nm, pkg=pkg, variant=vi, cplx=cplx, backend=backend, solver=solver, n_modes=2, opt=oi, spec="geometric"))
                    if backend == "numpy":
                        out.append(dict(kind="kwargs", target=nm, pkg=pkg, variant=vi, cplx=cplx, backend=backend, solver="randomized", n_modes=1, opt="degrade", spec="near_equal_var"))
                if rs_:
                    for solver in ("full", "randomized", "auto"):
                        for rs in SEEDS:
                            if quick and (rs == 1 or (rs != 0 and pkg == "cross")):
                                continue
                            out.append(dict(kind="model_seed", target=nm, pkg=pkg, variant=vi, cplx=cplx, backend=backend, solver=solver, n_modes=2, rs=rs, spec="geometric"))
    # ---------------- fractional n_pca_modes through models
    for nm, pkg in (("POP", "single"), ("CPCCA", "cross"), ("MCA", "cross")):
        for spec in ("geometric", "flat_pair", "clustered"):
            for irr in IRRS:
                for fr in _fractions(12, 6, spec):
                    if fr == "one" or (quick and nm == "MCA" and spec != "geometric"):
                        continue
                    out.append(dict(kind="model_frac", target=nm, pkg=pkg, backend="numpy", shape=[12, 6], spec=spec, irr=irr, frac=fr, solver="auto"))
    # ---------------- lossy sketch on dask input
    for target in ("Decomposer", "_SVD", "SVD", "PCA", "EOF"):
        for (n, p) in ([(60, 40)] if quick else [(60, 40), (300, 120)]):
            for rs in ((0, 12345) if quick else SEEDS):
                out.append(dict(kind="dask_lossy", target=target, backend="dask", shape=[n, p], spec="lossy_gap", n_modes=len(LOSSY_LEAD), rs=rs, solver="auto" if target == "PCA" else "randomized"))
    order = {"threshold": 0, "solvers": 1, "kwargs": 2, "model_seed": 3, "model_frac": 4, "dask_lossy": 5}
    out.sort(key=lambda c: order[c["kind"]])  # stable: simplest kind first, enumeration order within
    return out


def _options(backend, solver):
    """documented pass-through options of the solver that (backend, solver) runs; 'auto' gets the union, of which the
    one matching the route actually taken must be accepted."""
    if solver == "full":
        return [{"full_matrices": False}] if backend != "dask" else []
    if solver == "randomized":
        if backend == "numpy":
            return [{"n_iter": 6}, {"n_oversamples": 12}, {"power_iteration_normalizer": "QR"}]
        if backend == "dask":
            return [{"n_power_iter": 2}, {"n_oversamples": 12}]
        return [{"maxiter": 50}]
    return ["union"]


def _union(backend):
    return _options(backend, "full") + _options(backend, "randomized")[:1]


DEGRADE = {"numpy": {"n_iter": 0, "n_oversamples": 0}, "dask": {"n_power_iter": 0, "n_oversamples": 0}}

# ----------------------------------------------------------------------------- data classes beyond data.py


def _matrix(n, p, spec, cplx, seed):
    """catalogue matrix (centred); 'antisym' / 'symdup' mirror a geometric n x p/2 block: X = [B, -/+ B[:, ::-1]]"""
    if spec in MIRROR:
        B = D.make_matrix(n, p // 2, "geometric", 1.0, cplx, seed, mean=False)
        return np.concatenate([B, (-1.0 if spec == "antisym" else 1.0) * B[:, ::-1]], axis=1)
    return D.make_matrix(n, p, spec, 1.0, cplx, seed, mean=False)


def _lossy_matrix(n, p, seed):
    rng = np.random.default_rng([int(seed), n, p, 4242])
    A = rng.standard_normal((n, p))
    A -= A.mean(axis=0, keepdims=True)
    U, _ = np.linalg.qr(A)
    V, _ = np.linalg.qr(rng.standard_normal((p, p)))
    sv = np.full(p, LOSSY_TAIL)
    sv[: len(LOSSY_LEAD)] = LOSSY_LEAD
    return (U * sv) @ V.T


# ----------------------------------------------------------------------------- running the linalg wrappers


class Refused(Exception):
    pass


def _refusal(e, backend, n_modes_is_float):
    msg = str(e)
    if isinstance(e, ValueError) and "`k` must be" in msg and backend == "complex":
        return "svds_k"
    if isinstance(e, ValueError) and "not supported with dask" in msg and backend == "dask" and n_modes_is_float:
        return "dask_fraction"
    return None


def _wrap(X, backend):
    import xarray as xr

    n, p = X.shape
    arr = X
    if backend == "dask":
        import dask.array as dsa

        arr = dsa.from_array(X, chunks=((n + 1) // 2, p))
    da = xr.DataArray(arr, dims=("sample", "feature"), coords={"sample": np.arange(n), "feature": np.arange(p) * 10})
    return arr, da


def _fit_linalg(target, X, backend, n_modes, solver, rs, irr=0.3, skw=None):
    """-> dict(U, s, V (numpy, columns = modes; U/s None for PCA), n_pre, warns)"""
    import dask

    arr, da = _wrap(X, backend)
    kw = {} if skw is None else {"solver_kwargs": dict(skw)}
    with warnings.catch_warnings(record=True) as wl:
        warnings.simplefilter("always")
        if target == "Decomposer":
            from xeofs.linalg.decomposer import Decomposer

            d = Decomposer(n_modes=n_modes, init_rank_reduction=irr, solver=solver, random_state=rs, **kw)
            d.fit(da)
            U = np.asarray(d.U_.transpose("sample", "mode").values)
            s = np.asarray(d.s_.values)
            V = np.asarray(d.V_.transpose("feature", "mode").values)
            n_pre = d.n_modes_precompute
        elif target == "_SVD":
            from xeofs.linalg._numpy._svd import _SVD

            d = _SVD(n_modes=n_modes, init_rank_reduction=irr, solver=solver, random_state=rs, **kw)
            U, s, V = d.fit_transform(arr)
            U, s, V = dask.compute(U, s, V)
            U, s, V = np.asarray(U), np.asarray(s), np.asarray(V)
            n_pre = d.n_modes_precompute
        elif target == "SVD":
            from xeofs.linalg.svd import SVD

            d = SVD(n_modes=n_modes, init_rank_reduction=irr, solver=solver, random_state=rs, **kw)
            U, s, V = d.fit_transform(da)
            U = np.asarray(U.transpose("sample", "mode").values)
            s = np.asarray(s.values)
            V = np.asarray(V.transpose("feature", "mode").values)
            n_pre = None
        elif target == "PCA":
            from xeofs.preprocessing.pca import PCA

            d = PCA(n_modes=n_modes, init_rank_reduction=irr, compute_eagerly=True, random_state=rs, **kw)
            d.fit(da)
            U, s = None, None
            V = np.asarray(d.V.transpose("feature", "mode").values)
            n_pre = None
        else:
            raise ValueError(target)
    warns = _threshold_warnings(wl)
    return dict(U=U, s=s, V=V, n_pre=n_pre, warns=warns)


def _threshold_warnings(wl):
    """UserWarnings issued from xeofs code other than the documented 'init_rank_reduction ... is too low' one"""
    return [str(w.message) for w in wl if issubclass(w.category, UserWarning) and "xeofs" in str(w.filename) and "too low" not in str(w.message)]


def _where(e):
    tb = traceback.extract_tb(e.__traceback__)
    for fr in reversed(tb):
        if "/xeofs/" in fr.filename:
            return "%s:%s" % (os.path.basename(fr.filename), fr.name)
    return "%s:%s" % (os.path.basename(tb[-1].filename), tb[-1].name) if tb else "?"


# ----------------------------------------------------------------------------- oracle pieces


def _ref_cum(X, m):
    Xc = X - X.mean(axis=0, keepdims=True)
    lam = np.linalg.eigvalsh(Xc.conj().T @ Xc)[::-1]
    lam = np.clip(lam, 0, None)
    full = np.zeros(max(m, len(lam)))
    full[: len(lam)] = lam
    return np.cumsum(full)[:m] / lam.sum()


def _frac_value(cum, fr):
    if fr == "one":
        return 1.0
    k, side = fr
    return float(cum[k - 1] + side * EPS_F)


def _expected_count(cum, f, n_pre):
    """-> (k_lo, k_hi, warn) with warn in {True, False, None(either)}; counts between k_lo and k_hi are admissible
    (k_lo < k_hi only on a float tie)."""
    c = cum[:n_pre]
    lo = [k for k in range(1, n_pre + 1) if c[k - 1] >= f - TIE]
    hi = [k for k in range(1, n_pre + 1) if c[k - 1] >= f + TIE]
    k_lo = lo[0] if lo else n_pre
    k_hi = hi[0] if hi else n_pre
    if not lo:
        warn = True
    elif hi:
        warn = False
    else:
        warn = None
    return k_lo, k_hi, warn


def _npre_candidates(m, irr):
    x = round(m * irr, 9)
    c = {max(1, int(np.floor(x))), max(1, int(np.ceil(x)))}
    return sorted(k for k in c if 1 <= k <= m)


def _check_threshold(bad, cum, f, irr, m, count, warns, n_pre_obs):
    cands = _npre_candidates(m, irr)
    if n_pre_obs is not None:
        if n_pre_obs not in cands:
            bad("threshold_nprecompute", "n_modes_precompute=%s but min(shape)*init_rank_reduction=%d*%s" % (n_pre_obs, m, irr))
            return
        cands = [int(n_pre_obs)]
    verdicts = []
    for n_pre in cands:
        k_lo, k_hi, warn = _expected_count(cum, f, n_pre)
        if not (k_lo <= count <= k_hi):
            verdicts.append(("threshold_count", "kept %d modes for f=%.9f; cumulative fractions %s; admissible %d..%d of %d precomputed" % (count, f, np.round(cum[:n_pre], 7).tolist(), k_lo, k_hi, n_pre), dict(off=int(np.sign(count - k_lo)))))
        elif warn is True and not warns:
            verdicts.append(("threshold_warning_missing", "f=%.9f unreachable with %d precomputed modes (cum=%.9f) but no warning" % (f, n_pre, cum[n_pre - 1]), {}))
        elif warn is False and warns:
            verdicts.append(("threshold_spurious_warning", "f=%.9f reached at %d of %d modes but warned: %s" % (f, count, n_pre, warns[0][:120]), {}))
        else:
            return
    c, msg, extra = verdicts[0]
    bad(c, msg, **extra)


def _proj(A):
    Q, _ = np.linalg.qr(A)
    return Q @ Q.conj().T


def _sign_check(bad, V, label):
    """largest-magnitude loading positive, or a tie between a positive and a negative loading (then either sign; a zero
    mode is caught by the unit-norm clause). Returns the number of modes with an EXACT tie max == -min."""
    exact = 0
    for j in range(V.shape[1]):
        v = V[:, j].real
        a = np.abs(v)
        i = int(np.argmax(a))
        if a[i] == 0:
            bad("sign_convention", "%s: mode %d is identically zero" % (label, j + 1), constant_mode=False, zero_mode=True)
            return exact
        if v.max() == -v.min():
            exact += 1
        if a.size > 1 and (a[i] - np.sort(a)[-2]) <= 1e-6 * a[i]:
            continue  # two largest magnitudes tie: either sign (DESIGN 4.4)
        if not v[i] > 0:
            # constant_mode: all loadings of the mode are equal (always so with a single feature) -- max == min inside xeofs
            bad("sign_convention", "%s: mode %d largest-magnitude loading is %.6g (negative)" % (label, j + 1, v[i]), constant_mode=bool(np.ptp(v) <= 1e-12 * a[i]), zero_mode=False)
            return exact
    return exact


def _eq(a, b):
    return all(np.array_equal(a[k], b[k], equal_nan=True) for k in ("U", "s", "V") if a[k] is not None)


# ----------------------------------------------------------------------------- kinds


def _run_threshold(case, seed):
    n, p = case["shape"]
    backend, target = case["backend"], case["target"]
    X = _matrix(n, p, case["spec"], backend == "complex", seed)
    m = min(n, p)
    cum = _ref_cum(X, m)
    f = _frac_value(cum, case["frac"])
    V_ = []
    feats = dict(backend=backend, solver=case["solver"])

    def bad(check, msg, **extra):
        V_.append(viol(check, target, msg, **feats, **extra))

    try:
        r = _fit_linalg(target, X, backend, f, case["solver"], 3, irr=case["irr"])
    except Exception as e:
        why = _refusal(e, backend, True)
        if why:
            return dict(outcome="refused:" + why, nontrivial=False)
        raise
    count = r["V"].shape[1]
    if r["s"] is not None and r["s"].shape[0] != count:
        bad("threshold_count", "s has %d entries, V %d columns" % (r["s"].shape[0], count))
    _check_threshold(bad, cum, f, case["irr"], m, count, r["warns"], r["n_pre"])
    if r["s"] is not None and count:
        sref = np.linalg.svd(X, compute_uv=False)
        e = np.abs(r["s"] - sref[:count]).max() / sref[0] if count <= len(sref) else np.inf
        if not e <= TOL_R:
            bad("threshold_leading", "kept modes are not the leading ones: s=%s ref=%s" % (r["s"][:4], sref[:4]))
    return dict(violations=V_, outcome="violation" if V_ else "ok", nontrivial=not V_ and count > 0, info=dict(count=int(count), warned=bool(r["warns"]), f=f))


def _run_solvers(case, seed):
    n, p = case["shape"]
    backend, target, k, rs = case["backend"], case["target"], case["n_modes"], case["rs"]
    X = _matrix(n, p, case["spec"], backend == "complex", seed)
    V_ = []
    feats = dict(backend=backend)

    def bad(check, msg, **extra):
        V_.append(viol(check, target, msg, **feats, **extra))

    runs = {}
    refused = {}
    for rep in (0, 1):
        for solver in ("full", "randomized", "auto"):
            if solver in refused:
                continue
            try:
                runs[(solver, rep)] = _fit_linalg(target, X, backend, k, solver, rs)
            except Exception as e:
                why = _refusal(e, backend, False)
                if why and solver != "full":
                    refused[solver] = why
                    continue
                raise
    Ur, sr, Vhr = np.linalg.svd(X, full_matrices=False)
    Vr = Vhr.conj().T
    s0 = max(sr[0], 1e-300)
    s_next = sr[k] if k < len(sr) else 0.0
    gap = (sr[k - 1] - s_next) / s0 > 1e-3
    compared = 0
    tol = TOL_R  # every randomised route (sklearn, svds, dask svd_compressed with QR-normalised power iterations)
    gap_b = gap
    # (d) repeated runs bit-identical
    for solver in ("full", "randomized", "auto"):
        if (solver, 0) in runs and (solver, 1) in runs:
            compared += 1
            if not _eq(runs[(solver, 0)], runs[(solver, 1)]):
                a, b = runs[(solver, 0)], runs[(solver, 1)]
                bad("seed_bit_identity", "two runs with random_state=%d differ: max|ds|=%.3e max|dV|=%.3e" % (rs, np.abs(a["s"] - b["s"]).max(), np.abs(a["V"] - b["V"]).max()), solver=solver)
    # shapes
    for (solver, rep), r in runs.items():
        if r["s"].shape != (k,) or r["V"].shape != (p, k) or r["U"].shape != (n, k):
            bad("shape", "%s returned U%s s%s V%s for n_modes=%d" % (solver, r["U"].shape, r["s"].shape, r["V"].shape, k), solver=solver)
            return dict(violations=V_, outcome="violation", nontrivial=False)
    # (b) exact / randomized against each other and against the reference, across a gap
    if gap_b:
        Pv, Pu = _proj(Vr[:, :k]), _proj(Ur[:, :k])
        for solver in ("full", "randomized", "auto"):
            if (solver, 0) not in runs:
                continue
            r = runs[(solver, 0)]
            e = np.abs(r["s"] - sr[:k]).max() / s0
            if not e <= tol:
                bad("reference_values", "%s: singular values %s vs numpy %s" % (solver, r["s"][:4], sr[:4]), solver=solver)
            e = max(np.abs(_proj(r["V"]) - Pv).max(), np.abs(_proj(r["U"]) - Pu).max())
            if not e <= tol:
                bad("reference_subspace", "%s: leading-subspace projector differs from numpy's by %.3e" % (solver, e), solver=solver)
        if ("full", 0) in runs and ("randomized", 0) in runs:
            a, b = runs[("full", 0)], runs[("randomized", 0)]
            e = np.abs(a["s"] - b["s"]).max() / s0
            if not e <= tol:
                bad("exact_vs_randomized_values", "full %s vs randomized %s" % (a["s"][:4], b["s"][:4]))
            e = max(np.abs(_proj(a["V"]) - _proj(b["V"])).max(), np.abs(_proj(a["U"]) - _proj(b["U"])).max())
            if not e <= tol:
                bad("exact_vs_randomized_subspace", "projector difference %.3e" % e)
    # every mode, gap or not: unit-norm vectors, and U s V^H is a best rank-k approximation (Eckart-Young value)
    opt = float(np.sum(sr[k:] ** 2))
    for solver in ("full", "randomized", "auto"):
        if (solver, 0) not in runs:
            continue
        r = runs[(solver, 0)]
        nv = np.linalg.norm(r["V"], axis=0)
        nu = np.linalg.norm(r["U"], axis=0)
        live = sr[:k] > 1e-10 * s0
        if not (np.abs(nv - 1).max() <= tol) or not (np.abs(nu[live] - 1).max(initial=0.0) <= tol):
            j = int(np.argmax(np.abs(nv - 1)))
            bad("unit_norm", "%s: mode %d has |v| = %.6g, |u| = %.6g (expected 1)" % (solver, j + 1, nv[j], nu[j]), solver=solver, zero_mode=bool(nv.min() < 0.5))
            continue
        res = float(np.linalg.norm(X - (r["U"] * r["s"]) @ r["V"].conj().T) ** 2)
        if not abs(res - opt) / s0**2 <= 10 * tol:
            bad("reconstruction", "%s: |X - U s V^H|^2 = %.6e, best rank-%d value %.6e" % (solver, res, k, opt), solver=solver)
    # (c) auto selects
    auto_is = "refused"
    if ("auto", 0) in runs:
        a = runs[("auto", 0)]
        is_f = _eq(a, runs[("full", 0)])
        is_r = ("randomized", 0) in runs and _eq(a, runs[("randomized", 0)])
        auto_is = "both" if (is_f and is_r) else "full" if is_f else "randomized" if is_r else "neither"
        if auto_is == "neither" and "randomized" not in refused:
            bad("auto_selects", "auto result is bit-identical neither to full nor to randomized(random_state=%d)" % rs)
    elif "auto" in refused and "randomized" not in refused:
        bad("auto_selects", "auto refused (%s) although both solvers returned" % refused["auto"])
    # (e) sign convention, real data
    ties = 0
    if backend != "complex":
        for solver in ("full", "randomized", "auto"):
            if (solver, 0) in runs:
                ties += _sign_check(lambda c, m_, **kw: bad(c, m_, solver=solver, **kw), runs[(solver, 0)]["V"], solver)
    out = "violation" if V_ else ("ok" if not refused else "ok_partial:" + ",".join(sorted(set(refused.values()))))
    return dict(violations=V_, outcome=out, nontrivial=not V_ and compared > 0, info=dict(auto_is=auto_is, gap=bool(gap_b), refused=sorted(refused), exact_ties=int(ties)))


# ---- models


def _inputs(pkg, cplx, seed, spec):
    n = 12
    X = D.make_matrix(n, 6, spec, 1.0, cplx, seed)
    da = D.da_grid(X, 3, 2)
    if pkg == "single":
        return X, (da,)
    Y = D.make_matrix(n, 4, spec, 1.0, cplx, seed, salt=1)
    db = D.da_grid(Y, 2, 2, name="data2")
    return X, (da, db)


def _build(pkg, nm, var, n_modes, solver, rs, skw):
    import xeofs as xe

    cls = getattr(getattr(xe, pkg), nm)
    ps = inspect.signature(cls.__init__).parameters
    kw = dict(var)
    kw["n_modes"] = n_modes
    if "solver" in ps:
        kw["solver"] = solver
    if "random_state" in ps and rs is not None:
        kw["random_state"] = rs
    if skw is not None:
        kw["solver_kwargs"] = dict(skw)
    if nm == "SparsePCA":
        kw["max_iter"] = 30
    return cls(**kw)


def _fit_model(pkg, nm, var, n_modes, solver, rs, skw, inputs):
    with warnings.catch_warnings(record=True) as wl:
        warnings.simplefilter("always")
        m = _build(pkg, nm, var, n_modes, solver, rs, skw)
        m.fit(*inputs, dim="time")
        arrays = {}
        for key, v in m.data.items():
            if key.startswith("input_data"):
                continue
            if "mode" in v.dims:
                v = v.transpose(..., "mode")
            arrays[key] = np.asarray(v.values)
        for attr in ("pca", "pca1", "pca2"):
            t = getattr(m, attr, None)
            Vt = getattr(t, "V", None)
            if Vt is not None and hasattr(Vt, "values") and getattr(Vt, "ndim", 0) == 2:
                arrays[attr + ".V"] = np.asarray(Vt.transpose(..., "mode").values)
    warns = _threshold_warnings(wl)
    return m, arrays, warns


def _model_refusal(e, backend):
    return "svds_k" if (isinstance(e, ValueError) and "`k` must be" in str(e) and backend == "complex") else None


def _cols_close(A, B):
    """column-wise (last axis = mode) agreement up to a unit factor (sign/phase): max of relative norm difference and angle"""
    A2, B2 = A.reshape(-1, A.shape[-1]), B.reshape(-1, B.shape[-1])
    worst = 0.0
    for j in range(A2.shape[1]):
        a, b = np.nan_to_num(A2[:, j]), np.nan_to_num(B2[:, j])
        na, nb = np.linalg.norm(a), np.linalg.norm(b)
        if max(na, nb) == 0:
            continue
        worst = max(worst, abs(na - nb) / max(na, nb))
        if min(na, nb) > 0:
            worst = max(worst, float(np.sqrt(max(0.0, 2 * (1 - abs(np.vdot(a, b)) / (na * nb))))))
    return worst


def _arrays_close(a, b):
    worst, key = 0.0, None
    for k in a:
        if k not in b:
            return np.inf, k
        x, y = a[k], b[k]
        if x.shape != y.shape:
            return np.inf, k
        if x.ndim >= 2:
            e = _cols_close(x, y)
        else:
            sc = max(np.nanmax(np.abs(y)) if y.size else 0.0, 1e-300)
            e = float(np.nanmax(np.abs(np.abs(x) - np.abs(y))) / sc) if x.size else 0.0
        if not e <= worst:
            worst, key = e, k
    return worst, key


def _run_kwargs(case, seed):
    target, backend, solver, k = case["target"], case["backend"], case["solver"], case["n_modes"]
    is_model = "pkg" in case
    V_ = []
    feats = dict(backend=backend, solver=solver)

    def bad(check, msg, **extra):
        f_ = {} if check == "kwargs_accepted" else dict(feats)
        V_.append(viol(check, target, msg, **f_, **extra))

    if is_model:
        pkg = case["pkg"]
        var = _variants(pkg, target)[case["variant"]]
        X, inputs = _inputs(pkg, case["cplx"], seed, case["spec"])
        feats = dict(inner_pca=bool(var.get("n_pca_modes")) if pkg == "single" else bool(var.get("use_pca")))

        def run(skw):
            _, arrays, _ = _fit_model(pkg, target, var, k, solver, 7, skw, inputs)
            return arrays

        refusal = lambda e: _model_refusal(e, backend)  # noqa: E731
    else:
        # dask's svd_compressed never sketches below 20 columns: the degrade case needs min(shape) > 20 to be inexact at all
        n_, p_ = (40, 30) if (backend == "dask" and case["opt"] == "degrade") else (12, 6)
        X = D.make_matrix(n_, p_, case["spec"], 1.0, backend == "complex", seed, mean=False)

        def run(skw):
            r = _fit_linalg(target, X, backend, k, solver, 7, skw=skw)
            return {kk: r[kk] for kk in ("s", "V", "U") if r[kk] is not None}

        refusal = lambda e: _refusal(e, backend, False)  # noqa: E731

    try:
        base = run(None)
    except Exception as e:
        why = refusal(e)
        if why:
            return dict(outcome="refused:" + why, nontrivial=False)
        raise

    if case["opt"] == "degrade":
        skw = DEGRADE[backend]
        try:
            got = run(skw)
        except Exception as e:
            if target in ("PCA", "POP") and isinstance(e, TypeError) and "__init__" not in str(e):
                # these classes cannot choose the solver; here the auto policy took the exact route, whose solver (not an
                # xeofs constructor) rightly rejects an option of the randomised one
                return dict(outcome="skipped:exact_route", nontrivial=False)
            bad("kwargs_accepted", "solver_kwargs=%s -> %s: %s" % (skw, type(e).__name__, str(e)[:200]), exc=type(e).__name__, at=_where(e))
            return dict(violations=V_, outcome="violation", nontrivial=False)
        e, key = _arrays_close(base, got)
        felt = bool(e > 1e-6)
        if is_model and target == "SparsePCA":
            # SparsePCA advertises solver_kwargs but runs no SVD solver they could reach: recorded, not judged
            return dict(outcome="ok" if felt else "ok:option_ignored", nontrivial=True, info=dict(felt=felt))
        if not felt:
            bad("kwargs_reach_solver", "solver_kwargs=%s (no oversampling, no power iterations, near-flat spectrum) left every result unchanged to %.1e: the option never reached the solver" % (skw, e))
        return dict(violations=V_, outcome="violation" if V_ else "ok", nontrivial=not V_, info=dict(felt=felt))

    opts = _options(backend, "auto" if (is_model and target == "POP") else solver)
    opt = opts[case["opt"]]
    cands = _union(backend) if opt == "union" else [opt]
    accepted = []
    errors = []
    for skw in cands:
        try:
            got = run(skw)
            accepted.append((skw, got))
        except Exception as e:
            errors.append((skw, e))
    if not accepted:
        skw, e = errors[0]
        # report the failure raised inside xeofs' own plumbing first (constructor splat), else the first one
        for s2, e2 in errors:
            if "__init__" in str(e2):
                skw, e = s2, e2
                break
        bad("kwargs_accepted", "solver_kwargs=%s -> %s: %s" % (skw, type(e).__name__, str(e)[:200]), exc=type(e).__name__, at=_where(e))
        return dict(violations=V_, outcome="violation", nontrivial=False)
    for skw, got in accepted:
        e, key = _arrays_close(base, got)
        if not e <= 1e-6:
            bad("kwargs_changes_result", "solver_kwargs=%s changed %s by %.3e relative" % (skw, key, e))
    return dict(violations=V_, outcome="violation" if V_ else "ok", nontrivial=not V_, info=dict(accepted=[sorted(s) for s, _ in accepted]))


def _run_model_seed(case, seed):
    target, pkg, backend, solver, rs = case["target"], case["pkg"], case["backend"], case["solver"], case["rs"]
    var = _variants(pkg, target)[case["variant"]]
    X, inputs = _inputs(pkg, case["cplx"], seed, case["spec"])
    inner = bool(var.get("n_pca_modes")) if pkg == "single" else bool(var.get("use_pca"))
    res = []
    for rep in (0, 1):
        try:
            _, arrays, _ = _fit_model(pkg, target, var, case["n_modes"], solver, rs, None, inputs)
        except Exception as e:
            why = _model_refusal(e, backend)
            if why:
                return dict(outcome="refused:" + why, nontrivial=False)
            raise
        res.append(arrays)
    diff = [k for k in res[0] if not np.array_equal(res[0][k], res[1][k], equal_nan=True)]
    V_ = []
    if diff:
        mx = max(float(np.nanmax(np.abs(res[0][k] - res[1][k]))) for k in diff)
        V_.append(viol("seed_bit_identity", target, "two fits with random_state=%d differ in %s (max abs %.3e)" % (rs, diff[:5], mx), inner_pca=inner))
    return dict(violations=V_, outcome="violation" if V_ else "ok", nontrivial=not V_ and len(res[0]) > 0)


def _run_model_frac(case, seed):
    target, pkg = case["target"], case["pkg"]
    n, p = case["shape"]
    X, inputs = _inputs(pkg, False, seed, case["spec"])
    m = min(n, p)
    cum = _ref_cum(X, m)
    f = _frac_value(cum, case["frac"])
    if pkg == "single":
        var = dict(n_pca_modes=f, pca_init_rank_reduction=case["irr"])
    else:
        var = dict(use_pca=True, n_pca_modes=[f, "all"], pca_init_rank_reduction=[case["irr"], 1.0])
    V_ = []

    def bad(check, msg, **extra):
        V_.append(viol(check, target, msg, backend="numpy", solver="auto", **extra))

    mdl, arrays, warns = _fit_model(pkg, target, var, 1, "auto", 3, None, inputs)
    key = "pca.V" if pkg == "single" else "pca1.V"
    count = arrays[key].shape[-1]
    _check_threshold(bad, cum, f, case["irr"], m, count, warns, None)
    return dict(violations=V_, outcome="violation" if V_ else "ok", nontrivial=not V_ and count > 0, info=dict(count=int(count), warned=bool(warns)))


def _run_dask_lossy(case, seed):
    import xarray as xr

    n, p = case["shape"]
    target, k, rs, solver = case["target"], case["n_modes"], case["rs"], case["solver"]
    X = _lossy_matrix(n, p, seed)
    Ur, sr, Vhr = np.linalg.svd(X, full_matrices=False)
    Qr = Vhr[:k].T
    V_ = []

    def bad(check, msg, **extra):
        V_.append(viol(check, target, msg, backend="dask", lossy_sketch=True, **extra))

    def run(skw):
        if target == "EOF":
            import xeofs as xe

            da = xr.DataArray(X, dims=("time", "x"), coords={"time": np.arange(n), "x": np.arange(p)}).chunk({"time": (n + 2) // 3})
            m = xe.single.EOF(n_modes=k, solver=solver, random_state=rs, solver_kwargs=dict(skw))
            m.fit(da, dim="time")
            return dict(s=np.asarray(m.singular_values().values), V=np.asarray(m.components().transpose("x", "mode").values))
        r = _fit_linalg(target, X, "dask", k, solver, rs, skw=dict(skw))
        return dict(s=r["s"], V=r["V"])

    got = []
    for skw in LOSSY_OPTS:
        try:
            r = run(skw)
        except Exception as e:
            bad("kwargs_accepted", "solver_kwargs=%s -> %s: %s" % (skw, type(e).__name__, str(e)[:200]), exc=type(e).__name__, at=_where(e))
            return dict(violations=V_, outcome="violation", nontrivial=False)
        got.append(r)
        has_opt = bool(skw)
        if r["s"] is not None:
            e = float(np.max(np.abs(r["s"] - sr[:k]) / sr[:k])) if r["s"].shape == (k,) else np.inf
            if not e <= 1e-3:
                bad("exact_vs_randomized_values", "solver_kwargs=%s: leading singular values off by %.3e relative (%s vs %s)" % (skw, e, np.round(r["s"], 4), sr[:k]), with_options=has_opt)
        if r["V"].shape != (p, k):
            bad("shape", "V has shape %s" % (r["V"].shape,), with_options=has_opt)
            continue
        Q, _ = np.linalg.qr(r["V"])
        sine = float(np.linalg.norm(Q - Qr @ (Qr.T @ Q), 2))
        if not sine <= 1e-2:
            bad("exact_vs_randomized_subspace", "solver_kwargs=%s: sine of the largest angle to the exact leading subspace %.3e" % (skw, sine), with_options=has_opt)
    if len(got) >= 2 and got[0]["V"].shape == got[1]["V"].shape:
        d = float(np.abs(got[0]["V"] - got[1]["V"]).max())
        if got[0]["s"] is not None:
            d = max(d, float(np.abs(got[0]["s"] - got[1]["s"]).max() / sr[0]))
        if not d <= 1e-9:
            bad("kwargs_changes_result", "passing n_oversamples=10 (dask's own default) changed the result by %.3e" % d)
    return dict(violations=V_, outcome="violation" if V_ else "ok", nontrivial=not V_)


def run_case(case, seed):
    return {"dask_lossy": _run_dask_lossy, "threshold": _run_threshold, "solvers": _run_solvers, "kwargs": _run_kwargs, "model_seed": _run_model_seed, "model_frac": _run_model_frac}[case["kind"]](case, seed)


# ----------------------------------------------------------------------------- cross-case


def finalize(cases_, results, tier, seed):
    from collections import Counter

    auto = Counter()
    warned = Counter()
    felt = Counter()
    counts = set()
    for c, r in zip(cases_, results):
        info = r.get("info") or {}
        if c["kind"] == "solvers" and "auto_is" in info:
            auto[info["auto_is"]] += 1
        if c["kind"] in ("threshold", "model_frac") and "warned" in info:
            warned[str(info["warned"])] += 1
            counts.add(info["count"])
        if c["kind"] == "kwargs" and "felt" in info:
            felt[str(info["felt"])] += 1
    ties = sum((r.get("info") or {}).get("exact_ties", 0) for r in results)
    return [], dict(exact_sign_ties=int(ties), auto_selected=dict(auto), threshold_warned=dict(warned), threshold_counts_seen=sorted(counts), degrade_option_felt=dict(felt))


def vacuity(outcomes, results, tier):
    auto = set()
    warned = set()
    counts = set()
    felt = 0
    gaps = set()
    for r in results:
        info = r.get("info") or {}
        if "auto_is" in info:
            auto.add(info["auto_is"])
            gaps.add(info.get("gap"))
        if "warned" in info and r["outcome"] == "ok":
            warned.add(info["warned"])
            counts.add(info["count"])
        if info.get("felt"):
            felt += 1
    if not ({"full", "randomized"} <= auto):
        return "auto never selected both solvers (saw %s)" % sorted(auto)
    if True not in gaps:
        return "no case had a spectral gap after the last requested mode"
    if warned != {True, False}:
        return "threshold cases did not see both the reached and the unreachable (warning) outcome: %s" % sorted(warned)
    if len(counts) < 3:
        return "threshold cases kept only %s modes" % sorted(counts)
    if not any((r.get("info") or {}).get("exact_ties") for r in results):
        return "no mode with an exact sign tie max == -min was produced by the mirror-antisymmetric data class"
    if felt == 0:
        return "the accuracy-degrading solver option was never felt: the reach clause is vacuous"
    if not any(o.startswith("refused") for o in outcomes):
        return "no documented refusal was observed (dask + fraction must refuse)"
    return None
