"""C14 — A model's answers depend only on its last fit, never on call history. Explorer G (operation graph).

Breadth-first search over operation sequences applied to ONE live model object (plus an attached rotator /
bootstrapper).  A state is the history reaching it; it is rebuilt by replaying the history on fresh objects, identified
by a white-box fingerprint of the whole object graph (taken before any observation), and only histories that reach a
new fingerprint are extended.  In every state the invariant "all public answers equal those of a fresh model fitted once
on the data of the last fit; user inputs untouched" is evaluated on the real objects.
"""

from __future__ import annotations

import copy
import functools
import os
import warnings

import numpy as np
import xarray as xr

from .. import data as D
from .. import observe as O
from ..core import viol

ID = "C14"
LEVEL = "model_checking"
TECHNIQUE = "explicit-state BFS over API call histories on the real objects (replay-from-fresh, white-box state fingerprints), invariant checked in every state against a fresh-model reference"
RULE = (
    "states = distinct white-box fingerprints of (model[, rotator/bootstrapper]) reached by histories over "
    "{fit(D1|D2|D3), transform(fit data|new data), inverse_transform, components, scores, normalised accessors, metrics, compute, serialize, "
    "rot.fit(model), boot.fit(model)} up to the tier's depth; transitions = (state, operation) pairs executed; every "
    "executed history is validated against the reference model 'fresh object fitted once on the last-fit data'"
)
LEVEL_TEXT = (
    "exhaustive BFS of the operation graph to the stated depth for each of 14 subject classes; the invariant (answers = fresh "
    "model's answers, inputs unmodified, underlying model intact after rotator/bootstrapper fit) is evaluated in every state"
)
ASSUMPTIONS = [
    "depth bound: quick 3, thorough 4 (5 over the fit/transform sub-alphabet)",
    "fingerprint covers every attribute reachable from the model's __dict__; states with equal fingerprints have equal futures",
    "three data sets of two structures per subject stand for 'all data sets'",
]
TALLY_KEYS = ("subject",)
TRUSTED = ["statsmodels import shim (cross-set constructors)"]

TOL = 1e-9

# ----------------------------------------------------------------------------- data sets


def _da(seed, salt, n=8, t0=0, shift=0.0, fac=1.0, name="sst", spec="geometric"):
    M = D.make_matrix(n, 6, spec, 1.0, False, seed, salt=salt) * fac + shift
    da = D.da_grid(M, 3, 2, lats=[-50.0, 0.0, 60.0], name=name)
    da = da.assign_coords(time=np.arange(t0, t0 + n))
    da.attrs["units"] = "K"
    da["lat"].attrs["long_name"] = "latitude"
    return da


def _ds(seed, salt, n=7, t0=0):
    A = D.make_matrix(n, 3, "geometric", 1.0, False, seed, salt=salt)
    B = D.make_matrix(n, 2, "geometric", 1.0, False, seed, salt=salt + 50) * 3 + 1
    ds = xr.Dataset(
        {"a": (("time", "x"), A), "b": (("time", "y"), B)},
        coords={"time": np.arange(t0, t0 + n), "x": [10, 20, 30], "y": ["p", "q"]},
    )
    ds.attrs["title"] = "two fields"
    return ds


def _two(o, nrun=2):
    """(time = m * nrun, ...) -> (time = m, run = nrun, ...): the same numbers with two sample dimensions."""
    import pandas as pd

    m = o.sizes["time"] // nrun
    t0 = int(o.time.values[0])
    o = o.isel(time=slice(0, m * nrun))
    idx = pd.MultiIndex.from_product([np.arange(m) + t0, np.arange(nrun)], names=("t", "run"))
    o = o.drop_vars("time").assign_coords(xr.Coordinates.from_pandas_multiindex(idx, "time")).unstack("time")
    return o.rename({"t": "time"})


def _lst(seed, salt, k, n=8, t0=0, shift=0.0):
    """a list of k fields on the same grid with different means and amplitudes (k > 10: the per-item transformers are
    filed under the keys "0".."11", whose string order differs from their numeric order)."""
    return [_da(seed, salt + 7 * i, n=n, t0=t0, shift=shift + 10.0 * i, fac=1.0 + i, name="v%d" % i) for i in range(k)]


def _pair2s(seed, salt, n, t0=0, shift=0.0, group="A"):
    a = _two(_da(seed, salt, n=n, t0=t0, shift=shift, name="v0"))
    b = _two(_da(seed, salt + 7, n=n, t0=t0, shift=shift + 10.0, fac=2.0, name="v1"))
    if group == "A":
        return [a, b.isel(run=slice(None, None, -1))]  # the same labelled samples, stored in another element order
    return [a, b.assign_coords(run=np.asarray(b.run.values) + 1)]  # run is a FEATURE dim here: runs {0,1} and {1,2}


def datasets(seed, cross=False, two=False, lst=False):
    """name -> object. Groups: A = {D1, D2, DnewA} share a structure; B = {D3, DnewB}."""
    if lst == "2s":
        return {
            "D1": _pair2s(seed, 1, 16),
            "D2": _pair2s(seed, 2, 16, shift=5.0),
            "DnewA": _pair2s(seed, 3, 8, t0=100),
            "D3": _pair2s(seed, 4, 14, group="B"),
            "DnewB": _pair2s(seed, 5, 6, t0=200, group="B"),
        }
    if lst:
        return {
            "D1": _lst(seed, 1, 12),
            "D2": _lst(seed, 2, 12, shift=5.0),
            "DnewA": _lst(seed, 3, 12, n=4, t0=100),
            "D3": _lst(seed, 4, 2, n=7),
            "DnewB": _lst(seed, 5, 2, n=3, t0=200),
        }
    if two:
        d = datasets(seed, cross, False)
        out = {}
        for k, v in d.items():
            out[k] = _two(v) if not isinstance(v, xr.Dataset) else xr.Dataset({n: _two(v[n]) for n in v.data_vars}, attrs=v.attrs)
        return out
    d = {
        "D1": _da(seed, 1),
        "D2": _da(seed, 2, shift=5.0, fac=2.0, spec="near_equal_var"),  # nearly equal variances: rotation re-orders the modes
        "DnewA": _da(seed, 3, n=4, t0=100),
        "D3": _ds(seed, 4),
        "DnewB": _ds(seed, 5, n=3, t0=200),
    }
    if cross:
        d.update(
            {
                "E1": _yfield(seed, 11, 8),
                "E2": _yfield(seed, 12, 8, shift=-3.0),
                "EnewA": _yfield(seed, 13, 4, t0=100),
                "E3": _yfield(seed, 14, 7, name="precip2"),
                "EnewB": _yfield(seed, 15, 3, t0=200, name="precip2"),
            }
        )
    return d


def _yfield(seed, salt, n, t0=0, shift=0.0, name="precip"):
    M = D.make_matrix(n, 4, "geometric", 1.0, False, seed, salt=salt) + shift
    da = D.da_2d(M, "time", "station", scoord=np.arange(t0, t0 + n), fcoord=["s1", "s2", "s3", "s4"], name=name)
    da.attrs["units"] = "mm"
    return da


GROUP = {"D1": "A", "D2": "A", "D3": "B"}
NEW = {"A": "DnewA", "B": "DnewB"}
YOF = {"D1": "E1", "D2": "E2", "D3": "E3", "DnewA": "EnewA", "DnewB": "EnewB"}

# ----------------------------------------------------------------------------- subjects

SUBJECTS = ["EOF", "EOF2s", "EOFlist", "EOFlist2s", "SparsePCA", "POP", "OPA", "CPCCA", "MCA", "MCA2s", "multiCCA2s", "EOF+Rotator", "MCA+Rotator", "EOF+Bootstrapper"]
TWO = {"EOF2s", "MCA2s", "multiCCA2s"}
MULTI = {"multiCCA2s"}  # xeofs.multi.CCA on two views (no PCA step: it has no random_state); its API has no compute / serialize / inverse_transform  # subjects whose data sets have two sample dimensions (time, run)
LIST = {"EOFlist", "EOFlist2s"}
LIST2S = {"EOFlist2s"}  # two-item lists; group A: two sample dims (time, run), the items store the runs in different element order;
#                          group B: ONE sample dim (time) - 'run' is a feature dim there and the two items cover different runs  # subjects fitted on lists (12 items in group A, 2 items in group B)
CROSS = {"CPCCA", "MCA", "MCA2s", "MCA+Rotator"}


def new_system(subject):
    import xeofs as xe

    s = {}
    if subject in ("EOF", "EOF2s", "EOFlist", "EOFlist2s", "EOF+Rotator", "EOF+Bootstrapper"):
        s["model"] = xe.single.EOF(n_modes=3, random_state=3)
    elif subject == "SparsePCA":
        # a genuinely lossy sketch (k + oversample < rank): the result depends on the random draws, i.e. on the seed
        s["model"] = xe.single.SparsePCA(n_modes=2, alpha=1e-3, random_state=3, solver="randomized", oversample=0)
    elif subject == "POP":
        s["model"] = xe.single.POP(n_modes=2, n_pca_modes=3, random_state=3)
    elif subject == "OPA":
        s["model"] = xe.single.OPA(n_modes=2, tau_max=2, n_pca_modes=3, random_state=3)
    elif subject == "CPCCA":
        s["model"] = xe.cross.CPCCA(n_modes=2, alpha=0.5, use_pca=True, n_pca_modes=3, random_state=3)
    elif subject in ("MCA", "MCA2s", "MCA+Rotator"):
        s["model"] = xe.cross.MCA(n_modes=2, use_pca=True, n_pca_modes="all", random_state=3)
    elif subject in MULTI:
        s["model"] = xe.multi.CCA(n_modes=2, pca=False)
    if subject == "EOF+Rotator":
        s["rot"] = xe.single.EOFRotator(n_modes=3, power=1)
    if subject == "MCA+Rotator":
        s["rot"] = xe.cross.MCARotator(n_modes=2, power=1)
    if subject == "EOF+Bootstrapper":
        s["boot"] = xe.validation.EOFBootstrapper(n_bootstraps=2, seed=4)
    return s


def ops_of(subject, tier_alphabet="full"):
    ops = ["fit:D1", "fit:D2", "fit:D3", "transform:fit", "transform:new", "inverse_transform", "components", "scores", "accessors:normalized", "metrics", "compute", "serialize", "transform:newlist"]
    if subject in MULTI:
        ops = ["fit:D1", "fit:D2", "transform:fit", "transform:new", "components", "scores", "metrics"]
        return ops[:4] if tier_alphabet == "fit_transform" else ops
    if subject in LIST:
        # (de)serialising the per-item transformers of a 12-item list costs seconds: a reduced alphabet
        ops = ["fit:D1", "fit:D3", "transform:new", "inverse_transform", "compute", "serialize", "transform:newlist"]
        return ops[:3] if tier_alphabet == "fit_transform" else ops
    if tier_alphabet == "fit_transform":
        return ops[:5]
    if subject.endswith("+Rotator"):
        ops += ["rot.fit", "rot.queries"]
    if subject.endswith("+Bootstrapper"):
        ops += ["boot.fit"]
    return ops


def _call(f, *a, **k):
    try:
        return f(*a, **k)
    except Exception as e:  # an observation like any other (DESIGN 4.2); compared with the reference side
        return ("raised", type(e).__name__)


def _mode_subset(sc):
    return sc.sel(mode=[1])


def apply_op(subject, sys_, op, dsets, absstate):
    """Apply one operation to the live system. Returns the op's return value (ignored) and updates absstate."""
    m = sys_["model"]
    cross = subject in CROSS
    last = absstate.get("last")
    if op.startswith("fit:"):
        d = op[4:]
        dim = ("time", "run") if (subject in TWO or (subject in LIST2S and GROUP[d] == "A")) else "time"
        if subject in MULTI:
            m.fit([dsets[d], dsets[YOF[d]]], dim=dim)
        elif cross:
            m.fit(dsets[d], dsets[YOF[d]], dim=dim)
        else:
            m.fit(dsets[d], dim=dim)
        absstate["last"] = d
        return None
    if last is None:
        raise RuntimeError("operation on unfitted model is not in the alphabet")
    if op in ("transform:fit", "transform:new"):
        d = last if op.endswith("fit") else NEW[GROUP[last]]
        if subject in MULTI:
            return _call(m.transform, [dsets[d], dsets[YOF[d]]])
        if cross:
            return _call(m.transform, dsets[d], dsets[YOF[d]])
        return _call(m.transform, dsets[d])
    if op == "transform:newlist":
        # other data in another (accepted) container: a one-element list where the model was fitted on the bare object
        d = NEW[GROUP[last]]
        if cross:
            return _call(m.transform, [dsets[d]], [dsets[YOF[d]]])
        if subject in LIST:
            return _call(m.transform, tuple(dsets[d]))  # a tuple where the model was fitted on a list
        return _call(m.transform, [dsets[d]])
    if op == "inverse_transform":
        if cross:
            sx, sy = m.scores()
            return _call(m.inverse_transform, _mode_subset(sx), _mode_subset(sy))
        return _call(m.inverse_transform, _mode_subset(m.scores()))
    if op == "components":
        return _call(m.components)
    if op == "scores":
        return _call(m.scores)
    if op == "accessors:normalized":
        # the non-default normalisation switches of the accessors (must be pure queries, too)
        return [_call(m.scores, normalized=True), _call(m.components, normalized=False), _call(m.transform, dsets[last], *( [dsets[YOF[last]]] if cross else []), normalized=True)]
    if op == "metrics":
        return _metrics(subject, m)
    if op == "compute":
        return _call(m.compute)
    if op == "serialize":
        return _call(m.serialize)
    if op == "rot.fit":
        sys_["rot"].fit(m)
        absstate["rot"] = last
        return None
    if op == "rot.queries":
        if "rot" not in absstate:
            return None
        r = sys_["rot"]
        return [_call(r.components), _call(r.scores)]
    if op == "boot.fit":
        sys_["boot"].fit(m)
        absstate["boot"] = last
        return None
    raise ValueError(op)


def _metrics(subject, m):
    out = {}
    names = {
        "EOF": ["explained_variance", "explained_variance_ratio", "singular_values"],
        "EOF2s": ["explained_variance", "explained_variance_ratio", "singular_values"],
        "EOFlist": ["explained_variance", "explained_variance_ratio", "singular_values"],
        "EOFlist2s": ["explained_variance", "explained_variance_ratio", "singular_values"],
        "SparsePCA": ["explained_variance", "explained_variance_ratio"],
        "POP": ["eigenvalues", "periods", "damping_times"],
        "OPA": ["decorrelation_time", "filter_patterns"],
        "CPCCA": ["squared_covariance_fraction", "cross_correlation_coefficients"],
        "MCA": ["squared_covariance_fraction", "covariance_fraction_CD95"],
        "multiCCA2s": ["explained_variance", "explained_variance_ratio", "explained_covariance", "explained_covariance_ratio"],
        "MCA2s": ["squared_covariance_fraction", "cross_correlation_coefficients", "fraction_variance_Y_explained_by_X"],
    }[subject.split("+")[0]]
    for n in names:
        out[n] = _call(getattr(m, n))
    return out


def answers(subject, m, dsets, last):
    """Every public answer of the model, as a dict of xarray objects / exception markers."""
    cross = subject in CROSS
    a = {}
    a["components"] = _call(m.components)
    a["scores"] = _call(m.scores)
    a.update({"metric." + k: v for k, v in _metrics(subject, m).items()})
    dn = NEW[GROUP[last]]
    if subject in MULTI:
        a["transform.fit"] = _call(m.transform, [dsets[last], dsets[YOF[last]]])
        a["transform.new"] = _call(m.transform, [dsets[dn], dsets[YOF[dn]]])
        a["weights"] = _call(m.weights)
        return a
    if cross:
        a["transform.fit"] = _call(m.transform, dsets[last], dsets[YOF[last]])
        a["transform.new"] = _call(m.transform, dsets[dn], dsets[YOF[dn]])
        sc = a["scores"]
        if not O.is_raised(sc):
            a["inverse_transform"] = _call(m.inverse_transform, _mode_subset(sc[0]), _mode_subset(sc[1]))
        a["predict"] = _call(m.predict, dsets[dn])
    else:
        a["transform.fit"] = _call(m.transform, dsets[last])
        a["transform.new"] = _call(m.transform, dsets[dn])
        sc = a["scores"]
        if isinstance(sc, xr.DataArray):
            a["inverse_transform"] = _call(m.inverse_transform, _mode_subset(sc))
    # the model must remain serialisable and the rebuilt model must answer alike
    def rt():
        m2 = type(m).deserialize(m.serialize())
        return m2.components()

    a["roundtrip.components"] = _call(rt)
    a["params"] = {k: repr(v) for k, v in m.get_params().items()}
    return a


def aux_answers(obj):
    a = {"components": _call(obj.components), "scores": _call(obj.scores)}
    if hasattr(obj, "explained_variance"):
        a["explained_variance"] = _call(obj.explained_variance)
    return a


@functools.lru_cache(maxsize=None)
def reference(subject, last, seed, aux):
    """Answers of a fresh system fitted exactly once on `last` (then, optionally, aux fitted once)."""
    dsets = datasets(seed, subject in CROSS or subject in MULTI, subject in TWO, "2s" if subject in LIST2S else subject in LIST)
    s = new_system(subject)
    st = {}
    with warnings.catch_warnings():
        warnings.simplefilter("ignore")
        apply_op(subject, s, "fit:" + last, dsets, st)
        auxa = None
        if aux:
            apply_op(subject, s, aux + ".fit", dsets, st)
            auxa = aux_answers(s[aux])
        return answers(subject, s["model"], dsets, last), auxa


# ----------------------------------------------------------------------------- exploration


def depth_of(tier):
    return 3 if tier == "quick" else 4


def enabled(subject, history, op):
    fitted = any(h.startswith("fit:") for h in history)
    if op.startswith("fit:"):
        return True
    if not fitted:
        return False
    if op == "rot.queries":
        return "rot.fit" in history
    return True


def rounds(tier, seed):
    depth = depth_of(tier)
    subjects = [s for s in SUBJECTS if s in os.environ.get("XMC_C14_SUBJECTS", ",".join(SUBJECTS)).split(",")]  # debugging aid
    seen = {s: set() for s in subjects}
    frontier = [dict(subject=s, history=[op]) for s in subjects for op in ops_of(s) if enabled(s, [], op)]
    level = 1
    deep_ft = tier == "thorough"
    while frontier:
        res = yield frontier
        nxt = []
        for c, r in zip(frontier, res):
            fp = r.get("info", {}).get("fp")
            if fp is None or r.get("violations"):
                continue  # do not extend beyond a violating or failed state: shortest counterexample first
            merged = fp in seen[c["subject"]]
            seen[c["subject"]].add(fp)
            alphabet = "full" if level < depth else ("fit_transform" if (deep_ft and level < depth + 1) else None)
            if merged:
                # same visible state as one already expanded. Queries may still have left state OUTSIDE the objects the
                # fingerprint covers, so after a non-fit op one refit on OTHER data is explored from here all the same.
                last_op = c["history"][-1]
                if alphabet is None or last_op.startswith("fit:") or last_op.endswith(".fit"):
                    continue
                other = "fit:D2" if r["info"].get("last") != "D2" else "fit:D1"
                nxt.append(dict(subject=c["subject"], history=c["history"] + [other]))
                continue
            if alphabet is None:
                continue
            for op in ops_of(c["subject"], alphabet):
                if enabled(c["subject"], c["history"], op):
                    nxt.append(dict(subject=c["subject"], history=c["history"] + [op]))
        frontier = nxt
        level += 1
    _STATS["states"] = sum(len(v) for v in seen.values())


_STATS = {}


def run_case(case, seed):
    subject, history = case["subject"], case["history"]
    dsets = datasets(seed, subject in CROSS or subject in MULTI, subject in TWO, "2s" if subject in LIST2S else subject in LIST)
    pristine = datasets(seed, subject in CROSS or subject in MULTI, subject in TWO, "2s" if subject in LIST2S else subject in LIST)
    s = new_system(subject)
    st = {}
    V = []
    feats = dict(last_op=history[-1].split(":")[0], refit=sum(h.startswith("fit:") for h in history) > 1)
    with warnings.catch_warnings():
        warnings.simplefilter("ignore")
        for op in history:
            apply_op(subject, s, op, dsets, st)
        fp = O.fp_hash({k: v for k, v in s.items()})
        last = st["last"]
        # (ii) inputs untouched
        for k in dsets:
            for dmsg in O.deep_equal_input(pristine[k], dsets[k], "input " + k):
                V.append(viol("input_modified", subject, dmsg + " after " + ";".join(history), **feats))
        # (i) answers equal those of a fresh model fitted once on the last-fit data
        got = answers(subject, s["model"], dsets, last)
        ref, _ = reference(subject, last, seed, None)
        V += _diff(subject, ref, got, "answers", history, feats)
        # (iii) aux objects right after their own fit
        for aux in ("rot", "boot"):
            if history[-1] == aux + ".fit":
                _, auxref = reference(subject, last, seed, aux)
                got_aux = aux_answers(s[aux])
                if aux == "boot":
                    auxref, got_aux = _mask_degenerate_members(auxref), _mask_degenerate_members(got_aux, like=auxref)
                V += _diff(subject, auxref, got_aux, aux + "_answers", history, feats)
    return dict(violations=V, outcome="violation" if V else "ok", nontrivial=not V, states=0, transitions=1, traces=1, info=dict(fp=fp, last=last))


def _mask_degenerate_members(a, like=None):
    """A resample of few samples can be rank deficient; its null-space modes are arbitrary (and depend on the unseeded
    solver of the member fit). Keep explained variances, blank components/scores of modes without variance."""
    src = like if like is not None else a
    ev = src.get("explained_variance")
    if not isinstance(ev, xr.DataArray):
        return a
    keep = ev > 1e-9 * float(ev.max())
    out = dict(a)
    for k in ("components", "scores"):
        v = a.get(k)
        if isinstance(v, (xr.DataArray, xr.Dataset)):
            out[k] = v.where(keep, 0.0)
        elif isinstance(v, list):
            out[k] = [x.where(keep, 0.0) for x in v]
    return out


def _diff(subject, ref, got, check, history, feats):
    out = []
    for k in ref:
        ds = O.compare_any(ref[k], got.get(k), TOL, k)
        if ds:
            out.append(viol(check, subject, "history %s: %s" % (";".join(history), "; ".join(ds[:3])), answer=k.split(".")[0], **feats))
    # one violation per (check, answer) is enough
    return out


def finalize(cases, results, tier, seed):
    # states: distinct fingerprints per subject, recomputed from the results (the generator's own tally lives in the parent too)
    seen = set()
    for c, r in zip(cases, results):
        fp = r.get("info", {}).get("fp")
        if fp:
            seen.add((c["subject"], fp))
    depth = max(len(c["history"]) for c in cases)
    return [], dict(states=len(seen), depth_completed=depth, subjects=SUBJECTS, histories=len(cases))


def vacuity(outcomes, results, tier):
    lasts = {r.get("info", {}).get("last") for r in results}
    if len(lasts - {None}) < 2:
        return "BFS reached fewer than two data sets"
    return None
