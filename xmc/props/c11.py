"""C11 — Rotation re-expresses the retained subspace without changing what it represents. Explorer P.

Every case fits a base model (EOF family or CPCCA family) with the real xeofs code, rotates its leading k modes with the
matching rotator class and evaluates, on the rotator's outputs only,

  (a) recon_equals_unrotated   rotator.inverse_transform(rotator.scores()) == base.inverse_transform(base.scores()[1..k])
      recon_equals_reference   ... == mean + rank-k truncated numpy SVD of the anomalies (EOF / ComplexEOF only)
  (b) descending               reported explained variance (squared covariance) is non-increasing along `mode`
      variance_is_mode_amplitude  the reported value of mode m is the amplitude of *that* returned mode:
                               single: |score_m|^2 |component_m|^2 / (N-1); cross: |<score1_m, score2_m>/(N-1)|^2 (unit patterns)
  (c) sign_convention          real loadings: the entry of largest magnitude of every returned mode is positive (DESIGN 4.4)
  (d) power 1: rotation_unitary; scores_orthonormal (single) / scores_biorthonormal (cross, see ASSUMPTIONS);
      variance_sum_conserved (single; against the base model and against numpy eigenvalues)
  (e) power 1, real loadings: varimax_criterion (Kaiser-normalised) of the rotated loadings >= that of the loadings that went in.

Results of a rotator built with compute=False are judged after rotator.compute().

Amplitude coordinate: the relations above are scale-covariant, so the field is also presented multiplied by a global factor
(1e-4, 1e-6, 1e-8; thorough also 1e+6) for every rotator class and power; all tolerances are relative to the field's own scale
(largest singular value / explained variance / squared covariance of the scaled input).

Missing-data coordinate: the same matrices presented with 1 / 3 fully missing samples and 2 missing samples + a fully missing
feature column (cross-set: missing in both fields) for every rotator class and power; N in every relation is the number of VALID
samples, outputs are compared on the valid labels and must be NaN on the re-inserted ones.
"""

from __future__ import annotations

import warnings

import numpy as np

from .. import data as D
from ..core import viol

ID = "C11"
LEVEL = "exploration"
TECHNIQUE = (
    "bounded exhaustive enumeration (base model class x whitening/PCA configuration x spectrum x rotated n_modes x power x compute) "
    "of real rotator fits, judged by algebraic relations to the unrotated fit and to a numpy SVD reference"
)
RULE = (
    "full product of base model (EOF, ComplexEOF on complex and on real data, HilbertEOF padding exp/None; CPCCA alpha-grid x use_pca/n_pca_modes, "
    "MCA, ComplexCPCCA, ComplexMCA, HilbertCPCCA, HilbertMCA) x spectrum {geometric, near_equal_var} x shape x rotated n_modes in 2..n_modes(base) "
    "x power in 1..4 x compute in {True, False-then-compute()} x field amplitude {1; and 1e-4, 1e-6, 1e-8 (thorough also 1e+6) for every rotator class "
    "x power at the largest n_modes with compute=True: quick on the geometric class and the first configuration of each class, thorough on both "
    "spectra and every configuration but the off-diagonal alpha grid} x missing-data pattern {none; and, on the same selection at amplitude 1: "
    "1 or 3 fully missing samples, 2 missing samples + a fully missing feature column (cross-set: 3, and 2+feature, missing in both fields)} (HilbertEOF without padding: n_modes(base) <= floor(n/2), the rank of the analytic "
    "signal); the quick tier takes compute=False only with power in {1,3}, one shape and a stated subset of configurations; the thorough tier runs the "
    "second data pair for everything but the off-diagonal part of the CPCCA alpha grid. A case is non-trivial when both fits returned and the reconstruction, ordering, amplitude, and (power 1) unitarity / "
    "orthonormality relations were all evaluated on non-empty arrays"
)
ASSUMPTIONS = [
    "the numeric catalogue (geometric and near-equal spectra, orthogonal factors drawn from VERIF_SEED) stands for 'all loadings'; cross-set pairs "
    "share left singular vectors with prescribed canonical angles so that the cross-covariance spectrum is geometric resp. nearly equal",
    "numpy.linalg.svd is correct",
    "cross-set models: 'rotated normalised scores stay orthonormal' is read as what the unrotated cross-set solution has and a unitary rotation keeps: "
    "scores1(normalized)^H scores2(normalized)/(N-1) = I (paired scores of different modes uncorrelated); the X-scores of an unrotated MCA/CPCCA are not "
    "mutually orthogonal to begin with",
    "sign convention is judged on real loadings only (for complex loadings xeofs' rule compares numpy's lexicographic max/min and has no statement in the property)",
    "Varimax criterion monotonicity is judged on real loadings only, with the Kaiser-normalised criterion",
    "squared covariance of a rotated cross-set mode is read from rotator.data['squared_covariance'] (no public accessor exists)",
    "RuntimeError 'Rotation process did not converge' (default max_iter/rtol) is a documented refusal on the near_equal_var class and for complex loadings (DESIGN 3.4); "
    "for real loadings on the geometric class it is reported as check='raised'",
    "modes of zero variance / zero covariance are not rotated (outside the quantifier): n_modes(base) never exceeds the numerical rank",
    "a base model that itself loses rank when the field is rescaled (outcome skipped:base_lost_rank_at_amplitude) is the base model's matter, not judged here",
]
TALLY_KEYS = ("family", "model", "spec", "power", "compute", "k", "scale", "gaps")
TRUSTED = ["statsmodels import shim (cross-set constructors)"]
MAX_REFUSED_FRACTION = 0.10

TOL = 1e-9

SINGLE_ROT = {"EOF": "EOFRotator", "ComplexEOF": "ComplexEOFRotator", "HilbertEOF": "HilbertEOFRotator"}
CROSS_ROT = {
    "CPCCA": "CPCCARotator",
    "MCA": "MCARotator",
    "ComplexCPCCA": "ComplexCPCCARotator",
    "ComplexMCA": "ComplexMCARotator",
    "HilbertCPCCA": "HilbertCPCCARotator",
    "HilbertMCA": "HilbertMCARotator",
}
GRID = {4: (2, 2), 6: (3, 2), 3: (3, 1)}
LATS = {2: [-30.0, 50.0], 3: [-60.0, 10.0, 75.0]}
SPECS = ("geometric", "near_equal_var")


# ----------------------------------------------------------------------------- alphabet


def _single_configs(tier):
    out = [
        dict(model="EOF", cplx=False, padding=None),
        dict(model="ComplexEOF", cplx=True, padding=None),
        dict(model="HilbertEOF", cplx=False, padding="exp"),
    ]
    if tier == "thorough":
        out += [dict(model="ComplexEOF", cplx=False, padding=None), dict(model="HilbertEOF", cplx=False, padding=None)]
    return out


def _cross_configs(tier):
    def c(model, alpha=None, use_pca=False, n_pca=None, cplx=False):
        return dict(model=model, alpha=alpha, use_pca=use_pca, n_pca=n_pca, cplx=cplx)

    if tier == "quick":
        return [
            c("CPCCA", [0.5, 0.5]),
            c("CPCCA", [0.0, 1.0], True, 3),
            c("CPCCA", [0.0, 0.0], True, "all"),
            c("MCA"),
            c("MCA", None, True, 3),
            c("ComplexCPCCA", [0.5, 0.5], cplx=True),
            c("ComplexMCA", cplx=True),
            c("HilbertMCA"),
        ]
    out = []
    grid = [0.0, 0.25, 0.5, 1.0]
    for a1 in grid:
        for a2 in grid:
            for (up, npca) in ((False, None), (True, 3), (True, "all")):
                out.append(c("CPCCA", [a1, a2], up, npca))
    for (up, npca) in ((False, None), (True, 3), (True, "all")):
        out.append(c("MCA", None, up, npca))
    for alpha in ([0.0, 0.0], [0.5, 0.5], [0.0, 1.0]):
        for (up, npca) in ((False, None), (True, 3)):
            out.append(c("ComplexCPCCA", alpha, up, npca, cplx=True))
    for (up, npca) in ((False, None), (True, "all")):
        out.append(c("ComplexMCA", None, up, npca, cplx=True))
    out.append(c("HilbertCPCCA", [0.5, 0.5]))
    out.append(c("HilbertCPCCA", [0.0, 1.0], True, 3))
    out.append(c("HilbertMCA"))
    return out


def cases(tier, seed):
    out = []
    powers = [1, 2, 3, 4]
    # ---- single-set family
    shapes = [(12, 6)] if tier == "quick" else [(12, 6), (9, 6), (6, 4)]
    for cfg in _single_configs(tier):
        for (n, p) in shapes:
            kbase = min(4 if tier == "quick" else 5, min(n - 1, p))
            if cfg["model"] == "HilbertEOF" and cfg["padding"] is None:
                # the centred analytic signal of n samples (no padding) only has the floor(n/2) positive frequencies: modes
                # beyond that carry zero variance, and rotating a zero-variance mode is outside the property's quantifier
                kbase = min(kbase, n // 2)
            for spec in SPECS:
                for k in range(2, kbase + 1):
                    for power in powers:
                        for compute in (True, False):
                            if tier == "quick" and not compute and power not in (1, 3):
                                continue
                            out.append(dict(family="single", shape=[n, p], py=0, kbase=kbase, spec=spec, k=k, power=power, compute=compute, alpha=None, use_pca=False, n_pca=None, reuse=False, **cfg))
                            if compute and (tier == "thorough" or power in (1, 2)):
                                # non-initial state: the same rotator object has been fitted before
                                out.append(dict(family="single", shape=[n, p], py=0, kbase=kbase, spec=spec, k=k, power=power, compute=compute, alpha=None, use_pca=False, n_pca=None, reuse=True, **cfg))
    # ---- cross-set family
    for cfg in _cross_configs(tier):
        pairs = [(12, 6, 4)]
        if tier == "thorough" and (cfg["model"] != "CPCCA" or cfg["alpha"][0] == cfg["alpha"][1]):
            pairs.append((10, 4, 3))  # second pair: everything but the off-diagonal part of the CPCCA alpha grid
        for (n, px, py) in pairs:
            rank = min(px, py)
            if cfg["n_pca"] == 3:
                rank = min(rank, 3)
            kbase = min(3, rank) if tier == "quick" else rank
            for spec in SPECS:
                for k in range(2, kbase + 1):
                    for power in powers:
                        for compute in (True, False):
                            if tier == "quick" and not compute and power not in (1, 3):
                                continue
                            out.append(dict(family="cross", shape=[n, px], py=py, kbase=kbase, spec=spec, k=k, power=power, compute=compute, padding=None, reuse=False, **cfg))
                            if compute and power == 1 and (tier == "thorough" or k == kbase):
                                out.append(dict(family="cross", shape=[n, px], py=py, kbase=kbase, spec=spec, k=k, power=power, compute=compute, padding=None, reuse=True, **cfg))
    for c in out:
        c["scale"] = 1.0
    # ---- amplitude coordinate: the property's relations are scale-covariant, so the whole field (mean included) is multiplied by
    # a global factor; every rotator class x every power, largest k, compute=True (quick: geometric class, first configuration of
    # each base class, small amplitudes; thorough: both spectra, every configuration but the off-diagonal alpha grid, and 1e+6)
    scales = [1e-4, 1e-6, 1e-8] if tier == "quick" else [1e-4, 1e-6, 1e-8, 1e6]
    specs = ["geometric"] if tier == "quick" else list(SPECS)
    seen_cls = set()
    amp = []
    for c in list(out):
        if c["scale"] != 1.0 or not c["compute"] or c["reuse"] or c["k"] != c["kbase"] or c["spec"] not in specs:
            continue
        if c["family"] == "cross" and c["shape"] != [12, 6]:
            continue
        if tier == "quick":
            key = (c["model"], c["cplx"], c["power"])
            if key in seen_cls:
                continue
            seen_cls.add(key)
        elif c["model"] == "CPCCA" and c["alpha"][0] != c["alpha"][1]:
            continue
        for sc in scales:
            amp.append(dict(c, scale=sc))
    out += amp
    for c in out:
        c["gaps"] = "none"
    # ---- missing-data coordinate: the same catalogue matrix presented with fully missing samples (all-NaN time steps, which the
    # preprocessor drops before the fit and re-inserts in every public accessor) and a fully missing feature column; the number of
    # VALID samples is unchanged. Every rotator class x every power, largest k, compute=True, amplitude 1 (cross-set: the samples are
    # missing in both fields). Same class selection as the amplitude coordinate.
    gaps_single = ["s1", "s3", "s2f1"]
    gaps_cross = ["s3", "s2f1"]
    seen_cls = set()
    gp = []
    for c in list(out):
        if c["scale"] != 1.0 or not c["compute"] or c["reuse"] or c["k"] != c["kbase"] or c["spec"] not in specs:
            continue
        if c["family"] == "cross" and c["shape"] != [12, 6]:
            continue
        if tier == "quick":
            key = (c["model"], c["cplx"], c["power"])
            if key in seen_cls:
                continue
            seen_cls.add(key)
        elif c["model"] == "CPCCA" and c["alpha"][0] != c["alpha"][1]:
            continue
        for g in gaps_single if c["family"] == "single" else gaps_cross:
            gp.append(dict(c, gaps=g))
    out += gp
    out.sort(key=lambda c: (c["gaps"] != "none", c["scale"] != 1.0, c["family"] != "single", c["k"], c["power"], not c["compute"]))
    return out


# ----------------------------------------------------------------------------- inputs


def _grid_da(M):
    n, p = M.shape
    nlat, nlon = GRID[p]
    return D.da_grid(M, nlat, nlon, lats=LATS[nlat])


GAPS = {"none": (0, 0), "s1": (1, 0), "s3": (3, 0), "s2f1": (2, 1)}  # (fully missing samples, fully missing lon columns)


def _present(M, gaps):
    """DataArray presenting the n x p matrix M with `gaps`, and the labels of its valid cells. Missing samples are EXTRA all-NaN
    time steps (first / inner / last positions), a missing feature is an EXTRA all-NaN lon column: the valid block is M itself."""
    import xarray as xr

    da = _grid_da(M)
    ks, kf = GAPS[gaps]
    valid = {"time": da.time.values, "lat": da.lat.values, "lon": da.lon.values}
    if ks == 0 and kf == 0:
        return da, valid
    n = M.shape[0]
    T = n + ks
    miss = {1: [2], 2: [3, T - 1], 3: [0, 5, T - 1]}[ks]
    tvalid = np.array([t for t in range(T) if t not in miss])
    lons = list(da.lon.values) + [float(da.lon.values[-1]) + 30.0 * (j + 1) for j in range(kf)]
    full = np.full((T, da.sizes["lat"], len(lons)), np.nan, dtype=da.dtype)
    full[np.ix_(tvalid, np.arange(da.sizes["lat"]), np.arange(da.sizes["lon"]))] = da.values
    out = xr.DataArray(full, dims=("time", "lat", "lon"), coords={"time": np.arange(T), "lat": da.lat.values, "lon": np.array(lons)}, name="data")
    valid = {"time": tvalid, "lat": da.lat.values, "lon": da.lon.values}
    return out, valid


def _matrix_fn(case):
    """Label-keyed flattening. With gaps the public outputs also carry the re-inserted missing labels; those cells must be NaN
    (they represent nothing) and are dropped before the comparison on the valid labels."""
    if case.get("gaps", "none") == "none":
        return D.to_matrix

    def tm(obj, rows, cols, ref):
        sub = {d: np.asarray(ref[d]) for d in obj.dims if d in ref and d != "mode"}
        for d, lab in sub.items():
            extra = [x for x in obj.coords[d].values.tolist() if x not in set(lab.tolist())]
            if extra and not bool(np.isnan(np.asarray(obj.sel({d: extra}).values, dtype=complex)).all()):
                raise D.LabelError("finite values at missing %s labels %s" % (d, extra))
        return D.to_matrix(obj.sel(sub), rows, cols, ref)

    return tm


def _cross_pair(n, px, py, spec, cplx, seed):
    """X from the catalogue; Y = (U_x[:, :py] c + W sqrt(1-c^2)) diag(s_y) V_y^H + mean with W ⟂ [1, U_x]: the cross-covariance
    X_c^H Y_c/(N-1) has singular values s_x,i c_i s_y,i/(N-1) (geometric resp. nearly equal), canonical correlations c_i.
    With n_pca_modes=3 the three leading principal components of X and Y pair up, so the cross-covariance keeps full rank 3
    (a retained mode of zero covariance is outside the property's quantifier)."""
    X = D.make_matrix(n, px, spec, 1.0, cplx, seed)
    Xc = X - X.mean(axis=0, keepdims=True)
    U, s, _ = np.linalg.svd(Xc, full_matrices=False)
    r = min(n - 1, px)
    U = U[:, :r]
    assert py <= r and n - 1 - r >= py
    rng = np.random.default_rng([int(seed), 1111, n, px, py, D.SPECTRA.index(spec), int(cplx)])
    A = rng.standard_normal((n, py))
    B = rng.standard_normal((py, py))
    mu = rng.standard_normal(py) * 3.0
    if cplx:
        A = A + 1j * rng.standard_normal((n, py))
        B = B + 1j * rng.standard_normal((py, py))
        mu = mu + 1j * rng.standard_normal(py)
    basis = np.concatenate([np.ones((n, 1)) / np.sqrt(n), U], axis=1)
    for _ in range(2):
        A = A - basis @ (basis.conj().T @ A)
    W, _ = np.linalg.qr(A)
    Vy, _ = np.linalg.qr(B)
    i = np.arange(py, dtype=float)
    c = (0.9 - 0.1 * i) if spec == "geometric" else (0.8 - 0.02 * i)
    Uy = U[:, :py] * c + W * np.sqrt(1 - c**2)
    sy = D.spectrum(spec, py)
    Y = (Uy * sy) @ Vy.conj().T + mu[None, :]
    return X, Y


def _ref_of(da, k):
    return {"time": da.time.values, "lat": da.lat.values, "lon": da.lon.values, "mode": np.arange(1, k + 1)}


# ----------------------------------------------------------------------------- oracle helpers


def _varimax_criterion(L):
    """Kaiser-normalised raw Varimax criterion of a real p x k loading matrix."""
    L = np.asarray(L, dtype=float)
    h = np.sqrt((L**2).sum(axis=1))
    keep = h > 1e-12 * max(h.max(), 1e-300)
    B2 = (L[keep] / h[keep, None]) ** 2
    return float(np.sum(np.mean(B2**2, axis=0) - np.mean(B2, axis=0) ** 2))


def _sign_bad(C):
    """modes of a real loading matrix whose largest-magnitude entry is negative (clear cases only)."""
    bad = []
    for m in range(C.shape[1]):
        a = np.abs(C[:, m])
        j = int(np.argmax(a))
        rest = np.delete(a, j)
        if rest.size and (a[j] - rest.max()) <= 1e-6 * a[j]:
            # a tie in magnitude between entries of opposite sign leaves the sign open
            jj = int(np.argmax(rest))
            jj = jj if jj < j else jj + 1
            if np.sign(C[j, m]) != np.sign(C[jj, m]):
                continue
        if not C[j, m] > 0:
            bad.append(m + 1)
    return bad


def _null_mode(case):
    """The base fit handed over a mode of (relatively) zero variance: nothing for C11 to judge. At amplitude 1 the alphabet is built
    so that this cannot happen (vacuity guard). At other amplitudes it means the BASE model is not scale-covariant (seen: the
    fractional whitener drops covariance eigenvalues below an absolute 2.2e-16, so CPCCA with alpha<1 loses rank at amplitude 1e-8);
    that belongs to the base model's own properties, is tallied here under its own outcome and never counts as a result."""
    if float(case.get("scale", 1.0)) != 1.0:
        return dict(outcome="skipped:base_lost_rank_at_amplitude", nontrivial=False, info=dict(amplitude="%g" % case["scale"]))
    return dict(outcome="skipped:zero_variance_mode", nontrivial=False)


def _non_convergence(e):
    return isinstance(e, RuntimeError) and "did not converge" in str(e)


def _not_converged(case, rname, e, complex_loadings):
    """DESIGN 3.4: 'Rotation process did not converge' is a documented refusal on the near_equal_var class only; anywhere else
    it is an exception on an input the quantifier covers. Same shape as the runner's check='raised', with a narrower signature."""
    # The iteration's explicit refusal is not a wrong answer. It is tolerated where slow convergence is inherent:
    # nearly equal variances (DESIGN 3.4) and complex loadings (SVD-polar Varimax converges linearly at a rate close
    # to one there; the user-settable max_iter/rtol decide). Real, well separated loadings must converge.
    if case["spec"] == "near_equal_var" or complex_loadings:
        return dict(outcome="refused:RuntimeError", nontrivial=False)
    v = viol(
        "raised",
        rname,
        "RuntimeError: %s (max_iter default, rtol default; base %s shape %s k=%d power=%d)" % (e, case["model"], case["shape"], case["k"], case["power"]),
        exc="RuntimeError",
        at="_rotation.py:_varimax",
        complex_loadings=bool(complex_loadings),
        shape="%dx%d" % tuple(case["shape"]),
        spec=case["spec"],
    )
    return dict(violations=[v], outcome="raised:RuntimeError", nontrivial=False)


# ----------------------------------------------------------------------------- one case


def run_case(case, seed):
    with warnings.catch_warnings():
        warnings.simplefilter("ignore")
        if case["family"] == "single":
            return _run_single(case, seed)
        return _run_cross(case, seed)


def _finish(V, info, sizes_ok):
    return dict(violations=V, outcome="violation" if V else "ok", nontrivial=(not V) and sizes_ok, info=info)


def _run_single(case, seed):
    import xeofs as xe

    n, p = case["shape"]
    k, power = case["k"], case["power"]
    X = D.make_matrix(n, p, case["spec"], float(case.get("scale", 1.0)), case["cplx"], seed)
    da, valid = _present(X, case.get("gaps", "none"))
    TM = _matrix_fn(case)
    kw = dict(n_modes=case["kbase"], solver="full", random_state=5)
    if case["model"] == "HilbertEOF":
        kw["padding"] = case["padding"]
    base = getattr(xe.single, case["model"])(**kw)
    base.fit(da, dim="time")
    ev_in = np.asarray(base.explained_variance().values, dtype=float)
    if not ev_in[k - 1] > 1e-10 * ev_in[0]:
        return _null_mode(case)
    rname = SINGLE_ROT[case["model"]]
    rot = getattr(xe.single, rname)(n_modes=k, power=power, compute=case["compute"])
    try:
        if case.get("reuse"):
            rot.fit(base)  # a first fit of the same rotator object; the judged fit below must not depend on it
        rot.fit(base)
        if not case["compute"]:
            rot.compute()
    except RuntimeError as e:
        if _non_convergence(e):
            return _not_converged(case, rname, e, np.iscomplexobj(base.data["components"].values))
        raise

    feats = dict(power1=(power == 1), compute=case["compute"], reused_rotator=bool(case.get("reuse")), amplitude="%g" % case.get("scale", 1.0), gaps=case.get("gaps", "none"))
    V = []

    def bad(check, msg, **extra):
        V.append(viol(check, rname, msg, **feats, **extra))

    ref = dict(valid, mode=np.arange(1, k + 1))
    modes = ref["mode"]
    S = TM(rot.scores(), ["time"], ["mode"], ref)
    Sn = TM(rot.scores(normalized=True), ["time"], ["mode"], ref)
    C = TM(rot.components(), ["lat", "lon"], ["mode"], ref)
    Cl = TM(rot.components(normalized=False), ["lat", "lon"], ["mode"], ref)
    ev = np.asarray(rot.explained_variance().sel(mode=modes).values, dtype=float)
    Rm = np.asarray(rot.data["rotation_matrix"].transpose("mode_m", "mode_n").values)
    ev0 = np.asarray(base.explained_variance().sel(mode=modes).values, dtype=float)
    scale_ev = max(ev0.max(), 1e-300)

    # (a) reconstruction
    ref_xy = {d: ref[d] for d in ("time", "lat", "lon")}
    rec = TM(rot.inverse_transform(rot.scores()), ["time"], ["lat", "lon"], ref_xy)
    rec0 = TM(base.inverse_transform(base.scores().sel(mode=modes)), ["time"], ["lat", "lon"], ref_xy)
    Xc = X - X.mean(axis=0, keepdims=True)
    sref = np.linalg.svd(Xc, compute_uv=False)
    scale = max(sref[0], 1e-300)
    e = D.relerr(rec, rec0, scale=scale)
    if not e <= TOL:
        bad("recon_equals_unrotated", "|rec(rotated k=%d) - rec(unrotated leading %d)|/s1 = %.3e" % (k, k, e))
    if case["model"] in ("EOF", "ComplexEOF"):
        U, s, Vh = np.linalg.svd(Xc, full_matrices=False)
        recref = X.mean(axis=0, keepdims=True) + (U[:, :k] * s[:k]) @ Vh[:k]
        e = D.relerr(rec, recref, scale=scale)
        if not e <= TOL:
            bad("recon_equals_reference", "|rec(rotated) - (mean + truncated SVD_%d)|/s1 = %.3e" % (k, e))

    # (b) order and what is ordered
    if np.any(np.diff(ev) > TOL * scale_ev) or not np.all(np.isfinite(ev)):
        bad("descending", "explained variance of rotated modes not descending: %s" % ev)
    amp = (np.abs(S) ** 2).sum(axis=0) * (np.abs(C) ** 2).sum(axis=0) / (n - 1)
    e = np.abs(ev - amp).max() / scale_ev
    if not e <= TOL:
        bad("variance_is_mode_amplitude", "reported %s vs |score_m|^2|comp_m|^2/(N-1) = %s" % (ev, amp))
    if np.any(np.diff(amp) > 1e-7 * scale_ev):
        bad("modes_descending", "returned modes are not in descending order of their variance: %s" % amp)

    # (c) sign
    real_loadings = not np.iscomplexobj(C)
    if real_loadings:
        b = _sign_bad(C)
        if b:
            bad("sign_convention", "largest-magnitude loading is negative for mode(s) %s" % b)

    # (d) power 1
    if power == 1:
        e = np.abs(Rm.conj().T @ Rm - np.eye(k)).max() if Rm.shape == (k, k) else np.inf
        if not e <= TOL:
            bad("rotation_unitary", "|R^H R - I| = %.3e (shape %s)" % (e, Rm.shape))
        e = np.abs(Sn.conj().T @ Sn - np.eye(k)).max()
        if not e <= TOL:
            bad("scores_orthonormal", "|Sn^H Sn - I| = %.3e" % e)
        e = abs(ev.sum() - ev0.sum()) / scale_ev
        lam = sref[:k] ** 2 / (n - 1)
        e2 = abs(ev.sum() - lam.sum()) / scale_ev if case["model"] in ("EOF", "ComplexEOF") else 0.0
        if not max(e, e2) <= TOL:
            bad("variance_sum_conserved", "sum rotated %.12g vs sum unrotated %.12g (numpy %.12g)" % (ev.sum(), ev0.sum(), lam.sum()))
        # (e)
        if real_loadings:
            C0 = TM(base.components().sel(mode=modes), ["lat", "lon"], ["mode"], ref)
            L0 = C0 * np.sqrt(ev0)[None, :]
            c1, c0 = _varimax_criterion(Cl), _varimax_criterion(L0)
            if not c1 >= c0 - TOL * max(1.0, abs(c0)):
                bad("varimax_criterion", "criterion after %.12g < before %.12g" % (c1, c0))

    perm = np.asarray(rot.data["idx_modes_sorted"].values).tolist()
    info = dict(k=k, family="single", power1=(power == 1), compute=case["compute"], perm_nonidentity=perm != list(range(k)), real_loadings=bool(real_loadings), amplitude="%g" % case.get("scale", 1.0), gaps=case.get("gaps", "none"))
    return _finish(V, info, S.size > 0 and C.size > 0 and rec.size > 0)


def _run_cross(case, seed):
    import xeofs as xe

    n, px = case["shape"]
    py = case["py"]
    k, power = case["k"], case["power"]
    X, Y = _cross_pair(n, px, py, case["spec"], case["cplx"], seed)
    X, Y = X * float(case.get("scale", 1.0)), Y * float(case.get("scale", 1.0))
    (da, validx), (db, validy) = _present(X, case.get("gaps", "none")), _present(Y, case.get("gaps", "none"))
    TM = _matrix_fn(case)
    kw = dict(n_modes=case["kbase"], solver="full", random_state=5, use_pca=case["use_pca"])
    if case["use_pca"]:
        kw["n_pca_modes"] = case["n_pca"]
    if case["alpha"] is not None:
        kw["alpha"] = list(case["alpha"])
    base = getattr(xe.cross, case["model"])(**kw)
    base.fit(da, db, dim="time")
    sv_in = np.asarray(base.data["singular_values"].values, dtype=float)
    if not sv_in[k - 1] > 1e-10 * sv_in[0]:
        return _null_mode(case)
    rname = CROSS_ROT[case["model"]]
    rot = getattr(xe.cross, rname)(n_modes=k, power=power, compute=case["compute"])
    try:
        if case.get("reuse"):
            rot.fit(base)  # a first fit of the same rotator object; the judged fit below must not depend on it
        rot.fit(base)
        if not case["compute"]:
            rot.compute()
    except RuntimeError as e:
        if _non_convergence(e):
            return _not_converged(case, rname, e, np.iscomplexobj(base.data["components1"].values))
        raise

    a = case["alpha"] if case["alpha"] is not None else [1.0, 1.0]
    feats = dict(power1=(power == 1), compute=case["compute"], alpha_lt_1=bool(min(a) < 1.0), use_pca=bool(case["use_pca"]), reused_rotator=bool(case.get("reuse")), amplitude="%g" % case.get("scale", 1.0), gaps=case.get("gaps", "none"))
    V = []

    def bad(check, msg, **extra):
        V.append(viol(check, rname, msg, **feats, **extra))

    rx, ry = dict(validx, mode=np.arange(1, k + 1)), dict(validy, mode=np.arange(1, k + 1))
    modes = rx["mode"]
    s1, s2 = rot.scores()
    S1 = TM(s1, ["time"], ["mode"], rx)
    S2 = TM(s2, ["time"], ["mode"], ry)
    n1, n2 = rot.scores(normalized=True)
    N1 = TM(n1, ["time"], ["mode"], rx)
    N2 = TM(n2, ["time"], ["mode"], ry)
    l1, l2 = rot.components(normalized=False)
    L1 = TM(l1, ["lat", "lon"], ["mode"], rx)
    L2 = TM(l2, ["lat", "lon"], ["mode"], ry)
    sq = np.asarray(rot.data["squared_covariance"].sel(mode=modes).values, dtype=float)
    Rm = np.asarray(rot.data["rotation_matrix"].transpose("mode_m", "mode_n").values)
    # pattern norms in the (whitened) space the scores pair with: unit by the model's convention; used so that the
    # amplitude below does not depend on how a mode's size is split between pattern and score
    q1 = np.asarray(rot.data["components1"].sel(mode=modes).transpose(..., "mode").values)
    q2 = np.asarray(rot.data["components2"].sel(mode=modes).transpose(..., "mode").values)
    qn = np.sqrt((np.abs(q1) ** 2).sum(axis=0) * (np.abs(q2) ** 2).sum(axis=0))

    b1, b2 = base.scores()
    B1 = TM(b1.sel(mode=modes), ["time"], ["mode"], rx)
    B2 = TM(b2.sel(mode=modes), ["time"], ["mode"], ry)
    sig = np.abs(np.sum(B1.conj() * B2, axis=0)) / (n - 1)  # covariance carried by the unrotated modes
    scale_sq = max((sig**2).max(), 1e-300)

    # (a) reconstruction, both fields
    rxy = {d: rx[d] for d in ("time", "lat", "lon")}
    ryy = {d: ry[d] for d in ("time", "lat", "lon")}
    recX, recY = rot.inverse_transform(X=s1, Y=s2)
    recX0, recY0 = base.inverse_transform(X=b1.sel(mode=modes), Y=b2.sel(mode=modes))
    for nm, r_, r0_, rr, M in (("X", recX, recX0, rxy, X), ("Y", recY, recY0, ryy, Y)):
        A = TM(r_, ["time"], ["lat", "lon"], rr)
        A0 = TM(r0_, ["time"], ["lat", "lon"], rr)
        scale = max(np.linalg.svd(M - M.mean(axis=0, keepdims=True), compute_uv=False)[0], 1e-300)
        e = D.relerr(A, A0, scale=scale)
        if not e <= TOL:
            bad("recon_equals_unrotated", "field %s: |rec(rotated k=%d) - rec(unrotated leading %d)|/s1 = %.3e" % (nm, k, k, e), field=nm)

    # (b) order and what is ordered
    if np.any(np.diff(sq) > TOL * scale_sq) or not np.all(np.isfinite(sq)):
        bad("descending", "squared covariance of rotated modes not descending: %s" % sq)
    amp = (np.abs(np.sum(S1.conj() * S2, axis=0)) / (n - 1) * qn) ** 2
    e = np.abs(sq - amp).max() / scale_sq
    if not e <= TOL:
        bad("variance_is_mode_amplitude", "reported %s vs |<s1_m,s2_m>/(N-1)|^2 = %s" % (sq, amp))
    if np.any(np.diff(amp) > 1e-7 * scale_sq):
        bad("modes_descending", "returned modes are not in descending order of their squared covariance: %s" % amp)

    # (c) sign: decided on the combined loading vector
    L = np.concatenate([L1, L2], axis=0)
    real_loadings = not np.iscomplexobj(L)
    if real_loadings:
        b = _sign_bad(L)
        if b:
            bad("sign_convention", "largest-magnitude combined loading is negative for mode(s) %s" % b)

    # (d) power 1
    if power == 1:
        e = np.abs(Rm.conj().T @ Rm - np.eye(k)).max() if Rm.shape == (k, k) else np.inf
        if not e <= TOL:
            bad("rotation_unitary", "|R^H R - I| = %.3e (shape %s)" % (e, Rm.shape))
        e = np.abs(N1.conj().T @ N2 / (n - 1) - np.eye(k)).max()
        if not e <= TOL:
            bad("scores_biorthonormal", "|N1^H N2/(N-1) - I| = %.3e" % e)
        # (e)
        if real_loadings:
            c1_, c2_ = base.components()
            C1 = TM(c1_.sel(mode=modes), ["lat", "lon"], ["mode"], rx)
            C2 = TM(c2_.sel(mode=modes), ["lat", "lon"], ["mode"], ry)
            L0 = np.concatenate([C1, C2], axis=0) * np.sqrt(sig)[None, :]
            c1, c0 = _varimax_criterion(L), _varimax_criterion(L0)
            if not c1 >= c0 - TOL * max(1.0, abs(c0)):
                bad("varimax_criterion", "criterion after %.12g < before %.12g" % (c1, c0))

    perm = np.asarray(rot.data["idx_modes_sorted"].values).tolist()
    info = dict(k=k, family="cross", power1=(power == 1), compute=case["compute"], perm_nonidentity=perm != list(range(k)), real_loadings=bool(real_loadings), amplitude="%g" % case.get("scale", 1.0), gaps=case.get("gaps", "none"))
    return _finish(V, info, S1.size > 0 and S2.size > 0 and L.size > 0)


# ----------------------------------------------------------------------------- vacuity


def vacuity(outcomes, results, tier):
    nskip = sum(v for o, v in outcomes.items() if o == "skipped:zero_variance_mode")
    if nskip:
        return "%d cases rotate a zero-variance mode: the alphabet must not contain them" % nskip
    judged = [r for r in results if r.get("outcome") in ("ok", "violation") and r.get("info")]
    if not judged:
        return "no rotation was judged"
    for fam in ("single", "cross"):
        for p1 in (True, False):
            sub = [r for r in judged if r["info"].get("family") == fam and r["info"].get("power1") == p1]
            if not sub:
                return "no %s-set rotation with power %s was judged" % (fam, "1" if p1 else ">1")
        if not any(r["info"].get("real_loadings") and r["info"].get("power1") for r in judged if r["info"].get("family") == fam):
            return "no real %s-set loadings at power 1: sign and Varimax-criterion clauses never evaluated" % fam
    # which rotations re-order their modes depends on the seed's data: demand it once per family, not per power
    for fam in ("single", "cross"):
        if not any(r["info"].get("perm_nonidentity") for r in judged if r["info"].get("family") == fam):
            return "no %s-set rotation re-ordered its modes: the sorting bookkeeping was never exercised" % fam
    for comp in (True, False):
        if not any(r["info"].get("compute") == comp for r in judged):
            return "compute=%s never judged" % comp
    # amplitude coordinate: every enumerated amplitude must have been judged in both families and at power 1 and >1
    amps = sorted({r["info"].get("amplitude") for r in results if r.get("info") and r["info"].get("amplitude")})
    if len(amps) < 2:
        return "only one field amplitude explored"
    for a in amps:
        for fam in ("single", "cross"):
            for p1 in (True, False):
                if not any(r["info"].get("amplitude") == a and r["info"].get("family") == fam and r["info"].get("power1") == p1 for r in judged):
                    return "no %s-set rotation with power %s judged at amplitude %s" % (fam, "1" if p1 else ">1", a)
    # missing-data coordinate: every enumerated gap pattern judged in the families it is enumerated for, at power 1 and >1
    for fam, pats in (("single", ("s1", "s3", "s2f1")), ("cross", ("s3", "s2f1"))):
        for g in pats:
            for p1 in (True, False):
                if not any(r["info"].get("gaps") == g and r["info"].get("family") == fam and r["info"].get("power1") == p1 for r in judged):
                    return "no %s-set rotation with power %s judged on input with gap pattern %s" % (fam, "1" if p1 else ">1", g)
    return None


def finalize(cases_, results, tier, seed):
    from collections import Counter

    t = Counter()
    for c, r in zip(cases_, results):
        if r.get("info"):
            key = "%s/power%s/%s" % (c["family"], "1" if c["power"] == 1 else ">1", "reordered" if r["info"].get("perm_nonidentity") else "order_kept")
            t[key] += 1
    return [], {"reordering_tally": dict(sorted(t.items()))}
