"""C16 — Fractional whitening and PCA reduction are exact, invertible changes of basis. Explorer P.

Alphabet (DESIGN 5/C16): Whitener and PCA used directly on centred n x p matrices (n > p, full column rank,
geometric singular-value ladder with condition number 1e1 / 1e3 / 1e6), real and complex, numpy and dask
(feature dimension in one chunk; sample dimension in one or in several chunks). Whitener cases additionally carry a
units coordinate: the same matrix multiplied by a global factor 1e-5 / 1e-3 / 1 / 1e4, or with per-feature units
(factors from 1 down to 1e-5 across the features); every clause is relative to the scaled quantities.

Oracle clauses (plain numpy on plain matrices; eigh for matrix powers and leading subspaces):
  whitener  (a) exists nu in {N, N-1}: cov_nu(X T) = cov_nu(X)^alpha        (identity at 0, unchanged at 1)
            (b) inverse_transform_data(transform(Z)) = Z and the converse, training data and unseen rows
            (c) T, Tinv Hermitian;  T Tinv = Tinv T = I
            (d) component round trips both ways
            (f) the data map and the component map are the same change of basis:
                transform(S P^H) = S transform_components(P)^H, same for the two inverse maps
            (g) units: fitting on c X instead of X gives T_c = c^(alpha-1) T and whitened data c^alpha (X T)
                (alpha = 0: the whitened data do not depend on the units) -- a relation between two real fits
  PCA       (e) V^H V = I, V V^H = projector on the reference leading-k subspace
            (b) data rows inside the retained subspace come back; PC-space rows come back
            (d) patterns inside the retained subspace come back; PC-space patterns come back
            (f) as above
The covariance normalisation (N or N-1) is not fixed by the statement: either is accepted, neither demanded.
"""

from __future__ import annotations

import warnings

import numpy as np

from .. import data as D
from .. import ref as R
from ..core import viol

ID = "C16"
LEVEL = "exploration"
TECHNIQUE = (
    "bounded exhaustive enumeration (transformer x shape x condition number x dtype x alpha / n_modes x back-end x chunking) of real "
    "Whitener / PCA fits against numpy eigh references for matrix powers, inverses and leading subspaces"
)
RULE = (
    "per matrix instance (1 quick, 2 thorough): Whitener: full product shape x cond in {1e1,1e3,1e6} x {real,complex} x alpha x {numpy, dask 1 sample chunk, dask 3 sample chunks} at unit scale, "
    "plus units in {x1e-5, x1e-3, x1e4, per-feature 1..1e-5 (cond 1e1 only)} x {real,complex} x alpha x "
    "(quick: shape 9x4, cond {1e1,1e6}, {numpy, dask 1 chunk}; thorough, first instance: every shape, cond and back-end); "
    "PCA: full product shape x cond x {real,complex} x n_modes in {every int 1..p, 'all', fractions x init_rank_reduction} x "
    "{numpy, dask x sample chunking x compute_eagerly}, except that the two documented refusals (complex+dask SVD, fractional n_modes on dask) "
    "are represented by one n_modes value each per data class; a case is non-trivial when the fit returned and every clause of its oracle "
    "was evaluated on non-empty arrays"
)
ASSUMPTIONS = [
    "centred matrices U diag(s) V^H with U orthogonal to the ones vector, s a geometric ladder from 8 down to 8/cond, factors drawn from VERIF_SEED, stand for 'all centred full-column-rank matrices with cond <= 1e6'",
    "numpy.linalg.eigh / svd / matrix products are correct",
    "tolerance = 1e-9 (1e-7 for PCA, whose solver may be a sketching one) + 50 eps cond^e with the first-order exponent of each clause "
    "(covariance of whitened data: e = 2(1-alpha), because xeofs forms X^H X; inverses and round trips: e = 1-alpha; PCA subspace: e = 1; "
    "units clause, two fits: 200 eps cond^2 for T and 200 eps cond^(2-alpha) for the whitened data)",
    "clause (f) (data map and component map are one and the same change of basis) is read from the title 'exact changes of basis' and "
    "from the defect class the property names (wrong exponent sign / missing conjugate in the pattern map that cancels in round trips)",
    "clause (g) reads 'the whitening matrix is C^((alpha-1)/2)' (the mechanism the property anchors) as a scaling law between two fits; it needs no reference matrix power",
    "units: tolerances use the condition number of the matrix actually handed to xeofs (per-feature units change it; it stays <= 1e6)",
    "PCA with a fractional n_modes: the number k of returned modes is taken from the model (its rule belongs to C15); C16 checks the k-dimensional subspace",
]
TALLY_KEYS = ("model", "backend", "cplx", "cond", "shape", "alpha", "nmodes", "units")
TRUSTED = ["dask.array evaluation of the graphs xeofs builds (threaded/synchronous default scheduler)"]
MAX_REFUSED_FRACTION = 0.10

EPS = float(np.finfo(float).eps)
K_ROUND = 50.0
FEATURE_LABELS = lambda p: np.arange(p) * 10 + 3  # noqa: E731
M_PAT = 3  # number of test patterns
N_NEW = 5  # number of unseen rows


# ----------------------------------------------------------------------------- alphabet


def _shapes(tier):
    return [(9, 4), (12, 6)] if tier == "quick" else [(9, 4), (12, 6), (15, 3)]


def _alphas(tier):
    return [0.0, 0.25, 0.5, 0.9, 1.0] if tier == "quick" else [0.0, 0.1, 0.25, 0.5, 0.75, 0.9, 1.0]


UNITS_GLOBAL = {"1e-5": 1e-5, "1e-3": 1e-3, "1": 1.0, "1e4": 1e4}


def _unit_factors(units, p):
    """Per-feature multipliers of the units coordinate."""
    if units == "mixed":
        return 10.0 ** (-5.0 * np.arange(p) / max(1, p - 1))
    return np.full(p, UNITS_GLOBAL[units])


def _backends(tier):
    # (backend, sample chunks)
    return [("numpy", 0), ("dask", 1), ("dask", 3)]


def cases(tier, seed):
    out = []
    for salt in ((0,) if tier == "quick" else (0, 1)):  # independent instances of the orthogonal factors
        out.extend(_cases_for(tier, salt))
    return out


def _cases_for(tier, salt):
    out = []
    conds = [1e1, 1e3, 1e6]
    # ---- Whitener
    for (n, p) in _shapes(tier):
        for cond in conds:
            for cplx in (False, True):
                for alpha in _alphas(tier):
                    for (be, sch) in _backends(tier):
                        out.append(dict(model="Whitener", salt=salt, shape=[n, p], cond=cond, cplx=cplx, alpha=alpha, backend=be, schunks=sch, units="1"))
    # ---- Whitener in other units
    if salt == 0:
        q = tier == "quick"
        for (n, p) in ([(9, 4)] if q else _shapes(tier)):
            for units in ("1e-5", "1e-3", "1e4", "mixed", "int"):
                for cond in ([1e1, 1e6] if q else conds):
                    if units == "mixed" and cond != 1e1:
                        continue  # per-feature units multiply the condition number by up to 1e5
                    if units == "int" and cond != 1e1:
                        continue  # integer storage: the rounded matrix has its own (measured) condition number
                    for cplx in (False, True):
                        if units == "int" and cplx:
                            continue
                        for alpha in _alphas(tier):
                            for (be, sch) in (_backends(tier)[:2] if q else _backends(tier)):
                                out.append(dict(model="Whitener", salt=salt, shape=[n, p], cond=cond, cplx=cplx, alpha=alpha, backend=be, schunks=sch, units=units))
    # ---- PCA
    fracs = [(0.9, 0.3), (0.9, 1.0)] if tier == "quick" else [(0.5, 0.3), (0.5, 1.0), (0.9, 0.3), (0.9, 1.0), (0.99, 1.0)]
    # (60, 6), thorough also (80, 8): tall and skinny (n >= 10 p) - the corner where a Gram-matrix shortcut would be tempting
    for (n, p) in _shapes(tier) + ([(80, 8), (120, 12)] if tier == "quick" else [(60, 6), (80, 8), (120, 12), (200, 16)]):
        for cond in conds:
            for cplx in (False, True):
                specs = [("int", k, 0.3) for k in range(1, p + 1)] + [("all", "all", 0.3)] + [("float", f, irr) for (f, irr) in fracs]
                for (be, sch) in _backends(tier):
                    for eager in ((False,) if be == "numpy" else (False, True)):
                        if be == "dask" and tier == "quick" and sch == 3 and eager:
                            continue
                        for (kind, nm, irr) in specs:
                            if be == "dask":
                                # documented refusals: one representative each per data class
                                if cplx and not (kind == "all"):
                                    continue
                                if kind == "float" and not (nm == 0.9 and irr == 1.0 and sch == 1 and not eager):
                                    continue
                            out.append(dict(model="PCA", salt=salt, shape=[n, p], cond=cond, cplx=cplx, nmodes=nm, nkind=kind, irr=irr, backend=be, schunks=sch, eager=eager))
    return out


# ----------------------------------------------------------------------------- inputs


def make_X(n, p, cond, cplx, seed, salt=0):
    """Centred n x p matrix of full column rank: U diag(s) V^H, U orthonormal and orthogonal to 1, s from 8 down to 8/cond."""
    rng = np.random.default_rng([int(seed), 16, n, p, int(round(np.log10(cond))), int(cplx), int(salt)])
    s = 8.0 * cond ** (-np.arange(p) / max(1, p - 1))
    U = D._orth(rng, n, p, cplx, True)
    V = D._orth(rng, p, p, cplx, False)
    return (U * s) @ V.conj().T, s


def _rand(rng, shape, cplx):
    A = rng.standard_normal(shape)
    if cplx:
        A = A + 1j * rng.standard_normal(shape)
    return A


def _da(M, d0, c0, d1, c1, name=None):
    import xarray as xr

    return xr.DataArray(M, dims=(d0, d1), coords={d0: c0, d1: c1}, name=name)


def _wrap(da, case):
    if case["backend"] == "dask":
        n = da.sizes["sample"]
        ch = -1 if case["schunks"] == 1 else max(1, -(-n // case["schunks"]))
        return da.chunk({"sample": ch, "feature": -1})
    return da


def _mat(obj, rows, cols, ref):
    return D.to_matrix(obj, rows, cols, ref)


def _rel(a, b, scale):
    a = np.asarray(a)
    b = np.asarray(b)
    if a.shape != b.shape:
        return np.inf
    d = np.abs(a - b)
    if not np.all(np.isfinite(d)):
        return np.inf
    return float(d.max() / max(scale, 1e-300))


def _alpha_class(a):
    return "0" if a == 0 else ("1" if a == 1 else "mid")


# ----------------------------------------------------------------------------- run


def run_case(case, seed):
    with warnings.catch_warnings():
        warnings.simplefilter("ignore")
        if case["model"] == "Whitener":
            return _run_whitener(case, seed)
        return _run_pca(case, seed)


def _run_whitener(case, seed):
    from xeofs.preprocessing.whitener import Whitener

    n, p = case["shape"]
    cond, cplx, alpha = case["cond"], case["cplx"], case["alpha"]
    units = case.get("units", "1")
    X0, s = make_X(n, p, cond, cplx, seed, case["salt"])
    store = None
    if units == "int":
        # the SAME numbers held in integer storage: an exactly centred integer-valued matrix (counts, packed data); every
        # data array handed to xeofs is int64, the reference works on the float64 copy of those numbers
        X = np.rint(X0 * (40.0 / np.abs(X0).max()))
        X[-1] = -X[:-1].sum(axis=0)
        store = np.int64
    else:
        X = X0 * _unit_factors(units, p)[None, :]
    if units != "1":
        sv = np.linalg.svd(X, compute_uv=False)
        cond = float(sv[0] / sv[-1])  # the condition number of what xeofs is given
    fl = FEATURE_LABELS(p)
    sl = np.arange(n)
    nl = np.arange(N_NEW) + 100
    ml = np.arange(1, M_PAT + 1)
    da = _wrap(_da(X if store is None else X.astype(store), "sample", sl, "feature", fl, "data"), case)
    feats = dict(backend=case["backend"], cplx=cplx, alpha=_alpha_class(alpha), units=units)
    V = []

    def bad(check, msg, **extra):
        V.append(viol(check, "Whitener", msg, **feats, **extra))

    W = Whitener(alpha=alpha, random_state=5)
    Y = W.fit_transform(da)
    refX = {"sample": sl, "feature": fl}
    Ym = _mat(Y, ["sample"], ["feature"], refX)

    e1 = 1.0 - alpha
    tol_cov = 1e-9 + K_ROUND * EPS * cond ** (2 * e1)
    tol_inv = 1e-9 + K_ROUND * EPS * cond**e1
    worst = {}

    # ---- (a) covariance of the whitened data = alpha-th power of the covariance, for nu = N or nu = N-1
    N = n
    matched = []
    errs = {}
    for nu, tag in ((N, "N"), (N - 1, "N-1")):
        C = X.conj().T @ X / nu
        Ca = R.frac_power_psd(C, alpha) if alpha > 0 else np.eye(p)
        Cy = Ym.conj().T @ Ym / nu
        lam = float(np.linalg.eigvalsh((C + C.conj().T) / 2).max())
        e = _rel(Cy, Ca, lam**alpha)
        errs[tag] = e
        if e <= tol_cov:
            matched.append(tag)
    worst["cov"] = min(errs.values()) / tol_cov
    if not matched:
        bad("whitened_covariance", "cov(X T) != cov(X)^alpha under either normalisation: rel.err N: %.3e, N-1: %.3e (tol %.1e, alpha=%g, cond=%g)" % (errs["N"], errs["N-1"], tol_cov, alpha, cond))
    if alpha == 1:
        e = _rel(Ym, X, np.abs(X).max())
        if not e <= 1e-12:
            bad("alpha1_unchanged", "alpha=1 must leave the data unchanged, rel.err %.3e" % e)

    # ---- (c) T, Tinv Hermitian and mutually inverse
    def as_matrix(A, rows, cols):
        if A.ndim == 0:
            return complex(A.values) * np.eye(p) if cplx else float(A.values) * np.eye(p)
        return _mat(A, rows, cols, {"feature": fl, "mode": fl})

    T = as_matrix(W.T, ["feature"], ["mode"])
    Ti = as_matrix(W.Tinv, ["mode"], ["feature"])
    tmax, timax = np.abs(T).max(), np.abs(Ti).max()
    e = _rel(T, T.conj().T, tmax)
    worst["T_herm"] = e / tol_inv
    if not e <= tol_inv:
        bad("T_hermitian", "|T - T^H|/|T| = %.3e (tol %.1e)" % (e, tol_inv))
    e = _rel(Ti, Ti.conj().T, timax)
    worst["Tinv_herm"] = e / tol_inv
    if not e <= tol_inv:
        bad("Tinv_hermitian", "|Tinv - Tinv^H|/|Tinv| = %.3e (tol %.1e)" % (e, tol_inv))
    e = max(_rel(T @ Ti, np.eye(p), 1.0), _rel(Ti @ T, np.eye(p), 1.0))
    worst["TTinv"] = e / tol_inv
    if not e <= tol_inv:
        bad("T_Tinv_inverse", "|T Tinv - I| = %.3e (tol %.1e)" % (e, tol_inv))

    # ---- (b) un-whitening restores the data (training data, unseen rows) and the converse
    rng = np.random.default_rng([int(seed), 161, n, p, int(cplx)])
    Xb = _mat(W.inverse_transform_data(Y), ["sample"], ["feature"], refX)
    e = _rel(Xb, X, np.abs(X).max())
    worst["rt_train"] = e / tol_inv
    if not e <= tol_inv:
        bad("data_roundtrip", "inverse_transform_data(transform(X)) != X on the training data: rel.err %.3e (tol %.1e)" % (e, tol_inv), which="train")
    Z = _rand(rng, (N_NEW, p), cplx)
    if store is not None:
        Z = np.rint(Z * 30.0)
    refZ = {"sample": nl, "feature": fl}
    Zda = _wrap(_da(Z if store is None else Z.astype(store), "sample", nl, "feature", fl, "new"), case)
    Zb = _mat(W.inverse_transform_data(W.transform(Zda)), ["sample"], ["feature"], refZ)
    e = _rel(Zb, Z, np.abs(Z).max())
    worst["rt_new"] = e / tol_inv
    if not e <= tol_inv:
        bad("data_roundtrip", "inverse_transform_data(transform(Z)) != Z on unseen rows: rel.err %.3e (tol %.1e)" % (e, tol_inv), which="unseen")
    Zc = _mat(W.transform(W.inverse_transform_data(Zda)), ["sample"], ["feature"], refZ)
    e = _rel(Zc, Z, np.abs(Z).max())
    worst["rt_conv"] = e / tol_inv
    if not e <= tol_inv:
        bad("data_roundtrip", "transform(inverse_transform_data(Z)) != Z: rel.err %.3e (tol %.1e)" % (e, tol_inv), which="converse")

    # ---- (d) component round trips
    P = _rand(rng, (p, M_PAT), cplx)
    refP = {"feature": fl, "mode": ml}
    Pda = _da(P, "feature", fl, "mode", ml, "components")
    Q = W.transform_components(Pda)
    Qm = _mat(Q, ["feature"], ["mode"], refP)
    Pb = _mat(W.inverse_transform_components(Q), ["feature"], ["mode"], refP)
    e = _rel(Pb, P, np.abs(P).max())
    worst["comp_rt"] = e / tol_inv
    if not e <= tol_inv:
        bad("components_roundtrip", "inverse_transform_components(transform_components(P)) != P: rel.err %.3e (tol %.1e)" % (e, tol_inv), which="into_out")
    Qi = W.inverse_transform_components(Pda)
    Qim = _mat(Qi, ["feature"], ["mode"], refP)
    Pc = _mat(W.transform_components(Qi), ["feature"], ["mode"], refP)
    e = _rel(Pc, P, np.abs(P).max())
    worst["comp_rt2"] = e / tol_inv
    if not e <= tol_inv:
        bad("components_roundtrip", "transform_components(inverse_transform_components(Q)) != Q: rel.err %.3e (tol %.1e)" % (e, tol_inv), which="out_into")

    # ---- (f) one change of basis for data and patterns: transform(S P^H) = S transform_components(P)^H, same for the inverses
    S = _rand(rng, (N_NEW, M_PAT), cplx)
    F = S @ P.conj().T
    if store is not None:  # an integer-valued field S P^H: integer S and P
        S, P2 = np.rint(S * 5.0), np.rint(P * 5.0)
        F = S @ P2.T
        Qm = _mat(W.transform_components(_da(P2, "feature", fl, "mode", ml, "components")), ["feature"], ["mode"], refP)
        Qim = _mat(W.inverse_transform_components(_da(P2, "feature", fl, "mode", ml, "components")), ["feature"], ["mode"], refP)
        P = P2
    Fda = _wrap(_da(F if store is None else F.astype(store), "sample", nl, "feature", fl, "field"), case)
    sS, sP = np.linalg.norm(S, 2), np.linalg.norm(P, 2)
    lhs = _mat(W.transform(Fda), ["sample"], ["feature"], refZ)
    e = _rel(lhs, S @ Qm.conj().T, sS * sP * np.linalg.norm(T, 2))
    worst["consist_fwd"] = e / 1e-9
    if not e <= 1e-9:
        bad("pattern_data_consistency", "transform(S P^H) != S transform_components(P)^H: rel.err %.3e" % e, direction="forward")
    lhs = _mat(W.inverse_transform_data(Fda), ["sample"], ["feature"], refZ)
    e = _rel(lhs, S @ Qim.conj().T, sS * sP * np.linalg.norm(Ti, 2))
    worst["consist_inv"] = e / 1e-9
    if not e <= 1e-9:
        bad("pattern_data_consistency", "inverse_transform_data(S Q^H) != S inverse_transform_components(Q)^H: rel.err %.3e" % e, direction="inverse")

    # ---- (g) units: a fit on c X0 against a fit on X0 (two runs of the real code): T_c = c^(alpha-1) T_1, Y_c = c^alpha Y_1
    if units in UNITS_GLOBAL and units != "1":
        c = UNITS_GLOBAL[units]
        # two independent fits; the smallest eigenvalue of the formed X^H X carries a relative error eps cond^2, which enters T's
        # largest entries in full and the whitened data damped by cond^-alpha
        tol_uT = 1e-9 + (4 * K_ROUND * EPS * cond**2 if alpha < 1 else 0.0)
        tol_uY = 1e-9 + (4 * K_ROUND * EPS * cond ** (2 - alpha) if alpha < 1 else 0.0)
        W1 = Whitener(alpha=alpha, random_state=5)
        Y1 = _mat(W1.fit_transform(_wrap(_da(X0, "sample", sl, "feature", fl, "data"), case)), ["sample"], ["feature"], refX)
        e = _rel(Ym, c**alpha * Y1, c**alpha * np.abs(Y1).max())
        worst["units_data"] = e / tol_uY
        if not e <= tol_uY:
            what = "fully whitened data depend on the units of the input" if alpha == 0 else "whitened data of c X are not c^alpha times those of X"
            bad("units_invariance", "%s (c=%s): rel.err %.3e (tol %.1e)" % (what, units, e, tol_uY), what="data")
        if W.T.ndim == 2:
            W1T = _mat(W1.T, ["feature"], ["mode"], {"feature": fl, "mode": fl})
            e = _rel(T, c ** (alpha - 1) * W1T, c ** (alpha - 1) * np.abs(W1T).max())
            worst["units_T"] = e / tol_uT
            if not e <= tol_uT:
                bad("units_invariance", "T fitted on c X is not c^(alpha-1) times T fitted on X (c=%s): rel.err %.3e (tol %.1e)" % (units, e, tol_uT), what="T")

    if V:
        return dict(violations=V, outcome="violation", nontrivial=False)
    tag = "both" if len(matched) == 2 else matched[0]
    return dict(violations=V, outcome="ok:whitener:nu=" + tag, nontrivial=Ym.size > 0 and T.size > 0, info=dict(be=case["backend"], units=units, nu=tag, worst=max(worst.values()), worst_at=max(worst, key=worst.get)))


def _refusal(case, e):
    """Documented refusals (DESIGN 3.4 and the explicit message in _SVD.fit_transform)."""
    if case["backend"] != "dask":
        return None
    if case["cplx"] and isinstance(e, NotImplementedError) and "Complex data together with dask" in str(e):
        return "refused:complex_dask"
    if case.get("nkind") == "float" and isinstance(e, ValueError) and "not supported with dask" in str(e):
        return "refused:fraction_dask"
    return None


def _run_pca(case, seed):
    from xeofs.preprocessing.pca import PCA

    n, p = case["shape"]
    cond, cplx = case["cond"], case["cplx"]
    X, s = make_X(n, p, cond, cplx, seed, case["salt"])
    fl = FEATURE_LABELS(p)
    sl = np.arange(n)
    nl = np.arange(N_NEW) + 100
    ml = np.arange(1, M_PAT + 1)
    da = _wrap(_da(X, "sample", sl, "feature", fl, "data"), case)
    feats = dict(backend=case["backend"], cplx=cplx, nkind=case["nkind"], eager=case["eager"])
    Vl = []

    def bad(check, msg, **extra):
        Vl.append(viol(check, "PCA", msg, **feats, **extra))

    pca = PCA(n_modes=case["nmodes"], init_rank_reduction=case["irr"], compute_eagerly=case["eager"], random_state=5)
    try:
        Y = pca.fit_transform(da)
        Vx = pca.V
        k = int(Vx.sizes["mode"])
        pl = np.arange(1, k + 1)  # labels of the PC-space feature dimension
        Vm = _mat(Vx, ["feature"], ["mode"], {"feature": fl, "mode": pl})
    except Exception as e:
        r = _refusal(case, e)
        if r:
            return dict(outcome=r, nontrivial=False)
        raise

    tol = 1e-7 + K_ROUND * EPS * cond
    worst = {}
    if case["nkind"] == "int" and k != case["nmodes"]:
        bad("n_modes", "asked for %d modes, basis has %d" % (case["nmodes"], k))
    if case["nkind"] == "all" and k != p:
        bad("n_modes", "asked for all modes of a full-column-rank %dx%d matrix, basis has %d" % (n, p, k))
    if not (1 <= k <= p):
        bad("n_modes", "basis has %d columns" % k)
        return dict(violations=Vl, outcome="violation", nontrivial=False)

    # ---- reference leading-k subspace: right singular vectors of X itself (X^H X would square the condition number)
    _, _, Vall = R.svd(X)
    Vref = Vall[:, :k]
    Pi = Vref @ Vref.conj().T
    # the subspace the model retained (clauses b, d speak of "the retained subspace"; whether it is the right one is clause e alone)
    Vret = Vref
    if np.all(np.isfinite(Vm)) and np.linalg.matrix_rank(Vm) == k:
        Vret, _ = np.linalg.qr(Vm)
    Pret = Vret @ Vret.conj().T
    feats["truncated_illcond"] = bool(k < p and cond >= 1e3)

    # ---- (e) orthonormal basis spanning the leading principal subspace
    e = _rel(Vm.conj().T @ Vm, np.eye(k), 1.0)
    worst["orth"] = e / tol
    if not e <= tol:
        bad("basis_orthonormal", "|V^H V - I| = %.3e (tol %.1e)" % (e, tol))
    e = _rel(Vm @ Vm.conj().T, Pi, 1.0)
    worst["span"] = e / tol
    if not e <= tol:
        bad("basis_span", "|V V^H - projector on the leading %d-subspace| = %.3e (tol %.1e)" % (k, e, tol))

    # ---- (b) data inside the retained subspace comes back; PC-space rows come back
    rng = np.random.default_rng([int(seed), 162, n, p, int(cplx), k])
    refX = {"sample": sl, "feature": fl}
    refY = {"sample": sl, "feature": pl}
    _mat(Y, ["sample"], ["feature"], refY)  # labels of the reduced data
    Xb = _mat(pca.inverse_transform_data(Y), ["sample"], ["feature"], refX)
    e = _rel(Xb, X @ Pret, np.abs(X).max())
    worst["rt_train"] = e / tol
    if not e <= tol:
        bad("data_roundtrip", "inverse_transform_data(transform(X)) != X restricted to the retained subspace: rel.err %.3e (tol %.1e)" % (e, tol), which="train")
    Z = _rand(rng, (N_NEW, k), cplx) @ Vret.conj().T
    refZ = {"sample": nl, "feature": fl}
    refZk = {"sample": nl, "feature": pl}
    Zda = _wrap(_da(Z, "sample", nl, "feature", fl, "new"), case)
    Zb = _mat(pca.inverse_transform_data(pca.transform(Zda)), ["sample"], ["feature"], refZ)
    e = _rel(Zb, Z, np.abs(Z).max())
    worst["rt_new"] = e / tol
    if not e <= tol:
        bad("data_roundtrip", "unseen rows inside the retained subspace do not come back: rel.err %.3e (tol %.1e)" % (e, tol), which="unseen")
    Wk = _rand(rng, (N_NEW, k), cplx)
    Wda = _wrap(_da(Wk, "sample", nl, "feature", pl, "pcs"), case)
    Wb = _mat(pca.transform(pca.inverse_transform_data(Wda)), ["sample"], ["feature"], refZk)
    e = _rel(Wb, Wk, np.abs(Wk).max())
    worst["rt_conv"] = e / tol
    if not e <= tol:
        bad("data_roundtrip", "transform(inverse_transform_data(W)) != W: rel.err %.3e (tol %.1e)" % (e, tol), which="converse")

    # ---- (d) patterns inside the retained subspace come back; PC-space patterns come back
    P = Vret @ _rand(rng, (k, M_PAT), cplx)
    refP = {"feature": fl, "mode": ml}
    refQ = {"feature": pl, "mode": ml}
    Pda = _da(P, "feature", fl, "mode", ml, "components")
    Pb = _mat(pca.inverse_transform_components(pca.transform_components(Pda)), ["feature"], ["mode"], refP)
    e = _rel(Pb, P, np.abs(P).max())
    worst["comp_rt"] = e / tol
    if not e <= tol:
        bad("components_roundtrip", "patterns inside the retained subspace do not come back: rel.err %.3e (tol %.1e)" % (e, tol), which="into_out")
    Qk = _rand(rng, (k, M_PAT), cplx)
    Qda = _da(Qk, "feature", pl, "mode", ml, "components")
    Pq = pca.inverse_transform_components(Qda)
    Pqm = _mat(Pq, ["feature"], ["mode"], refP)
    Qb = _mat(pca.transform_components(Pq), ["feature"], ["mode"], refQ)
    e = _rel(Qb, Qk, np.abs(Qk).max())
    worst["comp_rt2"] = e / tol
    if not e <= tol:
        bad("components_roundtrip", "transform_components(inverse_transform_components(Q)) != Q: rel.err %.3e (tol %.1e)" % (e, tol), which="out_into")

    # ---- (f) one change of basis for data and patterns
    S = _rand(rng, (N_NEW, M_PAT), cplx)
    G = _rand(rng, (p, M_PAT), cplx)  # arbitrary patterns, not confined to the subspace
    Gda = _da(G, "feature", fl, "mode", ml, "components")
    Gq = _mat(pca.transform_components(Gda), ["feature"], ["mode"], refQ)
    F = S @ G.conj().T
    Fda = _wrap(_da(F, "sample", nl, "feature", fl, "field"), case)
    sc = np.linalg.norm(S, 2) * np.linalg.norm(G, 2)
    lhs = _mat(pca.transform(Fda), ["sample"], ["feature"], refZk)
    e = _rel(lhs, S @ Gq.conj().T, sc)
    worst["consist_fwd"] = e / 1e-9
    if not e <= 1e-9:
        bad("pattern_data_consistency", "transform(S P^H) != S transform_components(P)^H: rel.err %.3e" % e, direction="forward")
    Fk = S @ Qk.conj().T
    Fkda = _wrap(_da(Fk, "sample", nl, "feature", pl, "field"), case)
    lhs = _mat(pca.inverse_transform_data(Fkda), ["sample"], ["feature"], refZ)
    e = _rel(lhs, S @ Pqm.conj().T, np.linalg.norm(S, 2) * np.linalg.norm(Qk, 2))
    worst["consist_inv"] = e / 1e-9
    if not e <= 1e-9:
        bad("pattern_data_consistency", "inverse_transform_data(S Q^H) != S inverse_transform_components(Q)^H: rel.err %.3e" % e, direction="inverse")

    if Vl:
        return dict(violations=Vl, outcome="violation", nontrivial=False)
    kk = "k=p" if k == p else ("k=1" if k == 1 else "1<k<p")
    return dict(violations=Vl, outcome="ok:pca:%s:%s" % (case["nkind"], kk), nontrivial=Vm.size > 0, info=dict(be=case["backend"], k=k, worst=max(worst.values()), worst_at=max(worst, key=worst.get)))


# ----------------------------------------------------------------------------- cross-case


def finalize(cases_, results, tier, seed):
    """No cross-case oracle; report how close the worst case came to its tolerance and which normalisation matched."""
    worst = 0.0
    at = None
    nu = {}
    ks = {}
    for c, r in zip(cases_, results):
        inf = r.get("info") or {}
        if "worst" in inf and inf["worst"] > worst:
            worst, at = inf["worst"], dict(case=c, clause=inf.get("worst_at"))
        if "nu" in inf and c["alpha"] < 1:
            nu[inf["nu"]] = nu.get(inf["nu"], 0) + 1
        if "k" in inf and c.get("nkind") == "float":
            key = "%s/irr=%s->k=%d" % (c["nmodes"], c["irr"], inf["k"])
            ks[key] = ks.get(key, 0) + 1
    return [], dict(worst_error_over_tolerance=round(worst, 4), worst_error_at=at, covariance_normalisation_matched_alpha_lt_1=nu, fractional_n_modes_outcomes=ks)


def vacuity(outcomes, results, tier):
    ok = {o: n for o, n in outcomes.items() if o.startswith("ok")}
    single = sum(n for o, n in ok.items() if o in ("ok:whitener:nu=N", "ok:whitener:nu=N-1"))
    if single == 0:
        return "clause (a) never discriminated between the two covariance normalisations (no alpha<1 case passed under exactly one)"
    if not any(o == "ok:whitener:nu=both" for o in ok):
        return "no alpha=1 whitener case passed"
    for kind in ("int", "all", "float"):
        if not any(o.startswith("ok:pca:%s:" % kind) for o in ok):
            return "no PCA case with n_modes kind %s passed" % kind
    for kk in ("k=1", "1<k<p", "k=p"):
        if not any(o.startswith("ok:pca:") and o.endswith(":" + kk) for o in ok):
            return "no PCA case with %s passed" % kk
    if not any(o.startswith("ok:pca:float:") and not o.endswith(":k=1") for o in ok):
        return "fractional n_modes never retained more than one mode"
    seen = {(r["outcome"].split(":")[1], (r.get("info") or {}).get("be")) for r in results if r["outcome"].startswith("ok:")}
    for want in (("whitener", "numpy"), ("whitener", "dask"), ("pca", "numpy"), ("pca", "dask")):
        if want not in seen:
            return "no %s case passed on the %s back-end" % want
    seen_u = {((r.get("info") or {}).get("units"), (r.get("info") or {}).get("be")) for r in results if r["outcome"].startswith("ok:whitener:nu=N")}
    for u in ("1e-5", "1e-3", "1", "1e4", "mixed"):
        for be in ("numpy", "dask"):
            if (u, be) not in seen_u:
                return "no alpha<1 whitener case in units %s passed on the %s back-end" % (u, be)
    return None
