"""C19 — OPA returns uncorrelated series ordered by their own decorrelation time. Explorer P.

Reference side (numpy/scipy only): the preprocessed matrix is rebuilt from the raw input, its leading
`n_pca_modes` left singular vectors span the retained principal components, lagged covariances are explicit
slices `Z[:n-tau].T @ Z[tau:] / d(tau)`, and the optimum is the largest generalised eigenvalue from
`scipy.linalg.eigh`. The per-series clause only needs the returned series themselves.
"""

from __future__ import annotations

import warnings

import numpy as np
import scipy.linalg

from .. import data as D
from .. import ref as R
from ..core import viol

ID = "C19"
LEVEL = "exploration"
TECHNIQUE = "bounded exhaustive enumeration (data class x n x tau_max x n_pca_modes x n_modes x preprocessing flags x solver x provenance of the model object x argument type of the integer options) of real OPA fits against explicit lag sums and a scipy generalised-eigenvalue reference"
RULE = (
    "full product of data class (white; AR(1) mixture phi in {0.9,0.5,0.1,-0.6} of rank 4; the same plus white noise, rank 6; "
    "period-16 oscillation plus white noise; AR mixture under a dominant period-12 cycle of amplitude 3e4, PC variances spanning 1e8..1e10) x n in {40,80} x tau_max (1..13 for n=40; 1,2,5,13,26 for n=80) x n_pca_modes in 2..rank x "
    "n_modes in 1..n_pca_modes x center x standardize x use_coslat x weights (all 16 for n=40 and tau_max in {1,2,5,13}, 4 combinations otherwise) x "
    "solver (full; plus randomized and auto at default flags, n=40, tau_max in {1,5,13}); quick: n=40 tau_max in {1,2,5,13} with 4 flag combinations, "
    "n=80 tau_max in {2,26} default flags, solver full; provenance of the judged object in {fresh, refit = the same OPA object first fitted on another "
    "realisation (other salt, other length) of the data class} - refit at default flags in quick, at default and coslat+weights flags in thorough; "
    "argument type: tau_max given as numpy.int64 / numpy.int32 instead of a Python int (n=40, default flags, tau_max in {1,5,13} x 3 (n_pca_modes, n_modes) pairs in quick; "
    "tau_max in {1,2,5,13} x all pairs in thorough), and per data class one configuration each for n_modes / n_pca_modes as numpy ints and every option as an integer-valued float "
    "(refused by the unchanged tree; judged like any other case should they be accepted); long lag window: 1000 samples, tau_max in {256,257,300} "
    "(2 data classes x 3 pairs in quick, all classes x all pairs in thorough); a case is non-trivial "
    "when the fit returned and all clauses (series uncorrelated / equal norm, bi-orthogonality, reported time = trapezoidal lag sum of that "
    "very series, descending, first value = largest generalised eigenvalue over the retained PCs, first series in their span) were "
    "evaluated on non-empty arrays"
)
ASSUMPTIONS = [
    "the five seeded data classes (6 features on a 3x2 lat/lon grid) stand for 'all time-ordered inputs'",
    "a lagged autocovariance is sum_t x_t x_{t+tau} / d(tau) with d in {n-tau-1, n-tau, n}; a reported value is accepted if it matches under any of the three",
    "numpy.linalg.svd and scipy.linalg.eigh (generalised symmetric problem) are correct",
    "default sample_name/feature_name (the hard-coded 'sample' in OPA is C07's subject)",
    "tolerances: 1e-8 (1e-6 randomized), widened to 100*eps*s_1/s_k for the series/pattern clauses and to 1000*eps*s_1/(s_k-s_{k+1}) for the optimality clause (first-order perturbation bounds of the whitening and of the retained PC subspace); at most 1e-5",
    "tau_max is a constructor argument without public setter, so the refit history varies the data (realisation and length) only",
    "a TypeError/ValueError for an integer option given as numpy integer or integer-valued float is a refusal (tallied, not judged); a Python int is never refused",
]
TALLY_KEYS = ("data", "prov", "n", "tau_max", "n_pca_modes", "solver", "topt", "ttype", "tlab", "unit")
TRUSTED = ["statsmodels import shim not used here"]

NLAT, NLON = 3, 2
P = NLAT * NLON
LATS = [-60.0, 10.0, 75.0]
PHIS = (0.9, 0.5, 0.1, -0.6)
DATA = ("white", "ar_mix", "ar_mix_noise", "osc_noise", "cycle_dom")
RANK = {"white": 6, "ar_mix": 4, "ar_mix_noise": 6, "osc_noise": 6, "cycle_dom": 6}
N_OTHER = {40: 30, 80: 50}  # length of the data set a refitted object saw first
EPS = float(np.finfo(float).eps)
N_LONG = 1000  # long lag window: tau_max beyond CPython's shared small ints, still <= n/3
TAUS_LONG = (256, 257, 300)
ARGTYPES = {"int": int, "np.int64": np.int64, "np.int32": np.int32, "float": float}
MAX_REFUSED_FRACTION = 0.05
ESTIMATORS = ("n-tau-1", "n-tau", "n")

FLAGS_ALL = [(c, s, cl, w) for c in (True, False) for s in (False, True) for cl in (False, True) for w in (False, True)]
FLAGS_4 = [(True, False, False, False), (False, False, False, False), (True, True, True, False), (True, False, True, True)]


# ----------------------------------------------------------------------------- alphabet


def _taus(n, tier):
    if n == 40:
        return [1, 2, 5, 13] if tier == "quick" else list(range(1, 14))
    return [2, 26] if tier == "quick" else [1, 2, 5, 13, 26]


def cases(tier, seed):
    out = []
    core_taus = (1, 2, 5, 13)
    for n in (40, 80):
        for tau_max in _taus(n, tier):
            for data in DATA:
                if tier == "quick":
                    flags = FLAGS_4 if n == 40 else FLAGS_4[:1]
                else:
                    flags = FLAGS_ALL if (n == 40 and tau_max in core_taus) else FLAGS_4
                for (c, s, cl, w) in flags:
                    default = (c, s, cl, w) == FLAGS_4[0]
                    solvers = ["full"]
                    if tier == "thorough" and default and n == 40 and tau_max in (1, 5, 13):
                        solvers = ["full", "randomized", "auto"]
                    refit = default if tier == "quick" else (c, s, cl, w) in (FLAGS_4[0], FLAGS_4[3])
                    for solver in solvers:
                        for prov in (("fresh", "refit") if (refit and solver == "full") else ("fresh",)):
                            for k in range(2, RANK[data] + 1):
                                for m in range(1, k + 1):
                                    out.append(dict(model="OPA", data=data, prov=prov, n=n, tau_max=tau_max, n_pca_modes=k, n_modes=m, center=c, standardize=s, coslat=cl, weights=w, solver=solver))
    base = dict(model="OPA", prov="fresh", center=True, standardize=False, coslat=False, weights=False, solver="full")
    # ---- argument type of the integer options (a numpy integer is not the same object as, but equal to, a Python int)
    for data in DATA:
        r = RANK[data]
        pairs = [(k, m) for k in range(2, r + 1) for m in range(1, k + 1)] if tier == "thorough" else [(2, 1), (r, 2), (r, r)]
        for tau_max in ((1, 2, 5, 13) if tier == "thorough" else (1, 5, 13)):
            for ttype in ("np.int64", "np.int32"):
                for (k, m) in pairs:
                    out.append(dict(base, data=data, n=40, tau_max=tau_max, n_pca_modes=k, n_modes=m, topt="tau_max", ttype=ttype))
        for topt, ttype in (("n_modes", "np.int64"), ("n_modes", "np.int32"), ("n_pca_modes", "np.int64"), ("n_pca_modes", "np.int32"), ("tau_max", "float"), ("n_modes", "float"), ("n_pca_modes", "float")):
            out.append(dict(base, data=data, n=40, tau_max=5, n_pca_modes=4, n_modes=2, topt=topt, ttype=ttype))
    # ---- labels of the time axis: the series is time-ordered as STORED (position), whatever its labels look like - wrapped
    #      day-of-year labels, unpadded strings, descending numbers; nothing may re-order the samples by label
    for data in DATA:
        r = RANK[data]
        pairs = [(k, m) for k in range(2, r + 1) for m in range(1, k + 1)] if tier == "thorough" else [(2, 2), (r, 1), (r, r)]
        for tau_max in ((1, 2, 5, 13) if tier == "thorough" else (2, 5)):
            for tlab in TLABELS[1:]:
                for (k, m) in pairs:
                    out.append(dict(base, data=data, n=40, tau_max=tau_max, n_pca_modes=k, n_modes=m, tlab=tlab))
    # ---- physical units: the same field in units that make its numbers tiny or huge (kg/kg, Pa); nothing the property states
    #      depends on a global factor (un-standardised fields)
    for data in DATA:
        r = RANK[data]
        pairs = [(k, m) for k in range(2, r + 1) for m in range(1, k + 1)] if tier == "thorough" else [(2, 2), (r, 1), (r, r)]
        for tau_max in ((1, 2, 5, 13) if tier == "thorough" else (2, 5)):
            for unit in ((1e-4, 1e-8, 1e6) if tier == "quick" else (1e-3, 1e-4, 1e-6, 1e-8, 1e-12, 1e6)):
                for (k, m) in pairs:
                    out.append(dict(base, data=data, n=40, tau_max=tau_max, n_pca_modes=k, n_modes=m, unit=unit))
    # ---- long lag window
    for data in (DATA if tier == "thorough" else ("ar_mix_noise", "osc_noise")):
        r = RANK[data]
        pairs = [(k, m) for k in range(2, r + 1) for m in range(1, k + 1)] if tier == "thorough" else [(2, 2), (4, 1), (r, r)]
        for tau_max in TAUS_LONG:
            for (k, m) in pairs:
                out.append(dict(base, data=data, n=N_LONG, tau_max=tau_max, n_pca_modes=k, n_modes=m))
    out.sort(key=lambda c: (c["n"], c["tau_max"], c["n_pca_modes"], c["n_modes"], c["prov"] != "fresh", c.get("ttype", "int") != "int"))  # simplest first (stable)
    return out


def _ar1(rng, n, phi):
    e = rng.standard_normal(n)
    x = np.empty(n)
    x[0] = e[0]
    for t in range(1, n):
        x[t] = phi * x[t - 1] + np.sqrt(1 - phi * phi) * e[t]
    return x


def make_series(data, n, seed, salt=0):
    """n x 6 matrix, rows in time order."""
    rng = np.random.default_rng([int(seed), 19, int(n), DATA.index(data)] + ([int(salt)] if salt else []))
    if data == "white":
        X = rng.standard_normal((n, P))
    elif data in ("ar_mix", "ar_mix_noise"):
        S = np.stack([_ar1(rng, n, phi) for phi in PHIS], axis=1)
        A = rng.standard_normal((len(PHIS), P))
        X = S @ A
        if data == "ar_mix_noise":
            X = X + 0.3 * rng.standard_normal((n, P))
    elif data == "osc_noise":
        t = np.arange(n)
        S = np.stack([np.sin(2 * np.pi * t / 16.0), np.cos(2 * np.pi * t / 16.0)], axis=1) * 2.0
        A = rng.standard_normal((2, P))
        X = S @ A + rng.standard_normal((n, P))
    elif data == "cycle_dom":
        # full-rank O(1) red-noise anomalies under a dominant cycle (a seasonal cycle that was not removed):
        # leading PC variance 1e8..1e10 times the smallest retained one, every PC far above round-off
        S = np.stack([_ar1(rng, n, phi) for phi in PHIS], axis=1)
        X = S @ rng.standard_normal((len(PHIS), P)) + 0.7 * rng.standard_normal((n, P))
        cyc = np.cos(2 * np.pi * np.arange(n) / 12.0) + 0.3 * rng.standard_normal(n)
        X = X + 3.0e4 * np.outer(cyc, 0.5 + rng.random(P))
    else:
        raise ValueError(data)
    mu = rng.standard_normal(P) * 3.0
    return X + mu[None, :]


TLABELS = ("ascending", "wrapped", "strings", "descending")


def time_labels(kind, n):
    if kind == "wrapped":  # day-of-year style: starts late in the cycle and wraps around - unique, not monotonic
        return (np.arange(n) + (2 * n) // 3) % n + 1
    if kind == "strings":  # unpadded: lexicographic order differs from position ("t10" < "t2")
        return np.array(["t%d" % i for i in range(n)], dtype=object)
    if kind == "descending":
        return np.arange(n)[::-1] * 10
    return np.arange(n)


def build_input(case, seed, n=None, salt=0):
    import xarray as xr

    X = make_series(case["data"], n or case["n"], seed, salt) * float(case.get("unit", 1.0))
    da = D.da_grid(X, NLAT, NLON, lats=LATS)
    if case.get("tlab", "ascending") != "ascending":
        da = da.assign_coords(time=time_labels(case["tlab"], da.sizes["time"]))
    wvec = wda = None
    if case["weights"]:
        rng = np.random.default_rng([int(seed), 77, P])
        wvec = 0.5 + rng.random(P) * 2.0
        wda = xr.DataArray(wvec.reshape(NLAT, NLON), dims=("lat", "lon"), coords={"lat": da.lat, "lon": da.lon})
    cl = np.repeat(R.sqrt_coslat(LATS), NLON) if case["coslat"] else None
    return X, da, wda, wvec, cl


# ----------------------------------------------------------------------------- reference


def _denom(n, tau, est):
    return {"n-tau-1": n - tau - 1, "n-tau": n - tau, "n": n}[est]


def own_time(x, tau_max, est):
    """1/2 rho(0) + sum_{1}^{tau_max-1} rho(tau) + 1/2 rho(tau_max) of one series, explicit loop."""
    x = np.asarray(x, dtype=float)
    x = x - x.mean()
    n = len(x)
    c = np.array([np.dot(x[: n - tau], x[tau:]) / _denom(n, tau, est) for tau in range(tau_max + 1)])
    rho = c / c[0]
    total = 0.5 * rho[0] + 0.5 * rho[tau_max]
    for tau in range(1, tau_max):
        total += rho[tau]
    return float(total)


def gen_eigs(Z, tau_max, est):
    """ascending generalised eigenvalues of sym(1/2 C0 + sum C(tau) + 1/2 C(tau_max)) w.r.t. C0 for the columns of Z."""
    n = Z.shape[0]

    def C(tau):
        return Z[: n - tau].T @ Z[tau:] / _denom(n, tau, est)

    C0 = C(0)
    M = 0.5 * C0 + 0.5 * C(tau_max)
    for tau in range(1, tau_max):
        M = M + C(tau)
    Ms = 0.5 * (M + M.T)
    return scipy.linalg.eigh(Ms, (C0 + C0.T) / 2, eigvals_only=True)


def _close_any(value, candidates, tol):
    return any(abs(value - c) <= tol * max(1.0, abs(c)) for c in candidates)


# ----------------------------------------------------------------------------- one case


def run_case(case, seed):
    import xeofs as xe

    X, da, wda, wvec, cl = build_input(case, seed)
    n = case["n"]
    k, nm, tmax = case["n_pca_modes"], case["n_modes"], case["tau_max"]
    ttype, topt = case.get("ttype", "int"), case.get("topt")
    opts = dict(n_modes=nm, tau_max=tmax, n_pca_modes=k)
    if ttype != "int":
        opts[topt] = ARGTYPES[ttype](opts[topt])  # same value, other type
    V = []
    feats = dict(prov=case.get("prov", "fresh"))
    if case.get("tlab", "ascending") != "ascending":
        feats["time_labels"] = case["tlab"]
    if ttype != "int":
        feats.update(argtype=ttype, arg=topt)
    if case.get("unit", 1.0) != 1.0:
        feats.update(small_unit=bool(case["unit"] < 1.0))
    if tmax > 256:
        feats.update(tau_max_gt_256=True)

    def bad(check, msg, **features):
        V.append(viol(check, "OPA", msg, **dict(feats, **features)))

    with warnings.catch_warnings():
        warnings.simplefilter("ignore")
        try:
            model = xe.single.OPA(center=case["center"], standardize=case["standardize"], use_coslat=case["coslat"], solver=case["solver"], random_state=5, **opts)
            if ttype != "int":
                model.fit(da, dim="time", weights=wda)
        except (TypeError, ValueError) as e:
            if ttype != "int":
                return dict(outcome="refused:" + type(e).__name__, nontrivial=False, info=dict(refused_arg=topt, refused_type=ttype))
            raise
        if case.get("prov", "fresh") == "refit":
            # history fit(D'); fit(D) on ONE object: everything judged below must describe D only
            _, da0, wda0, _, _ = build_input(case, seed, n=N_OTHER[n], salt=1)
            model.fit(da0, dim="time", weights=wda0)
        if ttype == "int":
            model.fit(da, dim="time", weights=wda)
        sc = model.scores()
        comps = model.components()
        fps = model.filter_patterns()
        dt = model.decorrelation_time()

    modes = np.arange(1, nm + 1)
    ref = {"time": da.time.values, "lat": da.lat.values, "lon": da.lon.values, "mode": modes}
    S = D.to_matrix(sc, ["time"], ["mode"], ref)  # rows in the input's time order
    W = D.to_matrix(comps, ["lat", "lon"], ["mode"], ref)
    F = D.to_matrix(fps, ["lat", "lon"], ["mode"], ref)
    if set(dt.dims) != {"mode"}:
        raise D.LabelError("decorrelation_time dims %s" % (dt.dims,))
    T = np.asarray(dt.sel(mode=modes).values, dtype=float)
    for name, A in (("scores", S), ("components", W), ("filter_patterns", F), ("decorrelation_time", T)):
        if not np.all(np.isfinite(A)):
            bad("finite", "%s contains non-finite values" % name, what=name)
    if V:
        return dict(violations=V, outcome="violation", nontrivial=False)

    # independent PCA of the independently preprocessed matrix; its spectrum also scales the tolerances
    Mpre = R.preprocess(X, case["center"], case["standardize"], cl, wvec)
    Zc = Mpre - Mpre.mean(axis=0, keepdims=True)
    U, s, _ = R.svd(Zc)
    tol0 = 1e-8 if case["solver"] == "full" else 1e-6
    tol = max(tol0, 100 * EPS * s[0] / max(s[k - 1], 1e-300))  # whitening by C0^(-1/2): relative error of the smallest retained PC

    # (a) mutually uncorrelated, equal norm
    Sc = S - S.mean(axis=0, keepdims=True)
    cov = Sc.T @ Sc
    d = np.sqrt(np.clip(np.diag(cov), 1e-300, None))
    corr = cov / np.outer(d, d)
    e = np.abs(corr - np.diag(np.diag(corr))).max() if nm > 1 else 0.0
    if not e <= tol:
        bad("scores_uncorrelated", "largest |correlation| between two score series = %.3e" % e)
    norms = np.linalg.norm(S, axis=0)
    e = (norms.max() - norms.min()) / max(norms.max(), 1e-300)
    if not (e <= tol and norms.min() > 0):
        bad("scores_equal_norm", "norms of the score series %s" % norms[:4])

    # (b) bi-orthogonality of filter patterns and patterns
    B = F.T @ W
    db = np.diag(B)
    scale = max(np.abs(db).max(), 1e-300)
    e = np.abs(B - np.diag(db)).max() / scale
    if not e <= tol:
        bad("biorthogonal_offdiag", "|offdiag(F^T W)| / max|diag| = %.3e" % e)
    e = (db.max() - db.min()) / scale
    if not (e <= tol and np.abs(db).min() > 1e-6 * scale and scale > 1e-12):
        bad("biorthogonal_diag", "diag(F^T W) = %s (must be equal and non-zero)" % db[:4])

    # (c) each reported time = trapezoidal lag sum of that very series
    own = np.array([[own_time(S[:, i], tmax, est) for est in ESTIMATORS] for i in range(nm)])
    for i in range(nm):
        if not _close_any(T[i], own[i], tol):
            flipped = _close_any(-T[i], own[i], tol) and own[i, 0] < 0
            bad(
                "own_decorrelation_time",
                "mode %d: reported %.6f, lag sum of its own series %.6f / %.6f / %.6f (estimators %s), tau_max=%d" % (i + 1, T[i], own[i, 0], own[i, 1], own[i, 2], ", ".join(ESTIMATORS), tmax),
                abs_of_negative=bool(flipped),
            )
            break

    # (d) descending
    if np.any(np.diff(T) > tol * max(1.0, np.abs(T).max())):
        bad("descending", "reported decorrelation times not descending: %s" % T)

    # (e) optimality over the retained principal components (independent PCA + generalised eigenproblem)
    gap = s[k - 1] - (s[k] if k < len(s) else 0.0)
    tol_e = max(tol, 1000 * EPS * s[0] / max(gap, 1e-300))  # rotation of the retained PC subspace under rounding
    decidable = s[k - 1] > 1e-9 * s[0] and tol_e <= 1e-5
    lam_max = lam_min = None
    if decidable:
        Z = U[:, :k]
        eigs = [gen_eigs(Z, tmax, est) for est in ESTIMATORS]
        lam_max = [float(w[-1]) for w in eigs]
        lam_min = [float(w[0]) for w in eigs]
        if not _close_any(T[0], lam_max, tol_e):
            absmin = _close_any(-T[0], lam_min, tol_e) and lam_min[0] < 0
            bad(
                "first_is_maximal",
                "first reported time %.6f; largest generalised eigenvalue over the %d retained PCs %.6f / %.6f / %.6f, smallest %.6f (tau_max=%d)" % (T[0], k, lam_max[0], lam_max[1], lam_max[2], lam_min[0], tmax),
                first_is_abs_of_most_negative=bool(absmin),
            )
        # the first series is a linear combination of the retained PCs
        x = S[:, 0]
        r = x - Z @ (Z.T @ x)
        e = np.linalg.norm(r) / max(np.linalg.norm(x), 1e-300)
        if not e <= tol_e:
            bad("first_in_pc_span", "relative residual of the first series outside the retained PCs = %.3e" % e)

    info = dict(min_own=float(own[:, 0].min()), max_own=float(own[:, 0].max()), decidable=bool(decidable), cond=float((s[0] / max(s[k - 1], 1e-300)) ** 2), long=bool(tmax > 256), argtype=ttype)
    if not decidable:
        return dict(violations=V, outcome="violation" if V else "skipped:pca_cut_in_cluster", nontrivial=False, info=info)
    return dict(violations=V, outcome="violation" if V else "ok", nontrivial=S.size > 0 and W.size > 0 and T.size > 0, info=info)


# ----------------------------------------------------------------------------- cross-case bookkeeping


def finalize(cases_, results, tier, seed):
    neg = sum(1 for r in results if r.get("info", {}).get("min_own", 1.0) < 0)
    small = sum(1 for r in results if r.get("info", {}).get("min_own", 1.0) < 0.5)
    large = sum(1 for r in results if r.get("info", {}).get("max_own", 0.0) > 1.0)
    illc = sum(1 for r in results if 1e8 <= r.get("info", {}).get("cond", 0.0) <= 1e10)
    refit = sum(1 for c in cases_ if c.get("prov") == "refit")
    typed = sum(1 for c, r in zip(cases_, results) if c.get("ttype", "int") != "int" and "min_own" in r.get("info", {}))
    longw = sum(1 for c, r in zip(cases_, results) if c["tau_max"] > 256 and "min_own" in r.get("info", {}))
    return [], dict(cases_judged_with_non_python_int_option=typed, cases_judged_with_tau_max_above_256=longw, cases_with_pc_variance_ratio_1e8_to_1e10=illc, cases_refit_on_same_object=refit, cases_with_negative_own_sum=neg, cases_with_own_sum_below_half=small, cases_with_own_sum_above_one=large)


def vacuity(outcomes, results, tier):
    infos = [r.get("info", {}) for r in results]
    if not any(i.get("long") for i in infos):
        return "no judged case with tau_max > 256"
    if not any(i.get("argtype") in ("np.int64", "np.int32") for i in infos):
        return "no judged case with tau_max given as a numpy integer"
    infos = [i for i in infos if "min_own" in i]
    if len(infos) < 0.9 * len(results):
        return "the lag-sum clause was evaluated on only %d of %d cases" % (len(infos), len(results))
    if not any(i["min_own"] < 0.5 for i in infos):
        return "no series with a decorrelation sum below 1/2 (anti-persistent end of the alphabet not reached)"
    if not any(i["max_own"] > 1.0 for i in infos):
        return "no series with a decorrelation sum above 1 (persistent end of the alphabet not reached)"
    if not any(1e8 <= i.get("cond", 0.0) <= 1e10 for i in infos):
        return "no case with retained PC variances spanning 1e8..1e10"
    if outcomes.get("skipped:pca_cut_in_cluster", 0) > 0.1 * len(results):
        return "optimality clause undecidable on more than 10% of the cases"
    return None
