"""C02 — Outputs keep the input's structure and attach every value to its own label. Explorer P over STRUCT.

Value-encodes-label oracle: with scaling off every input cell holds a unique integer code of its own (variable, labels).
Whatever the preprocessing chain does, a returned cell must decode to the labels it sits at.
"""

from __future__ import annotations

import itertools
import warnings

import numpy as np
import pandas as pd
import xarray as xr

from ..core import viol

ID = "C02"
LEVEL = "exploration"
TECHNIQUE = "bounded exhaustive enumeration of input structures (container x dims x order x index kinds x coords x names x flags) through the real Preprocessor / EOF / cross-set models with a value-encodes-label oracle"
RULE = (
    "container in {DataArray, Dataset(equal dims), Dataset(different dims), list[DA,DA], list[DA,DS]} x sample dims 1..3 x feature dims 1..3 "
    "x dimension order (all permutations up to 4 dims; identity/reverse/shuffle beyond) x index kind per dimension (int, unsorted int, str, "
    "descending datetime, descending float, MultiIndex on a sole sample/feature dim; full product up to 3 dims, one dim at a time beyond) "
    "x list items that call their feature dims alike but carry other labels on them (same / reordered / subset / shifted-overlapping / disjoint; lat or lat+lon shared; "
    "1-2 sample dims; int, float, str labels, thorough + unsorted, datetime; Preprocessor and EOF level) "
    "x non-index coords x internal names x preprocessing flags (x data with / without zero-variance features: a non-zero and a zero constant column per variable); "
    "non-trivial = matrix, data, component and score round trips all decoded cell by cell. "
    "Cross-set models fitted on X and Y with equally many samples but DIFFERENT sample labels (Y lagged by one step / disjoint): class in {MCA, CCA, RDA, CPCCA, MCARotator; "
    "thorough + HilbertMCA, HilbertCCA, CPCCARotator, HilbertMCARotator, HilbertCPCCARotator} x (1 sample dim | 2 sample dims with the first, the second or both relabelled; "
    "thorough + 3 sample dims) x index kind of the relabelled dims (6 kinds, MultiIndex on a sole sample dim) x container pair (DA|DA, DS|DA, DA|DS, DA|list) x PCA on/off; "
    "(F) one field has a single feature holding unevenly spaced codes of its sample labels, so its mode-1 scores must be one non-zero constant times the centred code at every label "
    "(quick: MCA full, CCA / coded-X MCA every variant x kind, RDA / CPCCA every variant; thorough: full product); "
    "(G) scores, components and their amplitude/phase carry their own field's dims and label sets without NaN, inverse_transform(scores) returns both input structures, and all values "
    "equal those of the fit on the same numbers whose Y carries X's labels (quick: class x variant with kind/lag/container/PCA in turn; thorough: class x variant x kind x lag)"
)
ASSUMPTIONS = [
    "dimension lengths 2..4; caps on orders (5-6 dims) and index-kind products (>3 dims) as stated in the rule",
    "a ValueError naming a clash of sample_name/feature_name with an existing dimension is a documented refusal",
    "cross-set fits pair the samples of X and Y by position (cpcca.py renames the sample dims for 'different coordinates with same length'); "
    "8 x 2 x 2 samples at most, 4-6 features per field; rotators with power=1, 2 of 3 modes",
]
TRUSTED = ["statsmodels import shim (/verif/shims) so that xeofs.cross constructors can be called"]
TALLY_KEYS = ("container", "level", "group")
MAX_REFUSED_FRACTION = 0.2
EXHAUSTIVE = True

SDIMS = ["time", "run", "member"]
FDIMS = ["lat", "lon", "lev"]
KINDS = ["int", "unsorted", "str", "datetime_desc", "float_desc", "mi"]
CONTAINERS = ["da", "ds_eq", "ds_diff", "list_da", "list_mixed"]
COORDS = ["none", "sample1d", "feature2d", "scalar"]
NAMES = ["default", "sf", "clash"]


def labels_for(kind, n, dim):
    if kind == "int":
        return np.arange(n)
    if kind == "unsorted":
        return np.roll(np.arange(n) * 3, 1)
    if kind == "str":
        return np.array(["b", "a", "d", "c", "f", "e", "h", "g"][:n])
    if kind == "datetime_desc":
        return np.array(pd.date_range("2001-01-01", periods=n, freq="D")[::-1])
    if kind == "float_desc":
        return (np.arange(n)[::-1] * 1.5 + 0.25)
    raise ValueError(kind)


def dim_len(dim, kind):
    if kind == "mi":
        return 4
    return 3 if dim in ("time", "lat", "x") else 2


def build_da(dims, kinds, order, base, extra, name):
    """DataArray over `dims` (list) with index kinds per dim; values = unique codes starting at `base`."""
    sizes = [dim_len(d, kinds[d]) for d in dims]
    vals = (np.arange(int(np.prod(sizes))).reshape(sizes) + base).astype(float)
    da = xr.DataArray(vals, dims=dims, name=name)
    for d, n in zip(dims, sizes):
        if kinds[d] == "mi":
            idx = pd.MultiIndex.from_product([[2001, 2002], ["x", "y"]], names=(d + "_a", d + "_b"))
            da = da.assign_coords(xr.Coordinates.from_pandas_multiindex(idx, d))
        else:
            da = da.assign_coords({d: labels_for(kinds[d], n, d)})
    if extra == "sample1d":
        d = dims[0]
        if kinds[d] != "mi":
            da = da.assign_coords(season=(d, np.arange(da.sizes[d]) % 2))
    elif extra == "feature2d":
        f = [d for d in dims if d in FDIMS or d == "x"]
        if len(f) >= 2 and all(kinds[x] != "mi" for x in f[:2]):
            da = da.assign_coords(area=((f[0], f[1]), np.arange(da.sizes[f[0]] * da.sizes[f[1]], dtype=float).reshape(da.sizes[f[0]], da.sizes[f[1]])))
    elif extra == "scalar":
        da = da.assign_coords(height=2.0)
    return da.transpose(*[dims[i] for i in order])


def orders_for(nd):
    if nd <= 4:
        return list(itertools.permutations(range(nd)))
    ident = tuple(range(nd))
    rev = ident[::-1]
    shuf = tuple(list(range(0, nd, 2)) + list(range(1, nd, 2)))
    return [ident, rev, shuf]


def build_input(case):
    ns, nf = case["ns"], case["nf"]
    S, F = SDIMS[:ns], FDIMS[:nf]
    kinds = dict(case["kinds"])
    dims = S + F
    order = case["order"]
    c = case["container"]
    extra = case["coords"]
    if c == "da":
        return build_da(dims, kinds, order, 0, extra, "u"), S
    if c == "ds_eq":
        u = build_da(dims, kinds, order, 0, extra, "u")
        v = build_da(dims, kinds, order, 10000, extra, "v")
        return xr.Dataset({"u": u, "v": v}), S
    if c == "ds_diff":
        u = build_da(dims, kinds, order, 0, extra, "u")
        dv = S + F[:1]
        ov = [i for i in order if i < len(S) + 1]
        # v lacks the trailing feature dims
        v = build_da(dv, kinds, [dv.index(dims[i]) for i in ov], 10000, "none", "v")
        return xr.Dataset({"u": u, "v": v}), S
    if case.get("grid") and c in ("list_da", "list_mixed"):
        # the other item(s) call their feature dims like the first item does, but live on another grid
        u = build_da(dims, kinds, order, 0, extra, "u")
        d2 = S + list(case["shared"])
        others = [regrid(build_da(d2, kinds, list(range(len(d2))), b, "none", nm), case, kinds) for nm, b in (("w", 20000),) + ((("b", 30000),) if c == "list_mixed" else ())]
        return [u, others[0] if c == "list_da" else xr.Dataset({"a": others[0].rename("a"), "b": others[1]})], S
    if c == "list_da":
        u = build_da(dims, kinds, order, 0, extra, "u")
        k2 = {d: kinds[d] for d in S}
        k2["x"] = "int"
        w = build_da(S + ["x"], k2, list(range(len(S) + 1)), 20000, "none", "w")
        if case.get("item_order") == "reversed":
            # the same labelled samples, stored in another element order by the second item
            w = w.isel({S[0]: slice(None, None, -1)})
        elif case.get("item_order") == "rolled":
            w = w.isel({S[0]: np.roll(np.arange(w.sizes[S[0]]), 1)})
        return [u, w], S
    if c == "list_mixed":
        u = build_da(dims, kinds, order, 0, extra, "u")
        k2 = {d: kinds[d] for d in S}
        k2["x"] = "int"
        a = build_da(S + ["x"], k2, list(range(len(S) + 1)), 20000, "none", "a")
        b = build_da(S + ["x"], k2, list(range(len(S) + 1)), 30000, "none", "b")
        return [u, xr.Dataset({"a": a, "b": b})], S
    raise ValueError(c)


GRIDS = ["same", "reordered", "subset", "overlap", "disjoint"]


def regrid(da, case, kinds):
    """labels of the shared feature dims relative to the first item's: same / same set stored in another element order /
    a proper subset / shifted by one step (overlapping) / disjoint."""
    g = case["grid"]
    for d in case["shared"]:
        n = da.sizes[d]
        if g == "reordered":
            da = da.isel({d: np.roll(np.arange(n), 1)})
        elif g == "subset":
            da = da.isel({d: slice(0, n - 1)})
        elif g in ("overlap", "disjoint"):
            da = da.assign_coords({d: cross_labels(kinds[d], n, d, "lag" if g == "overlap" else "disjoint")})
    return da


def _lab(v):
    if isinstance(v, (np.datetime64, pd.Timestamp)):
        return str(np.datetime64(v, "ns"))
    if isinstance(v, tuple):
        return tuple(_lab(x) for x in v)
    if isinstance(v, (np.generic,)):
        return v.item()
    return v


def truth_of(obj, S):
    """code -> (item index, variable name, {dim: label}) for every cell of the input."""
    t = {}
    items = obj if isinstance(obj, list) else [obj]
    for ii, it in enumerate(items):
        vars_ = [(str(k), v) for k, v in it.data_vars.items()] if isinstance(it, xr.Dataset) else [(str(it.name), it)]
        for vn, da in vars_:
            labs = {d: [_lab(x) for x in da[d].to_index().tolist()] for d in da.dims}
            for idx in np.ndindex(*da.shape):
                code = float(da.values[idx])
                t[code] = (ii, vn, {d: labs[d][i] for d, i in zip(da.dims, idx)})
    return t


def names_of(case, S, F):
    if case["names"] == "default":
        return "sample", "feature"
    if case["names"] == "sf":
        return "s", "f"
    # a name that already exists as a dimension of the other role
    return F[0], S[0]


def cases(tier, seed):
    out = []

    def add(group, **kw):
        c = dict(level="preprocessor", group=group, container="da", ns=1, nf=1, order=None, kinds=None, coords="none", names="default", flags=[False, False, False, False], item_order="same", const=False, grid=None, shared=None)
        c.update(kw)
        nd = c["ns"] + c["nf"]
        if c["order"] is None:
            c["order"] = list(range(nd))
        if c["kinds"] is None:
            c["kinds"] = [[d, "int"] for d in SDIMS[: c["ns"]] + FDIMS[: c["nf"]]]
        if c["container"] == "ds_diff" and c["nf"] < 2:
            return
        out.append(c)

    shapes = [(ns, nf) for ns in (1, 2, 3) for nf in (1, 2, 3)]
    # A: dimension orders
    for cont in CONTAINERS:
        for ns, nf in shapes:
            for o in orders_for(ns + nf):
                if tier == "quick" and ns + nf == 4 and o[0] not in (0, 3):
                    continue
                add("order", container=cont, ns=ns, nf=nf, order=list(o))
    # B: index kinds
    for cont in ("da", "ds_eq", "list_da") if tier == "quick" else CONTAINERS:
        for ns, nf in shapes:
            dims = SDIMS[:ns] + FDIMS[:nf]

            def allowed(d):
                ks = KINDS[:5]
                if (d in SDIMS and ns == 1) or (d in FDIMS and nf == 1):
                    ks = KINDS
                return ks

            if len(dims) <= 3 and (tier == "thorough" or len(dims) <= 2 or cont == "da"):
                for combo in itertools.product(*[allowed(d) for d in dims]):
                    if all(k == "int" for k in combo):
                        continue
                    add("index", container=cont, ns=ns, nf=nf, kinds=[[d, k] for d, k in zip(dims, combo)], order=list(range(len(dims)))[::-1])
            else:
                for d in dims:
                    for k in allowed(d)[1:]:
                        add("index", container=cont, ns=ns, nf=nf, kinds=[[x, k if x == d else "int"] for x in dims])
    # A2: list items that store the shared sample labels in a different element order
    for ns, nf in ((1, 1), (1, 2), (2, 1)):
        for io in ("reversed", "rolled"):
            for kind0 in ("int", "str", "datetime_desc"):
                kk = [[d, kind0 if d == "time" else "int"] for d in SDIMS[:ns] + FDIMS[:nf]]
                add("list_order", container="list_da", ns=ns, nf=nf, item_order=io, kinds=kk)
    # A3: list items that share the NAME of their feature dims but not the labels (fields on different grids)
    gvars = [(1, 1, ["lat"]), (1, 2, ["lat"]), (1, 2, ["lat", "lon"]), (2, 1, ["lat"]), (2, 2, ["lat", "lon"])]
    gkinds = ["int", "float_desc", "str"] + (["unsorted", "datetime_desc"] if tier == "thorough" else [])
    for ic, cont in enumerate(("list_da", "list_mixed")):
        for iv, (ns, nf, shared) in enumerate(gvars):
            for ig, grid in enumerate(GRIDS):
                for ik, kind in enumerate(gkinds):
                    if tier == "quick" and ik != (ic + iv + ig) % 3:
                        continue  # quick: index kinds in turn
                    kk = [[d, kind if d in shared else "int"] for d in SDIMS[:ns] + FDIMS[:nf]]
                    o = list(range(ns + nf))[::-1]
                    add("list_grid", container=cont, ns=ns, nf=nf, grid=grid, shared=shared, kinds=kk, order=o)
                    if tier == "thorough" or iv in (2, 3):
                        add("list_grid", level="model", container=cont, ns=ns, nf=nf, grid=grid, shared=shared, kinds=kk, order=o)
    # C: extra coordinates x internal names
    for cont in CONTAINERS:
        for ns, nf in ((1, 1), (1, 2), (2, 1), (2, 2)):
            for co in COORDS:
                for nm in NAMES:
                    if co == "none" and nm == "default":
                        continue
                    add("coords_names", container=cont, ns=ns, nf=nf, coords=co, names=nm)
    # D: preprocessing flags (values are random then: round trip must be the identity)
    for cont in CONTAINERS:
        for ns, nf in ((1, 2), (2, 2)):
            for fl in itertools.product([False, True], repeat=4):
                if not any(fl):
                    continue
                for const in (False, True):
                    # const: every variable additionally holds features whose value never changes along the samples
                    add("flags", container=cont, ns=ns, nf=nf, flags=list(fl), const=const, kinds=[[d, "float_desc" if d == "lat" else "int"] for d in SDIMS[:ns] + FDIMS[:nf]])
    # E: model level (EOF): every container x shape x two orders x every index kind once
    for cont in CONTAINERS:
        for ns, nf in shapes:
            dims = SDIMS[:ns] + FDIMS[:nf]
            nd = len(dims)
            for o in (list(range(nd)), list(range(nd))[::-1]):
                kk = [[d, KINDS[(i + (1 if o[0] else 0)) % 5]] for i, d in enumerate(dims)]
                if ns == 1:
                    kk[0][1] = "mi" if o[0] else kk[0][1]
                add("model", level="model", container=cont, ns=ns, nf=nf, order=o, kinds=kk)
    out.extend(cross_cases(tier))
    return out


def _items(obj):
    return obj if isinstance(obj, list) else [obj]


def _vars(it):
    return [(str(k), v) for k, v in it.data_vars.items()] if isinstance(it, xr.Dataset) else [(None, it)]


def check_structure(V, bad, inp, out, what, dims_expected=None, drop=(), add=()):
    """container type, variable names, dimension sets and label sets of `out` equal those of `inp`
    (restricted: dims in `drop` removed, dims in `add` added)."""
    a, b = _items(inp), _items(out)
    if isinstance(inp, list) != isinstance(out, list) or len(a) != len(b):
        bad("container", "%s: container %s -> %s" % (what, type(inp).__name__, type(out).__name__), what=what)
        return False
    ok = True
    for ia, (x, y) in enumerate(zip(a, b)):
        if type(x) is not type(y):
            bad("container", "%s: item %d %s -> %s" % (what, ia, type(x).__name__, type(y).__name__), what=what)
            ok = False
            continue
        vx, vy = dict(_vars(x)), dict(_vars(y))
        if isinstance(x, xr.Dataset) and set(vx) != set(vy):
            bad("variables", "%s: variables %s -> %s" % (what, sorted(vx), sorted(vy)), what=what)
            ok = False
            continue
        for vn in vx:
            dx = (set(vx[vn].dims) - set(drop)) | set(add)
            dy = set(vy[vn].dims)
            if dx != dy:
                bad("dims", "%s: variable %s dims %s, expected %s" % (what, vn, sorted(dy), sorted(dx)), what=what)
                ok = False
                continue
            for d in dx - set(add):
                lx = {_lab(v) for v in vx[vn][d].to_index().tolist()}
                ly = {_lab(v) for v in vy[vn][d].to_index().tolist()} if d in vy[vn].coords else None
                if lx != ly:
                    bad("labels", "%s: labels of %s on %s differ: %s vs %s" % (what, d, vn, sorted(map(str, lx))[:4], sorted(map(str, ly))[:4] if ly else None), what=what)
                    ok = False
    return ok


def decode_cells(out, truth, fixed=None, skip_dims=()):
    """Yield problems: every finite cell of `out` must decode (via truth) to the labels it sits at.
    `fixed`: labels every cell must additionally decode to (e.g. the sample of a row)."""
    probs = []
    ncell = 0
    for ii, it in enumerate(_items(out)):
        for vn, da in _vars(it):
            dims = [d for d in da.dims if d not in skip_dims]
            labs = {d: [_lab(x) for x in da[d].to_index().tolist()] for d in dims}
            da2 = da.transpose(*dims, *[d for d in da.dims if d in skip_dims])
            vals = np.asarray(da2.values).reshape([da2.sizes[d] for d in dims] + [-1])[..., 0]
            for idx in np.ndindex(*vals.shape):
                code = float(vals[idx])
                if np.isnan(code):
                    probs.append("NaN at %s" % ({d: labs[d][i] for d, i in zip(dims, idx)},))
                    continue
                ncell += 1
                t = truth.get(code)
                if t is None:
                    probs.append("value %r is no input cell" % code)
                    continue
                ti, tv, tl = t
                here = {d: labs[d][i] for d, i in zip(dims, idx)}
                if ti != ii or (vn is not None and tv != vn):
                    probs.append("code of item %d var %s found in item %d var %s" % (ti, tv, ii, vn))
                    continue
                for d, l in here.items():
                    if tl.get(d) != l:
                        probs.append("cell labelled %s=%r holds the value of %s=%r" % (d, l, d, tl.get(d)))
                        break
                if fixed:
                    for d, l in fixed.items():
                        if d in tl and tl[d] != l:
                            probs.append("expected %s=%r but value belongs to %r" % (d, l, tl[d]))
                            break
            if len(probs) > 3:
                return probs, ncell
    return probs, ncell


def _run_case_inner(case, seed, V, bad):
    from xeofs.preprocessing.preprocessor import Preprocessor

    if case["level"] == "cross":
        with warnings.catch_warnings():
            warnings.simplefilter("ignore")
            return _cross_level(case, seed, V, bad)
    inp, S = build_input(case)
    F = FDIMS[: case["nf"]]
    truth = truth_of(inp, S)
    sn, fn = names_of(case, S, F)
    center, std, coslat, wts = case["flags"]
    scaling = any(case["flags"])
    rng = np.random.default_rng([seed, 5])
    work = inp
    weights = None
    if scaling:
        # random values instead of codes (round trip must still be the identity)
        def rnd(o):
            if isinstance(o, xr.Dataset):
                return o.map(lambda v: v.copy(data=rng.standard_normal(v.shape) * 3 + 7))
            return o.copy(data=rng.standard_normal(o.shape) * 3 + 7)

        work = [rnd(o) for o in inp] if isinstance(inp, list) else rnd(inp)
        if case.get("const"):
            # zero-variance features: the first feature cell of every variable is a non-zero constant, the last one
            # (where the variable has at least three feature cells) is constant zero
            def cst(o):
                if isinstance(o, xr.Dataset):
                    return o.map(cst)
                fd = [d for d in o.dims if d not in S]
                o = o.copy()
                if int(np.prod([o.sizes[d] for d in fd])) >= 2:
                    o[{d: 0 for d in fd}] = 3.0
                if int(np.prod([o.sizes[d] for d in fd])) >= 3:
                    o[{d: -1 for d in fd}] = 0.0
                return o

            work = [cst(o) for o in work] if isinstance(work, list) else cst(work)
        if wts:
            def w(o):
                if isinstance(o, xr.Dataset):
                    return xr.Dataset({k: w(v) for k, v in o.data_vars.items()})
                fd = [d for d in o.dims if d not in S]
                return xr.DataArray(rng.random([o.sizes[d] for d in fd]) + 0.5, dims=fd, coords={d: o[d] for d in fd})

            weights = [w(o) for o in inp] if isinstance(inp, list) else w(inp)
    if coslat and case["container"] in ("list_da", "list_mixed"):
        return dict(outcome="skipped:coslat_needs_lat_in_every_item", nontrivial=False)

    with warnings.catch_warnings():
        warnings.simplefilter("ignore")
        if case["level"] == "model":
            try:
                return _model_level(case, inp, S, truth, V, bad)
            except Exception as e:
                bad("raised", _exc_text(e), exc=type(e).__name__, at=_exc_at(e))
                return dict(violations=V, outcome="violation")
        pp = Preprocessor(sample_name=sn, feature_name=fn, with_center=center, with_std=std, with_coslat=coslat)
        try:
            M = pp.fit_transform(work, tuple(S), weights)
        except ValueError as e:
            if case["names"] == "clash" and "already present in data" in str(e):
                return dict(outcome="refused:name_clash", nontrivial=False)
            raise
        if set(M.dims) != {sn, fn} or M.ndim != 2:
            bad("matrix_dims", "fit_transform returned dims %s" % (M.dims,))
            return dict(violations=V, outcome="violation")
        rec = pp.inverse_transform_data(M)
        ok = check_structure(V, bad, work, rec, "inverse_transform_data")
        # second entry point: the fitted preprocessor is handed the SAME labelled data stored with its dimensions in reverse
        # order; every value must again come back at its own label
        if ok:
            def rev(o):
                if isinstance(o, xr.Dataset):
                    return o.map(lambda v: v.transpose(*reversed(v.dims)), keep_attrs=True)
                return o.transpose(*reversed(o.dims))

            work_T = [rev(o) for o in work] if isinstance(work, list) else rev(work)
            rec_T = pp.inverse_transform_data(pp.transform(work_T))
            if check_structure(V, bad, work, rec_T, "inverse_transform_data(transform(re-ordered dims))"):
                for x, y in zip(_items(rec), _items(rec_T)):
                    for vn, dx in _vars(x):
                        dy = y[vn] if vn is not None else y
                        try:
                            dy2 = dy.transpose(*dx.dims)
                            same_labels = all(np.array_equal(np.asarray(dx[d].values, dtype=object), np.asarray(dy2[d].values, dtype=object)) for d in dx.dims if d in dx.coords)
                            a, b = np.asarray(dx.values), np.asarray(dy2.values)
                            eq = same_labels and a.shape == b.shape and bool(np.all((np.abs(a - b) <= 1e-9) | (np.isnan(a) & np.isnan(b))))
                        except Exception as e:  # noqa: BLE001
                            eq = False
                        if not eq:
                            bad("transform_reordered_dims", "data stored with its dimensions in reverse order does not come back at its labels after transform + inverse_transform_data")
        if scaling:
            if ok:
                for x, y in zip(_items(work), _items(rec)):
                    for vn, dx in _vars(x):
                        dy = y[vn] if vn is not None else y
                        try:
                            dy2 = dy.reindex_like(dx).transpose(*dx.dims)
                            err = float(np.nanmax(np.abs(dy2.values - dx.values)))
                            if not err <= 1e-9 or np.isnan(dy2.values).any():
                                bad("roundtrip_values", "scaled round trip differs by %.3e (NaNs: %d)" % (err, int(np.isnan(dy2.values).sum())), flags="".join("TF"[not f] for f in case["flags"]))
                        except Exception as e:
                            bad("roundtrip_values", "cannot align reconstruction: %s" % type(e).__name__)
            return dict(violations=V, outcome="violation" if V else "ok", nontrivial=not V)
        # (1) the matrix is a genuine sample x feature unfolding
        Mv = np.asarray(M.transpose(sn, fn).values)
        rows = []
        for r in range(Mv.shape[0]):
            ts = [truth.get(float(c)) for c in Mv[r]]
            if any(t is None for t in ts):
                bad("matrix_cells", "matrix holds values that are no input cell")
                break
            sl = {tuple(sorted((d, l) for d, l in t[2].items() if d in S)) for t in ts}
            if len(sl) != 1:
                bad("matrix_rows", "one matrix row mixes samples %s" % list(sl)[:2])
                break
            rows.append(sl.pop())
        else:
            if len(set(rows)) != len(rows):
                bad("matrix_rows", "two matrix rows hold the same sample")
            allsamp = {tuple(sorted((d, l) for d, l in t[2].items() if d in S)) for t in truth.values()}
            if set(rows) != allsamp:
                bad("matrix_rows", "matrix rows are not a bijection onto the samples (%d vs %d)" % (len(set(rows)), len(allsamp)))
            cols = []
            for c in range(Mv.shape[1]):
                ts = [truth[float(x)] for x in Mv[:, c]]
                fl = {(t[0], t[1], tuple(sorted((d, l) for d, l in t[2].items() if d not in S))) for t in ts}
                if len(fl) != 1:
                    bad("matrix_cols", "one matrix column mixes features %s" % list(fl)[:2])
                    break
                cols.append(fl.pop())
            else:
                if len(set(cols)) != len(cols) or len(cols) != len({(t[0], t[1], tuple(sorted((d, l) for d, l in t[2].items() if d not in S))) for t in truth.values()}):
                    bad("matrix_cols", "matrix columns are not a bijection onto the features")
        # (2) data round trip, cell by cell
        n2 = 0
        if ok:
            probs, n2 = decode_cells(rec, truth)
            if probs:
                bad("data_cells", "inverse_transform_data: " + "; ".join(probs[:2]))
            elif n2 != len(truth):
                bad("data_cells", "inverse_transform_data returned %d of %d cells" % (n2, len(truth)))
        # (3) a row as a component, a column as a score series
        if V:
            return dict(violations=V, outcome="violation")
        r = min(1, Mv.shape[0] - 1)
        comp_in = M.isel({sn: r}, drop=True).expand_dims(mode=[1])
        comp = pp.inverse_transform_components(comp_in)
        if check_structure(V, bad, work, comp, "inverse_transform_components", drop=S, add=["mode"]):
            probs, nc = decode_cells(comp, truth, fixed=dict(rows[r]) if rows else None, skip_dims=("mode",))
            if probs:
                bad("component_cells", "inverse_transform_components: " + "; ".join(probs[:2]))
        c = min(1, Mv.shape[1] - 1)
        sc_in = M.isel({fn: c}, drop=True).expand_dims(mode=[1])
        sc = pp.inverse_transform_scores(sc_in)
        if not isinstance(sc, xr.DataArray) or set(sc.dims) != set(S) | {"mode"}:
            bad("score_dims", "inverse_transform_scores returned dims %s, expected %s" % (getattr(sc, "dims", None), sorted(set(S) | {"mode"})))
        else:
            labs = {d: [_lab(x) for x in sc[d].to_index().tolist()] for d in S}
            s2 = sc.transpose(*S, "mode")
            for idx in np.ndindex(*[s2.sizes[d] for d in S]):
                code = float(s2.values[idx + (0,)])
                t = truth.get(code)
                here = {d: labs[d][i] for d, i in zip(S, idx)}
                if t is None or any(t[2].get(d) != l for d, l in here.items()):
                    bad("score_cells", "score at %s holds the value of %s" % (here, t[2] if t else code))
                    break
    return dict(violations=V, outcome="violation" if V else "ok", nontrivial=not V and n2 > 0, info=dict(cells=len(truth)))


def _exc_at(e):
    import traceback

    tb = traceback.extract_tb(e.__traceback__)
    for fr in reversed(tb):
        if "/xeofs/" in fr.filename:
            return "%s:%s" % (fr.filename.split("/")[-1], fr.name)
    return "%s:%s" % (tb[-1].filename.split("/")[-1], tb[-1].name)


def _exc_text(e):
    return "%s: %s" % (type(e).__name__, str(e)[:300])


def run_case(case, seed):
    V = []
    feats = dict(container=case["container"], group=case["group"], mi=any(k == "mi" for _, k in case["kinds"]), names=case["names"], coords=case["coords"])
    if case["group"] == "list_order":
        feats["several_sample_dims"] = case["ns"] > 1
    if case.get("const"):
        feats["const_feature"] = True
    if case.get("grid"):
        feats["grid"] = case["grid"]
    if case["level"] == "cross":
        feats = dict(container=case["container"], group=case["group"], mi=case["skind"] == "mi", several_sample_dims=case["ns"] > 1)

    def bad(check, msg, **extra):
        V.append(viol(check, case["cls"] if case["level"] == "cross" else "EOF" if case["level"] == "model" else "Preprocessor", msg, **feats, **extra))

    try:
        return _run_case_inner(case, seed, V, bad)
    except Exception as e:
        if "/xeofs/" not in "".join(f.filename for f in __import__("traceback").extract_tb(e.__traceback__)) and "xarray" not in _exc_at(e):
            raise  # a harness error must not be reported as a property violation
        bad("raised", _exc_text(e), exc=type(e).__name__, at=_exc_at(e))
        return dict(violations=V, outcome="violation")


def _model_level(case, inp, S, truth, V, bad):
    import xeofs as xe

    rng = np.random.default_rng(3)

    def rnd(o):
        if isinstance(o, xr.Dataset):
            return o.map(lambda v: v.copy(data=rng.standard_normal(v.shape)))
        return o.copy(data=rng.standard_normal(o.shape))

    work = [rnd(o) for o in inp] if isinstance(inp, list) else rnd(inp)
    m = xe.single.EOF(n_modes=2, random_state=1)
    m.fit(work, dim=tuple(S))
    comps = m.components()
    check_structure(V, bad, work, comps, "components", drop=S, add=["mode"])
    for it in _items(comps):
        for vn, da in _vars(it):
            if bool(da.isnull().any()):
                bad("component_nan", "components() contains NaN for variable %s" % vn)
    sc = m.scores()
    if set(sc.dims) != set(S) | {"mode"}:
        bad("score_dims", "scores() dims %s" % (sc.dims,))
    else:
        x0 = _items(work)[0]
        x0 = x0[list(x0.data_vars)[0]] if isinstance(x0, xr.Dataset) else x0
        for d in S:
            if {_lab(v) for v in sc[d].to_index().tolist()} != {_lab(v) for v in x0[d].to_index().tolist()}:
                bad("labels", "scores(): labels of %s differ" % d, what="scores")
    rec = m.inverse_transform(sc)
    check_structure(V, bad, work, rec, "inverse_transform")
    return dict(violations=V, outcome="violation" if V else "ok", nontrivial=not V)


# ----------------------------------------------------------------------------- cross-set models: X and Y carry their own sample labels
# A lagged analysis pairs X(t) with Y(t + lag): both fields have the same number of samples but different sample labels
# (xeofs pairs them by position; cpcca.py renames the sample dims "to avoid conflicts for different coordinates with same
# length"). Every output of the second field must sit on the labels of the second field.

CROSS_REAL = ["MCA", "CCA", "RDA", "CPCCA"]
CROSS_Q = CROSS_REAL + ["MCARotator"]
CROSS_T = CROSS_Q + ["HilbertMCA", "HilbertCCA", "CPCCARotator", "HilbertMCARotator", "HilbertCPCCARotator"]
CROSS_PAIRS = ["da_da", "ds_da", "da_ds", "da_list"]
CROSS_HOW = ["lag", "disjoint"]
CROSS_LEN = {"time": 8, "run": 2, "member": 2, "lat": 2, "lon": 2, "x": 3}
CROSS_BASE = {"MCARotator": "MCA", "CPCCARotator": "CPCCA", "HilbertMCARotator": "HilbertMCA", "HilbertCPCCARotator": "HilbertCPCCA"}


def cross_variants(tier):
    """(ns, sample dims whose labels differ between X and Y)"""
    v = [(1, ["time"]), (2, ["time"]), (2, ["run"]), (2, ["time", "run"])]
    if tier == "thorough":
        v += [(3, ["time"]), (3, ["member"]), (3, ["time", "run", "member"])]
    return v


def cross_kinds(ns):
    return KINDS if ns == 1 else KINDS[:5]


def cross_cases(tier):
    out = []

    def add(group, cls, ns, ydims, kind, how, pair="da_da", use_pca=False, side=None):
        S = SDIMS[:ns]
        out.append(dict(level="cross", group=group, cls=cls, container=pair, ns=ns, nf=2, ydims=list(ydims), skind=kind, how=how, use_pca=use_pca, side=side,
                        kinds=[[d, kind if d in ydims else "int"] for d in S], coords="none", names="default"))

    variants = cross_variants(tier)
    # F: value-encodes-label on the scores: one field has a single feature whose values are unique codes of the sample labels;
    #    its mode-1 scores are then proportional to the centred codes, whatever the (linear) model
    for cls in CROSS_REAL:
        for side in ("y", "x"):
            for iv, (ns, ydims) in enumerate(variants):
                kk = cross_kinds(ns)
                full = tier == "thorough" or (side == "y" and cls == "MCA")
                for ik, kind in enumerate(kk):
                    for ih, how in enumerate(CROSS_HOW):
                        if not full:
                            # quick: MCA (coded X) and CCA (coded Y): every variant x index kind, lag kinds in turn;
                            # RDA/CPCCA (coded Y): every variant, index kinds and lag kinds in turn
                            if (cls, side) in (("MCA", "x"), ("CCA", "y")):
                                if ih != (iv + ik) % 2:
                                    continue
                            elif side == "x" or ik != (iv + CROSS_REAL.index(cls)) % len(kk) or ih != iv % 2:
                                continue
                        add("cross_code", cls, ns, ydims, kind, how, use_pca=bool((ik + ih + iv) % 2), side=side)
    # G: relation with the fit on the same numbers whose Y carries X's labels: all outputs equal value by value, on Y's own labels
    classes = CROSS_T if tier == "thorough" else CROSS_Q
    for ic, cls in enumerate(classes):
        for iv, (ns, ydims) in enumerate(variants):
            kk = cross_kinds(ns)
            if tier == "thorough":
                # every class x variant x index kind x lag kind; container pair and PCA in turn
                for ik, kind in enumerate(kk):
                    for ih, how in enumerate(CROSS_HOW):
                        j = ic + iv + ik + 2 * ih
                        add("cross_relabel", cls, ns, ydims, kind, how, pair=CROSS_PAIRS[j % 4], use_pca=bool((j // 2) % 2))
            else:
                # every class x variant once, index kind / lag kind / container pair / PCA in turn; MultiIndex once per class
                if cls in CROSS_BASE and iv in (1, 2):
                    continue  # rotators (the costly fits): one and all sample dims relabelled
                j = ic + iv
                add("cross_relabel", cls, ns, ydims, kk[j % 5], CROSS_HOW[j % 2], pair=CROSS_PAIRS[j % 4], use_pca=bool((j // 2) % 2))
                if ns == 1:
                    add("cross_relabel", cls, ns, ydims, "mi", CROSS_HOW[(j + 1) % 2], pair=CROSS_PAIRS[(j + 1) % 4], use_pca=bool(j % 2))
    return out


def cross_labels(kind, n, dim, how):
    """sample labels of a cross-set field: how='same' X's own; 'lag' shifted by one step (overlapping); 'disjoint'."""
    if kind == "mi":
        years = np.arange(2001, 2001 + n // 2) + {"same": 0, "lag": 1, "disjoint": 20}[how]
        letters = ["u", "v"] if how == "disjoint" else ["x", "y"]
        return pd.MultiIndex.from_product([years.tolist(), letters], names=(dim + "_a", dim + "_b"))
    base = labels_for(kind, n, dim)
    if how == "same":
        return base
    lag = how == "lag"
    if kind == "int":
        return base + (1 if lag else 100)
    if kind == "unsorted":
        return base + (3 if lag else 100)
    if kind == "str":
        return np.array([chr(ord(c) + (1 if lag else 10)) for c in base])
    if kind == "datetime_desc":
        return base + np.timedelta64(1 if lag else 1000, "D")
    if kind == "float_desc":
        return base + (1.5 if lag else 100.0)
    raise ValueError(kind)


def _cross_da(S, skinds, hows, fdims, values, name, reverse=False):
    flab = {"lat": np.array([3.25, 1.75]), "lon": np.array([10, 20]), "x": np.array(["p", "r", "q"])}
    labs = [cross_labels(skinds[d], CROSS_LEN[d], d, hows[d]) for d in S]
    sizes = [len(l) for l in labs] + [1 if f.endswith("1") else CROSS_LEN[f] for f in fdims]
    fnames = [f.rstrip("1") for f in fdims]
    da = xr.DataArray(np.asarray(values, dtype=float).reshape(sizes), dims=list(S) + fnames, name=name)
    for d, l in zip(S, labs):
        if isinstance(l, pd.MultiIndex):
            da = da.assign_coords(xr.Coordinates.from_pandas_multiindex(l, d))
        else:
            da = da.assign_coords({d: l})
    for f, fn in zip(fdims, fnames):
        da = da.assign_coords({fn: flab[fn][: da.sizes[fn]]})
    return da.transpose(*da.dims[::-1]) if reverse else da


def cross_fields(case, seed):
    """X, Y (own labels), Y with X's labels (same numbers), codes of the coded side (or None)."""
    S = SDIMS[: case["ns"]]
    skinds = dict(case["kinds"])
    same = {d: "same" for d in S}
    own = {d: (case["how"] if d in case["ydims"] else "same") for d in S}
    n = int(np.prod([CROSS_LEN[d] for d in S]))
    rng = np.random.default_rng([seed, 11])
    r = lambda k: rng.standard_normal(n * k)  # noqa: E731
    pair, side = case["container"], case.get("side")
    # unevenly spaced, so that no reordering of the samples combined with a sign flip maps the centred codes onto themselves
    codes = 101.0 + np.arange(n) ** 2
    if side == "x":
        xs = [(["lat1"], codes, "u")]
    else:
        xs = [(["lat", "lon"], r(4), "u")] + ([(["lat"], r(2), "v")] if pair == "ds_da" else [])
    if side == "y":
        ys = [(["x1"], codes + 1000, "a")]
    else:
        ys = [(["x"], r(3), "a")] + ([(["x"], r(3), "b")] if pair == "da_ds" else []) + ([(["lon"], r(2), "b")] if pair == "da_list" else [])

    def pack(items, hows, kind, reverse):
        das = [_cross_da(S, skinds, hows, fd, v, nm, reverse) for fd, v, nm in items]
        if kind == "ds":
            return xr.Dataset({str(d.name): d for d in das})
        if kind == "list":
            return das
        return das[0]

    kx, ky = pair.split("_")
    X = pack(xs, same, kx, False)
    Y = pack(ys, own, ky, True)
    Y0 = pack(ys, same, ky, True)
    return S, X, Y, Y0, (codes if side == "x" else codes + 1000 if side == "y" else None)


def _cross_model(case, X, Y, S):
    import xeofs as xe

    cls = case["cls"]
    kw = dict(use_pca=case["use_pca"], n_pca_modes=3, random_state=1)
    if case.get("side"):
        kw.update(n_modes=1, n_pca_modes=1)

    def make(name, n_modes):
        k = dict(kw, n_modes=kw.get("n_modes", n_modes))
        if name.endswith("CPCCA"):
            k["alpha"] = [0.5, 1.0] if case.get("side") != "x" else [1.0, 0.5]
        return getattr(xe.cross, name)(**k)

    if cls in CROSS_BASE:
        base = make(CROSS_BASE[cls], 3)
        base.fit(X, Y, dim=tuple(S))
        m = getattr(xe.cross, cls)(n_modes=2, power=1)
        m.fit(base)
        return m
    m = make(cls, 2)
    m.fit(X, Y, dim=tuple(S))
    return m


def _cells(da, S):
    """{sample label tuple: values over the remaining dims} of a scores-like DataArray."""
    rest = [d for d in da.dims if d not in S]
    labs = [[_lab(x) for x in da[d].to_index().tolist()] for d in S]
    v = np.asarray(da.transpose(*S, *rest).values)
    return {tuple(labs[k][i] for k, i in enumerate(idx)): v[idx] for idx in np.ndindex(*v.shape[: len(S)])}


def _score_structure(bad, sc, ref, S, what):
    """scores: a DataArray over the sample dims + 'mode', label sets equal to those of its own field, no NaN."""
    r0 = _items(ref)[0]
    r0 = r0[list(r0.data_vars)[0]] if isinstance(r0, xr.Dataset) else r0
    if not isinstance(sc, xr.DataArray) or set(sc.dims) != set(S) | {"mode"}:
        bad("score_dims", "%s: dims %s, expected %s" % (what, getattr(sc, "dims", None), sorted(set(S) | {"mode"})), what=what)
        return False
    ok = True
    for d in S:
        got = {_lab(v) for v in sc[d].to_index().tolist()}
        want = {_lab(v) for v in r0[d].to_index().tolist()}
        if got != want:
            bad("labels", "%s: labels of %s are not those of the field itself: %s unexpected, %s missing" % (what, d, sorted(map(str, got - want))[:3], sorted(map(str, want - got))[:3]), what=what)
            ok = False
    if bool(sc.isnull().any()):
        bad("score_nan", "%s: %d NaN cells" % (what, int(sc.isnull().sum())), what=what)
        ok = False
    return ok


def _same_cells(bad, a, b, S, lmap, what, check):
    """cells of `a` (labels translated through lmap per dim) equal the cells of `b`."""
    ca, cb = _cells(a, S), _cells(b.transpose(*a.dims), S)
    ca = {tuple(lmap[d].get(l, l) if d in lmap else l for d, l in zip(S, k)): v for k, v in ca.items()}
    if set(ca) != set(cb):
        bad(check, "%s: label tuples differ from the reference fit" % what, what=what)
        return
    scale = max(max(float(np.max(np.abs(v))) for v in cb.values()), 1e-300)
    err = max(float(np.max(np.abs(ca[k] - cb[k]))) for k in cb)
    if not err <= 1e-9 * scale:
        worst = max(cb, key=lambda k: float(np.max(np.abs(ca[k] - cb[k]))))
        bad(check, "%s: value at the label paired with %s differs from the fit whose Y carries X's labels by %.2e (scale %.2e)" % (what, worst, err, scale), what=what)


def _cross_level(case, seed, V, bad):
    S, X, Y, Y0, codes = cross_fields(case, seed)
    m = _cross_model(case, X, Y, S)
    sx, sy = m.scores()
    okx = _score_structure(bad, sx, X, S, "scores X")
    oky = _score_structure(bad, sy, Y, S, "scores Y")
    px, py = m.components()
    check_structure(V, bad, X, px, "components X", drop=S, add=["mode"])
    check_structure(V, bad, Y, py, "components Y", drop=S, add=["mode"])
    for what, p in (("X", px), ("Y", py)):
        for it in _items(p):
            for vn, da in _vars(it):
                if bool(da.isnull().any()):
                    bad("component_nan", "components %s contain NaN for variable %s" % (what, vn), what="components " + what)
    # complex families: amplitude and phase of the scores / components are outputs of the same kind
    for meth in ("scores_amplitude", "scores_phase"):
        if hasattr(m, meth):
            ax, ay = getattr(m, meth)()
            _score_structure(bad, ax, X, S, meth + " X")
            _score_structure(bad, ay, Y, S, meth + " Y")
    for meth in ("components_amplitude", "components_phase"):
        if hasattr(m, meth):
            ax, ay = getattr(m, meth)()
            check_structure(V, bad, X, ax, meth + " X", drop=S, add=["mode"])
            check_structure(V, bad, Y, ay, meth + " Y", drop=S, add=["mode"])
    rec = m.inverse_transform(sx, sy) if okx and oky else None
    if rec is not None:
        if not isinstance(rec, (list, tuple)) or len(rec) != 2:
            bad("container", "inverse_transform(X, Y) returned %s" % type(rec).__name__, what="inverse_transform")
        else:
            check_structure(V, bad, X, rec[0], "inverse_transform X")
            check_structure(V, bad, Y, rec[1], "inverse_transform Y")
    ncmp = 0
    if case["group"] == "cross_code":
        # value-encodes-label: the coded field has one feature, so its scores are a * (code - mean) with one constant a != 0
        sc, ok = (sx, okx) if case["side"] == "x" else (sy, oky)
        fld = X if case["side"] == "x" else Y
        if ok:
            truth = {k: float(np.ravel(v)[0]) for k, v in _cells(fld, S).items()}
            got = {k: float(np.ravel(v)[0]) for k, v in _cells(sc.isel(mode=[0]), S).items()}
            cm = float(np.mean(list(truth.values())))
            amp = np.sqrt(sum(v * v for v in got.values()) / sum((c - cm) ** 2 for c in truth.values()))
            if not amp > 0:
                bad("score_cells", "scores of the single-feature field vanish", what="scores " + case["side"].upper())
            else:
                best = None
                for sgn in (1.0, -1.0):
                    wrong = [(k, got[k] / (sgn * amp) + cm) for k in got if abs(got[k] / (sgn * amp) + cm - truth[k]) > 1e-6]
                    if best is None or len(wrong) < len(best):
                        best = wrong
                ncmp = len(got)
                if best:
                    k, c = best[0]
                    inv = {round(v, 3): kk for kk, v in truth.items()}
                    bad("score_cells", "score at %s decodes to %.3f = the sample %s (%d of %d cells wrong)" % (k, c, inv.get(round(c, 3), "of no label"), len(best), len(got)), what="scores " + case["side"].upper())
    else:
        m0 = _cross_model(case, X, Y0, S)
        sx0, sy0 = m0.scores()
        lmap = {}
        for d in S:
            if d in case["ydims"]:
                y0 = _items(Y)[0]
                y0 = y0[list(y0.data_vars)[0]] if isinstance(y0, xr.Dataset) else y0
                z0 = _items(Y0)[0]
                z0 = z0[list(z0.data_vars)[0]] if isinstance(z0, xr.Dataset) else z0
                lmap[d] = dict(zip([_lab(v) for v in y0[d].to_index().tolist()], [_lab(v) for v in z0[d].to_index().tolist()]))
        if okx:
            _same_cells(bad, sx, sx0, S, {}, "scores X", "score_cells")
        if oky:
            _same_cells(bad, sy, sy0, S, lmap, "scores Y", "score_cells")
            ncmp = sy.size
        px0, py0 = m0.components()
        if not V:
            for what, p, p0 in (("X", px, px0), ("Y", py, py0)):
                for a, b in zip(_items(p), _items(p0)):
                    for vn, da in _vars(a):
                        db = b[vn] if vn is not None else b
                        fd = [d for d in da.dims if d != "mode"]
                        _same_cells(bad, da, db, fd, {}, "components %s %s" % (what, vn or ""), "component_cells")
    return dict(violations=V, outcome="violation" if V else "ok", nontrivial=not V and ncmp > 0, info=dict(cells=ncmp, group=case["group"]))



def vacuity(outcomes, results, tier):
    if outcomes.get("ok", 0) < 100:
        return "fewer than 100 structures were decoded"
    for g in ("cross_code", "cross_relabel"):
        rs = [r for r in results if (r.get("info") or {}).get("group") == g]
        if rs and not any(r.get("violations") or (r.get("nontrivial") and r["info"].get("cells", 0) > 0) for r in rs):
            return "no cross-set case of group %s compared any score" % g
    return None
