"""Explorer S: a controlled, sequential dask scheduler (DESIGN 1, C12).

Installed with dask.config.set(scheduler=ControlledScheduler(...)).  Every graph xeofs submits is executed one task at a
time; at each step the ready tasks form a stack (most recently enabled on top, ties ordered by a *structural* hash of the
task so that the numbering does not depend on dask's random key tokens).  Choice 0 is the top of the stack (what dask's
local scheduler would do next: LIFO); any other choice is a deviation.  A prescription {global_step: choice} replays a
schedule; steps not mentioned take choice 0.  Out-of-range choices are a hard error (divergence while replaying).
"""

from __future__ import annotations

import hashlib

from dask._task_spec import DependenciesMapping, convert_legacy_graph
from dask.utils import key_split


class ScheduleDivergence(Exception):
    pass


def _h(*parts):
    return hashlib.sha1(repr(parts).encode()).hexdigest()[:16]


def structural_hashes(g, deps):
    """key -> hash of (name prefix without token, chunk indices, hashes of dependencies), bottom-up."""
    out = {}

    def visit(k):
        stack = [(k, False)]
        while stack:
            node, expanded = stack.pop()
            if node in out:
                continue
            ds = list(deps[node])
            if not expanded:
                stack.append((node, True))
                for d in ds:
                    if d not in out:
                        stack.append((d, False))
            else:
                if isinstance(node, tuple):
                    pre, idx = key_split(node[0]), tuple(x for x in node[1:] if isinstance(x, int))
                else:
                    pre, idx = key_split(node), ()
                out[node] = _h(pre, idx, tuple(sorted(out[d] for d in ds)))

    for k in g:
        visit(k)
    return out


class ControlledScheduler:
    def __init__(self, prescription=None, record_states=True):
        self.prescription = dict(prescription or {})
        self.calls = 0  # number of times xeofs (or xarray on its behalf) invoked the scheduler
        self.steps = []  # per global step: number of ready tasks
        self.choices = []  # per global step: the choice taken
        self.graph_sizes = []
        self.states = set() if record_states else None
        self.tasks_run = 0
        self.used = set()

    # dask calls this as get(dsk, keys, **kwargs)
    def __call__(self, dsk, keys, **kwargs):
        self.calls += 1
        g = dsk.__dask_graph__() if hasattr(dsk, "__dask_graph__") else dsk
        g = convert_legacy_graph(dict(g))
        deps = DependenciesMapping(g)
        sh = structural_hashes(g, deps)
        self.graph_sizes.append(len(g))
        dependents = {k: [] for k in g}
        waiting = {}
        for k in g:
            ds = set(deps[k])
            waiting[k] = len(ds)
            for d in ds:
                dependents[d].append(k)
        refcount = {k: len(dependents[k]) for k in g}
        wanted = set(_flatten(keys))
        stack = sorted([k for k in g if waiting[k] == 0], key=lambda k: (sh[k], str(k)), reverse=True)
        cache = {}
        done_hashes = []
        ndone = 0
        while stack:
            step = len(self.steps)
            n = len(stack)
            c = self.prescription.get(step, 0)
            if step in self.prescription:
                self.used.add(step)
            if c >= n:
                raise ScheduleDivergence("step %d: choice %d but only %d ready tasks" % (step, c, n))
            self.steps.append(n)
            self.choices.append(c)
            k = stack.pop(n - 1 - c)
            t = g[k]
            cache[k] = t({d: cache[d] for d in deps[k]})
            self.tasks_run += 1
            ndone += 1
            if self.states is not None:
                done_hashes.append(sh[k])
                self.states.add(_h(self.calls, tuple(sorted(done_hashes))))
            newly = []
            for dd in dependents[k]:
                waiting[dd] -= 1
                if waiting[dd] == 0:
                    newly.append(dd)
            newly.sort(key=lambda kk: (sh[kk], str(kk)), reverse=True)
            stack.extend(newly)
            for d in set(deps[k]):
                refcount[d] -= 1
                if refcount[d] == 0 and d not in wanted:
                    cache.pop(d, None)
        if ndone != len(g):
            raise RuntimeError("controlled scheduler: %d of %d tasks ran (cycle?)" % (ndone, len(g)))
        return _collect(keys, cache)

    def check_prescription_consumed(self):
        missing = set(self.prescription) - self.used
        if missing:
            raise ScheduleDivergence("prescribed steps %s were never reached (%d steps ran)" % (sorted(missing), len(self.steps)))


def _flatten(keys):
    if isinstance(keys, list):
        for k in keys:
            yield from _flatten(k)
    else:
        yield keys


def _collect(keys, cache):
    if isinstance(keys, list):
        return [_collect(k, cache) for k in keys]
    return cache[keys]
