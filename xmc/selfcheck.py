"""MANIFEST.setup_cmd: nothing to build (pure Python); verify environment, shim and determinism."""

import hashlib
import json
import os
import subprocess
import sys

HERE = os.path.dirname(os.path.dirname(os.path.abspath(__file__)))


def digest_cases():
    """Run the first and the last quick case of every property module present; return a digest of the observations."""
    import glob
    import importlib

    from . import core

    out = {}
    for f in sorted(glob.glob(os.path.join(HERE, "xmc", "props", "c[0-9]*.py"))):
        pid = os.path.basename(f)[:-3].upper()
        mod = importlib.import_module("xmc.props." + pid.lower())
        cs = mod.cases("quick", 0) if hasattr(mod, "cases") else next(mod.rounds("quick", 0))
        core._init_worker(mod.__name__, 0)
        for idx in (0, len(cs) - 1):
            r = core.run_one(mod, cs[idx], 0)
            out["%s[%d]" % (pid, idx)] = [r["outcome"], sorted(core.sig_of(v) for v in r["violations"]), core._jsonable(r.get("info", {}))]
    return hashlib.sha1(json.dumps(out, sort_keys=True).encode()).hexdigest(), out


def main():
    if len(sys.argv) > 2 and sys.argv[2] == "--digest":
        d, _ = digest_cases()
        print(d)
        return 0
    import xeofs as xe

    xe.cross.CPCCA(n_modes=1)  # needs the statsmodels import shim
    import dask, numpy, scipy, sklearn, xarray  # noqa

    print("xeofs", xe.__version__, "from", os.path.dirname(xe.__file__))
    ds = []
    for _ in range(2):
        p = subprocess.run([os.path.join(HERE, "check"), "selfcheck", "--digest"], capture_output=True, text=True)
        if p.returncode != 0:
            print(p.stdout, p.stderr)
            return 2
        ds.append(p.stdout.strip().splitlines()[-1])
    if ds[0] != ds[1]:
        print("selfcheck: two separate processes observed different results:", ds)
        return 2
    print("selfcheck ok: digest", ds[0])
    return 0
