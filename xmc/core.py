"""Runner core: deterministic sharded exploration, known-findings matching, evidence, replay.

A property module (xmc/props/cXX.py) exposes

    ID, LEVEL, RULE, ASSUMPTIONS, TECHNIQUE
    cases(tier, seed)   -> list of JSON-able case descriptors, simplest first
    run_case(case, seed)-> dict(violations=[...], outcome=str, nontrivial=bool,
                                states=int, transitions=int, traces=int, info={...})
    finalize(cases, results, tier, seed) -> (extra_violations, extra_coverage)   [optional]
    VACUITY(outcomes, results) -> str|None                                        [optional]

A violation is dict(check=str, model=str, features={...small discriminating dict...}, msg=str).
"""

from __future__ import annotations

import hashlib
import importlib
import json
import multiprocessing as mp
import os
import resource
import signal
import sys
import time
import traceback
from collections import Counter

HERE = os.path.dirname(os.path.dirname(os.path.abspath(__file__)))
EVIDENCE_DIR = os.environ.get("XMC_EVIDENCE_DIR", os.path.join(HERE, "evidence"))
REPLAY_DIR = os.environ.get("XMC_REPLAY_DIR", os.path.join(HERE, "replays"))
FINDINGS_FILE = os.path.join(HERE, "known_findings.json")

CASE_TIMEOUT_S = int(os.environ.get("XMC_CASE_TIMEOUT", "120"))
MEM_LIMIT = int(os.environ.get("XMC_MEM_LIMIT_GB", "6")) * (1 << 30)
MAX_REPLAYS = 25


class CaseTimeout(Exception):
    pass


def _alarm(signum, frame):
    raise CaseTimeout("case exceeded %d s" % CASE_TIMEOUT_S)


def viol(check, model, msg, **features):
    return dict(check=check, model=model, features=_jsonable(features), msg=str(msg)[:600])


def _jsonable(x):
    import numpy as np

    if isinstance(x, dict):
        return {str(k): _jsonable(v) for k, v in x.items()}
    if isinstance(x, (list, tuple)):
        return [_jsonable(v) for v in x]
    if isinstance(x, (np.integer,)):
        return int(x)
    if isinstance(x, (np.floating,)):
        return float(x)
    if isinstance(x, (np.bool_,)):
        return bool(x)
    if isinstance(x, complex):
        return [x.real, x.imag]
    if x is None or isinstance(x, (str, int, float, bool)):
        return x
    return repr(x)


def sig_of(v):
    return json.dumps([v["check"], v["model"], v["features"]], sort_keys=True)


def load_findings(prop_id):
    if not os.path.exists(FINDINGS_FILE):
        return []
    with open(FINDINGS_FILE) as f:
        allf = json.load(f)
    return [e for e in allf.get("findings", []) if e["property"] == prop_id and e.get("status") == "known"]


def match_finding(v, findings):
    for e in findings:
        s = e["signature"]
        if s["check"] != v["check"]:
            continue
        if "model" in s and s["model"] != v["model"]:
            continue
        ok = True
        for k, want in s.get("where", {}).items():
            if v["features"].get(k, "<absent>") != want:
                ok = False
                break
        if ok:
            return e
    return None


# ----------------------------------------------------------------------------- workers

_MOD = None
_SEED = 0


def _init_worker(modname, seed):
    global _MOD, _SEED
    _MOD = importlib.import_module(modname)
    _SEED = seed
    try:
        resource.setrlimit(resource.RLIMIT_AS, (MEM_LIMIT, MEM_LIMIT))
    except Exception:
        pass
    signal.signal(signal.SIGALRM, _alarm)


def _exc_violation(case, e):
    tb = traceback.extract_tb(e.__traceback__)
    where = ""
    for fr in reversed(tb):
        if "/xeofs/" in fr.filename:
            where = "%s:%s" % (os.path.basename(fr.filename), fr.name)
            break
    if not where and tb:
        where = "%s:%s" % (os.path.basename(tb[-1].filename), tb[-1].name)
    return viol(
        "raised",
        str(case.get("model", "?")),
        "%s: %s\n%s" % (type(e).__name__, e, "".join(traceback.format_tb(e.__traceback__)[-4:])),
        exc=type(e).__name__,
        at=where,
    )


def run_one(mod, case, seed):
    import numpy as np

    cs = int(hashlib.sha1(json.dumps(case, sort_keys=True).encode()).hexdigest()[:8], 16)
    np.random.seed((cs + seed) % (2**32))
    try:
        signal.alarm(CASE_TIMEOUT_S)
        try:
            r = mod.run_case(case, seed)
        finally:
            signal.alarm(0)
    except (CaseTimeout, MemoryError) as e:
        r = dict(violations=[viol("resource", str(case.get("model", "?")), repr(e), kind=type(e).__name__)], outcome="resource")
    except Exception as e:  # an exception escaping the property's own handling on a valid input
        r = dict(violations=[_exc_violation(case, e)], outcome="raised:" + type(e).__name__)
    r.setdefault("violations", [])
    r.setdefault("outcome", "ok")
    r.setdefault("nontrivial", not r["violations"] and r["outcome"] not in ("refused", "resource"))
    return r


def _work(item):
    i, case = item
    return i, run_one(_MOD, case, _SEED)


# ----------------------------------------------------------------------------- main entry


def load_prop(prop_id):
    return importlib.import_module("xmc.props." + prop_id.lower())


def check(prop_id, tier, seed, workers=None):
    t0 = time.time()
    mod = load_prop(prop_id)
    ncpu = os.cpu_count() or 4
    W = workers or int(os.environ.get("XMC_WORKERS", str(min(16, ncpu))))

    def run_batch(batch, pool):
        res = [None] * len(batch)
        if pool is None:
            for i, c in enumerate(batch):
                res[i] = run_one(mod, c, seed)
        else:
            chunk = max(1, min(16, len(batch) // (W * 8)))
            for i, r in pool.imap_unordered(_work, list(enumerate(batch)), chunksize=chunk):
                res[i] = r
        return res

    pool = None
    if W > 1:
        pool = mp.get_context("fork").Pool(W, initializer=_init_worker, initargs=(mod.__name__, seed))
    else:
        _init_worker(mod.__name__, seed)
    try:
        if hasattr(mod, "rounds"):
            # breadth-first exploration in rounds: the module yields a frontier, receives its results, yields the next
            cases, results = [], []
            gen = mod.rounds(tier, seed)
            batch = next(gen)
            while True:
                res = run_batch(batch, pool)
                cases.extend(batch)
                results.extend(res)
                try:
                    batch = gen.send(res)
                except StopIteration:
                    break
        else:
            cases = mod.cases(tier, seed)
            results = run_batch(cases, pool)
    finally:
        if pool is not None:
            pool.terminate()
            pool.join()

    extra_cov = {}
    extra_viol = []
    if hasattr(mod, "finalize"):
        extra_viol, extra_cov = mod.finalize(cases, results, tier, seed)

    findings = load_findings(prop_id)
    seen_known = {}
    unknown = {}  # sig -> (case, violation)
    n_viol = 0
    for i, (c, r) in enumerate(zip(cases, results)):
        for v in r["violations"]:
            n_viol += 1
            e = match_finding(v, findings)
            if e is not None:
                seen_known.setdefault(e["id"], (e, c, v))
            else:
                unknown.setdefault(sig_of(v), (c, v))
    for v in extra_viol:
        n_viol += 1
        e = match_finding(v, findings)
        if e is not None:
            seen_known.setdefault(e["id"], (e, v.get("case"), v))
        else:
            unknown.setdefault(sig_of(v), (v.get("case"), v))

    if os.environ.get("XMC_SUMMARY"):
        cnt = Counter()
        first = {}
        for c, r in zip(cases, results):
            for v in r["violations"]:
                k = (v["check"], v["model"], json.dumps(v["features"], sort_keys=True))
                cnt[k] += 1
                first.setdefault(k, (c, v["msg"]))
        for k, n in sorted(cnt.items(), key=lambda kv: (-kv[1], kv[0])):
            print("SUMMARY %5d  %s %s %s" % ((n,) + k))
            if os.environ.get("XMC_SUMMARY") == "2":
                print("        e.g. %s\n        %s" % (json.dumps(first[k][0], sort_keys=True), first[k][1].replace("\n", " | ")[:400]))
    outcomes = Counter(r["outcome"] for r in results)
    nontriv_keys = set()
    for c, r in zip(cases, results):
        if r.get("nontrivial"):
            nontriv_keys.add(json.dumps(c, sort_keys=True))
    vac = None
    if hasattr(mod, "vacuity"):
        vac = mod.vacuity(outcomes, results, tier)
    refused = sum(n for o, n in outcomes.items() if o.startswith("refused"))
    if vac is None and cases and refused > getattr(mod, "MAX_REFUSED_FRACTION", 0.10) * len(cases):
        vac = "%d of %d cases refused" % (refused, len(cases))

    # ------------------------------------------------------------------ evidence
    cov = {}
    samples = []
    if cases:
        for idx in sorted({0, len(cases) // 2, len(cases) - 1}):
            samples.append(dict(case=cases[idx], outcome=results[idx]["outcome"], info=results[idx].get("info", {})))
    cov["evaluations"] = len(cases)
    cov["distinct_nontrivial"] = len(nontriv_keys)
    cov["rule"] = mod.RULE
    cov["samples"] = _jsonable(samples)
    cov["exhaustive"] = bool(getattr(mod, "EXHAUSTIVE", True)) and "resource" not in outcomes
    cov["distinct_outcomes"] = dict(outcomes)
    if mod.LEVEL == "model_checking":
        cov["states"] = int(sum(r.get("states", 0) for r in results)) + int(extra_cov.pop("states", 0))
        cov["transitions"] = int(sum(r.get("transitions", 0) for r in results)) + int(extra_cov.pop("transitions", 0))
        cov["traces_validated_against_impl"] = int(sum(r.get("traces", 0) for r in results)) + int(extra_cov.pop("traces", 0))
    tallies = {}
    for key in getattr(mod, "TALLY_KEYS", ()):
        tallies[key] = dict(Counter(str(c.get(key)) for c in cases))
    if tallies:
        cov["tallies"] = tallies
    cov["trusted_base"] = list(getattr(mod, "TRUSTED", [])) + ["numpy/scipy reference computations", "xarray label semantics"]
    cov["known_findings_reobserved"] = sorted(seen_known)
    cov.update(_jsonable(extra_cov))
    if vac:
        cov["vacuous"] = vac
    ev = dict(
        property_id=prop_id,
        tier=tier,
        seed=int(seed),
        level=mod.LEVEL,
        coverage=cov,
        assumptions=list(mod.ASSUMPTIONS),
        wall_s=round(time.time() - t0, 2),
        violations=len(unknown),
    )
    os.makedirs(EVIDENCE_DIR, exist_ok=True)
    with open(os.path.join(EVIDENCE_DIR, prop_id + ".json"), "w") as f:
        json.dump(ev, f, indent=1, sort_keys=True)

    # ------------------------------------------------------------------ report
    print(
        "%s %s seed=%d cases=%d nontrivial=%d outcomes=%s wall=%.1fs"
        % (prop_id, tier, seed, len(cases), len(nontriv_keys), dict(outcomes), time.time() - t0)
    )
    if mod.LEVEL == "model_checking":
        print("  states=%d transitions=%d traces_validated=%d" % (cov["states"], cov["transitions"], cov["traces_validated_against_impl"]))
    for fid, (e, c, v) in sorted(seen_known.items()):
        print("KNOWN-FINDING: property=%s %s [%s]" % (prop_id, e["what"], fid))
    rc = 0
    if unknown:
        os.makedirs(os.path.join(REPLAY_DIR, prop_id), exist_ok=True)
        for k, (sig, (c, v)) in enumerate(unknown.items()):
            if k >= MAX_REPLAYS:
                print("... %d further distinct violation signatures not written out" % (len(unknown) - MAX_REPLAYS))
                break
            h = hashlib.sha1(sig.encode()).hexdigest()[:12]
            path = os.path.join(REPLAY_DIR, prop_id, h + ".json")
            with open(path, "w") as f:
                json.dump(dict(property=prop_id, seed=int(seed), tier=tier, case=c, violation=v), f, indent=1, sort_keys=True)
            print("VIOLATION property=%s replay=%s" % (prop_id, path))
            print("    check=%s model=%s features=%s\n    %s" % (v["check"], v["model"], json.dumps(v["features"], sort_keys=True), v["msg"].replace("\n", "\n    ")[:500]))
        rc = 1
    elif vac:
        print("VACUOUS property=%s: %s" % (prop_id, vac))
        rc = 2
    return rc


def replay(path):
    with open(path) as f:
        rp = json.load(f)
    mod = load_prop(rp["property"])
    case = rp["case"]
    if case is None:
        print("replay: violation came from a cross-case finalize step; rerun the check itself")
        return 2
    _init_worker(mod.__name__, rp["seed"])
    r1 = run_one(mod, case, rp["seed"])
    r2 = run_one(mod, case, rp["seed"])
    s1 = sorted(sig_of(v) for v in r1["violations"])
    s2 = sorted(sig_of(v) for v in r2["violations"])
    if s1 != s2:
        print("NONDETERMINISM: two replays of the same case disagree\n  %s\n  %s" % (s1, s2))
        return 2
    print("case:", json.dumps(case, sort_keys=True))
    findings = load_findings(rp["property"])
    bad = [v for v in r1["violations"] if match_finding(v, findings) is None]
    for v in r1["violations"]:
        tag = "VIOLATION" if v in bad else "KNOWN-FINDING:"
        print("%s property=%s replay=%s\n    check=%s model=%s features=%s\n    %s" % (tag, rp["property"], path, v["check"], v["model"], json.dumps(v["features"], sort_keys=True), v["msg"]))
    if not r1["violations"]:
        print("replay: no violation on this tree (outcome=%s)" % r1["outcome"])
    return 1 if bad else 0
