"""White-box fingerprints of live objects and label-keyed comparison of public answers (DESIGN 4.2, C13/C14)."""

from __future__ import annotations

import hashlib

import numpy as np
import pandas as pd
import xarray as xr

SKIP_ATTRS = ("date",)


def _is_dask(a):
    return type(a).__module__.startswith("dask")


def _hash_bytes(b):
    return hashlib.sha1(b).hexdigest()[:16]


def _arr_digest(a):
    if _is_dask(a):
        return ("dask", str(a.dtype), tuple(a.shape), tuple(map(tuple, a.chunks)))
    a = np.asarray(a)
    if a.dtype == object:
        return ("obj", tuple(a.shape), _hash_bytes(repr(a.tolist()).encode()))
    return (str(a.dtype), tuple(a.shape), _hash_bytes(np.ascontiguousarray(a).tobytes()))


def _attrs_digest(attrs):
    return tuple(sorted((str(k), repr(v)) for k, v in attrs.items() if k not in SKIP_ATTRS))


def fp_xr(o):
    if isinstance(o, xr.DataArray):
        coords = tuple(sorted((str(k), tuple(map(str, v.dims)), _arr_digest(v.data if not isinstance(v.to_index() if v.ndim == 1 else None, pd.MultiIndex) else np.asarray(v.values)), _attrs_digest(v.attrs)) for k, v in o.coords.items()))
        return ("DA", str(o.name), tuple(map(str, o.dims)), _arr_digest(o.data), coords, _attrs_digest(o.attrs))
    if isinstance(o, xr.Dataset):
        return ("DS", tuple(sorted((str(k), fp_xr(v)) for k, v in o.data_vars.items())), tuple(sorted((str(k), fp_xr(v)) for k, v in o.coords.items())), _attrs_digest(o.attrs))
    if isinstance(o, xr.DataTree):
        return ("DT", str(o.name), fp_xr(o.to_dataset()), tuple(sorted((k, fp_xr(v)) for k, v in o.children.items())))
    raise TypeError(type(o))


def fingerprint(obj, _seen=None, _depth=0):
    """Recursive structural digest of a live object graph (types, container shapes, array digests)."""
    if _seen is None:
        _seen = {}
    if obj is None or isinstance(obj, (bool, int, float, complex, str, bytes)):
        return obj if not isinstance(obj, float) else repr(obj)
    if isinstance(obj, (np.generic,)):
        return repr(obj.item())
    if isinstance(obj, (xr.DataArray, xr.Dataset, xr.DataTree)):
        return fp_xr(obj)
    if isinstance(obj, np.ndarray) or _is_dask(obj):
        return _arr_digest(obj)
    if isinstance(obj, pd.Index):
        return ("Index", _hash_bytes(repr(obj.tolist()).encode()))
    if isinstance(obj, xr.Coordinates):
        return ("Coords", tuple(sorted((str(k), fp_xr(v)) for k, v in obj.items())))
    if isinstance(obj, type):
        return ("class", obj.__name__)
    if callable(obj) and not hasattr(obj, "__dict__"):
        return ("callable", getattr(obj, "__name__", "?"))
    oid = id(obj)
    if oid in _seen:
        return ("ref", _seen[oid])
    _seen[oid] = len(_seen)
    if _depth > 12:
        return ("deep", type(obj).__name__)
    if isinstance(obj, dict):
        extra = ()
        if hasattr(obj, "__dict__") and obj.__dict__:
            extra = (("__dict__", fingerprint(obj.__dict__, _seen, _depth + 1)),)
        return (type(obj).__name__, tuple((repr(k), fingerprint(v, _seen, _depth + 1)) for k, v in sorted(obj.items(), key=lambda kv: repr(kv[0]))), extra)
    if isinstance(obj, (list, tuple)):
        return (type(obj).__name__, tuple(fingerprint(v, _seen, _depth + 1) for v in obj))
    if isinstance(obj, (set, frozenset)):
        return (type(obj).__name__, tuple(sorted(repr(v) for v in obj)))
    if hasattr(obj, "__dict__"):
        items = []
        for k, v in sorted(vars(obj).items()):
            if k == "attrs" and isinstance(v, dict):
                v = {a: b for a, b in v.items() if a not in SKIP_ATTRS}
            items.append((k, fingerprint(v, _seen, _depth + 1)))
        return (type(obj).__name__, tuple(items))
    return ("repr", type(obj).__name__, repr(obj)[:200])


def fp_hash(obj):
    return hashlib.sha1(repr(fingerprint(obj)).encode()).hexdigest()[:20]


# ----------------------------------------------------------------------------- answer comparison


def _label_set(c):
    idx = c.to_index()
    return set(idx.tolist())


def compare_da(a, b, tol=1e-10, what="", attrs=True, name=True, allow_missing_nan_samples=False):
    """Return a list of textual differences between DataArrays a (reference) and b. Dimension order is not compared."""
    diffs = []
    if not isinstance(b, xr.DataArray) or not isinstance(a, xr.DataArray):
        return ["%s: type %s vs %s" % (what, type(a).__name__, type(b).__name__)]
    if set(a.dims) != set(b.dims):
        return ["%s: dims %s vs %s" % (what, a.dims, b.dims)]
    for d in a.dims:
        if (d in a.coords) != (d in b.coords):
            return ["%s: dim %s coordinate presence differs" % (what, d)]
        if d in a.coords:
            la, lb = _label_set(a.coords[d]), _label_set(b.coords[d])
            if la != lb or a.sizes[d] != b.sizes[d]:
                return ["%s: labels of %s differ (%d vs %d; only in ref %s; only in other %s)" % (what, d, a.sizes[d], b.sizes[d], sorted(la - lb, key=repr)[:4], sorted(lb - la, key=repr)[:4])]
        elif a.sizes[d] != b.sizes[d]:
            return ["%s: size of %s differs" % (what, d)]
    try:
        b2 = b.reindex_like(a).transpose(*a.dims)
    except Exception as e:  # duplicate labels: fall back to positional comparison
        b2 = b.transpose(*a.dims)
        if not all(np.array_equal(np.asarray(a[d].values, dtype=object), np.asarray(b2[d].values, dtype=object)) for d in a.dims if d in a.coords):
            return ["%s: cannot align labels (%s)" % (what, type(e).__name__)]
    av, bv = np.asarray(a.values), np.asarray(b2.values)
    if av.dtype.kind in "OUS" or bv.dtype.kind in "OUS":
        if not np.array_equal(av.astype(str), bv.astype(str)):
            diffs.append("%s: non-numeric values differ" % what)
    else:
        na, nb = np.isnan(av), np.isnan(bv)
        if not np.array_equal(na, nb):
            diffs.append("%s: NaN pattern differs (%d vs %d NaNs)" % (what, na.sum(), nb.sum()))
        else:
            sc = max(float(np.nanmax(np.abs(av))) if av.size and not na.all() else 0.0, 1e-300)
            with np.errstate(invalid="ignore"):
                err = np.nanmax(np.abs(av - bv)) / sc if av.size and not na.all() else 0.0
            if not err <= tol:
                diffs.append("%s: values differ, max rel err %.3e" % (what, err))
        if np.iscomplexobj(av) != np.iscomplexobj(bv):
            diffs.append("%s: complex vs real dtype" % what)
    if name and a.name != b.name:
        diffs.append("%s: name %r vs %r" % (what, a.name, b.name))
    if attrs:
        aa, ab = _attrs_digest(a.attrs), _attrs_digest(b.attrs)
        if aa != ab:
            da_, db_ = dict(aa), dict(ab)
            ks = [k for k in sorted(set(da_) | set(db_)) if da_.get(k) != db_.get(k)]
            diffs.append("%s: attrs differ at %s" % (what, [(k, da_.get(k), db_.get(k)) for k in ks[:3]]))
    return diffs


def is_raised(x):
    return isinstance(x, tuple) and len(x) == 2 and isinstance(x[0], str) and x[0] == "raised"


def compare_any(a, b, tol=1e-10, what="", **kw):
    """Compare DataArray / Dataset / list answers, or exceptions recorded as ('raised', TypeName)."""
    if is_raised(a) or is_raised(b):
        if is_raised(a) and is_raised(b) and a == b:
            return []
        return ["%s: %s vs %s" % (what, a if isinstance(a, tuple) else type(a).__name__, b if isinstance(b, tuple) else type(b).__name__)]
    if isinstance(a, (list, tuple)):
        if not isinstance(b, (list, tuple)) or len(a) != len(b):
            return ["%s: list length/type differs" % what]
        out = []
        for i, (x, y) in enumerate(zip(a, b)):
            out += compare_any(x, y, tol, "%s[%d]" % (what, i), **kw)
        return out
    if isinstance(a, xr.Dataset):
        if not isinstance(b, xr.Dataset):
            return ["%s: Dataset vs %s" % (what, type(b).__name__)]
        if set(a.data_vars) != set(b.data_vars):
            return ["%s: variables %s vs %s" % (what, sorted(a.data_vars), sorted(b.data_vars))]
        out = []
        for v in a.data_vars:
            out += compare_da(a[v], b[v], tol, "%s.%s" % (what, v), **kw)
        return out
    if isinstance(a, xr.DataArray):
        return compare_da(a, b, tol, what, **kw)
    if isinstance(a, dict):
        if not isinstance(b, dict) or set(a) != set(b):
            return ["%s: dict keys differ" % what]
        out = []
        for k in a:
            out += compare_any(a[k], b[k], tol, "%s[%s]" % (what, k), **kw)
        return out
    if a != b:
        return ["%s: %r vs %r" % (what, a, b)]
    return []


def deep_equal_input(a, b, what="input"):
    """Exact equality of two user input objects (values bit-equal incl. NaN pattern, coords, attrs, names)."""
    if isinstance(a, (list, tuple)):
        out = []
        if len(a) != len(b):
            return ["%s: list length changed" % what]
        for i, (x, y) in enumerate(zip(a, b)):
            out += deep_equal_input(x, y, "%s[%d]" % (what, i))
        return out
    if a is None:
        return [] if b is None else ["%s: None changed" % what]
    if fp_xr(a) != fp_xr(b):
        if not a.identical(b):
            return ["%s was modified (identical() is False)" % what]
        return ["%s was modified (name/attrs/coords digest differs)" % what]
    return []
