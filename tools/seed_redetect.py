#!/venv/bin/python
"""tools/seed_redetect.py <SEED-ID> [CHECK ...]  -- re-run the quick tier of the given checks (default: the seed's own
property) against a scratch copy of /repo with the kept patch applied, and record the verdict in the seed's meta.json."""
import json, os, shutil, subprocess, sys, tempfile, time
k = sys.argv[1]
checks = sys.argv[2:] or [k[:3]]
d = "/verif/seeded/%s" % k
S = tempfile.mkdtemp(prefix="xrd.", dir="/tmp")
try:
    subprocess.run("rsync -a --exclude .git --exclude docs --exclude tests /repo/ %s/" % S, shell=True, check=True)
    subprocess.run("git apply %s/patch.diff" % d, shell=True, check=True, cwd=S)
    m = json.load(open(d + "/meta.json"))
    for c in checks:
        t0 = time.time()
        e = dict(os.environ, XEOFS_SRC=S, XMC_EVIDENCE_DIR=S + "/_ev", XMC_REPLAY_DIR=S + "/_rp", XMC_SUMMARY="1")
        p = subprocess.run("/verif/check %s quick" % c, shell=True, env=e, cwd="/verif", capture_output=True, text=True)
        o = p.stdout + p.stderr
        sigs = [l[8:].strip()[:220] for l in o.splitlines() if l.startswith("SUMMARY")]
        prev = m["our_checks_quick"].get(c)
        m["our_checks_quick"][c] = dict(exit=p.returncode, detected=p.returncode == 1, wall_s=round(time.time() - t0), n_signatures=len(sigs), signatures=sigs[:6])
        if prev is not None and not prev.get("detected") and p.returncode == 1:
            m["our_checks_quick"][c]["before_extension"] = "missed"
        print(k, c, "detected" if p.returncode == 1 else "exit=%d" % p.returncode, len(sigs), "signatures")
    json.dump(m, open(d + "/meta.json", "w"), indent=1)
finally:
    shutil.rmtree(S, ignore_errors=True)
