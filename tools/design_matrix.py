#!/venv/bin/python
"""Regenerate DESIGN.md section 11.4 (detection matrix) from /verif/seeded/*/meta.json."""
import json, glob
rows=[]
for p in sorted(glob.glob('/verif/seeded/*/meta.json')):
    m=json.load(open(p)); k=p.split('/')[-2]
    det=[c for c,d in m['our_checks_quick'].items() if d['detected']]
    own = k[:3] in det
    note = "" if own or not det else " (not by its own property's check: the break is a %s-type behaviour)" % det[0]
    verdict = ", ".join(det) or "MISSED"
    if m.get('status') == 'retired_equivalent':
        verdict, note = "none, correctly: equivalent change on the current tree (no-false-alarm control)", ""
    rows.append("| %s | %s | %s%s |" % (k, m.get('needs_to_manifest','').replace('|','/'), verdict, note))
head = open('/verif/tools/design_11_4_head.md').read()
tail = open('/verif/tools/design_11_4_tail.md').read()
s=open('/verif/DESIGN.md').read()
rest=''
if '\n### 11.5' in s:
    rest=s[s.index('\n### 11.5'):]
    s=s[:s.index('\n### 11.5')]
if '### 11.4' in s:
    s=s[:s.index('\n### 11.4')]
open('/verif/DESIGN.md','w').write(s.rstrip('\n')+'\n'+head+"\n".join(rows)+"\n"+tail.rstrip('\n')+'\n'+rest)
print(sum('MISSED' in r for r in rows), "missed of", len(rows))
