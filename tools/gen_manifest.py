#!/venv/bin/python
"""Regenerate /verif/MANIFEST.json from the property modules that exist; every other property is listed not_applicable."""
import glob, importlib, json, os, sys
HERE = os.path.dirname(os.path.dirname(os.path.abspath(__file__)))
sys.path[:0] = [HERE, HERE + "/shims"]
props = [json.loads(l) for l in open(HERE + "/properties.jsonl")]
checks, na = [], []
for p in props:
    pid = p["id"]
    f = HERE + "/xmc/props/%s.py" % pid.lower()
    ready = [l.strip() for l in open(HERE + "/tools/ready.txt") if l.strip()]
    if os.path.exists(f) and pid not in ready:
        na.append(dict(property_id=pid, reason="check module exists but is still being validated in this session; not a limit of the technique")); continue
    if not os.path.exists(f):
        na.append(dict(property_id=pid, reason="check not built yet in this session (design in DESIGN.md section 5); not a limit of the technique"))
        continue
    m = importlib.import_module("xmc.props." + pid.lower())
    if getattr(m, "NOT_CLAIMED", None):
        na.append(dict(property_id=pid, reason=m.NOT_CLAIMED)); continue
    checks.append(dict(
        property_id=pid,
        quick_cmd="./check %s quick" % pid,
        thorough_cmd="./check %s thorough" % pid,
        evidence_file="/verif/evidence/%s.json" % pid,
        replay_cmd_template="./check replay {path}",
        engine="xmc",
        level_claimed=dict(category=m.LEVEL, text=getattr(m, "LEVEL_TEXT", m.RULE), design_ref="DESIGN.md section 5, " + pid),
        level_note="; ".join(m.ASSUMPTIONS),
        technique=m.TECHNIQUE,
    ))
man = dict(
    version=1,
    setup_cmd="./check selfcheck",
    hooks=dict(guard="XEOFS_VERIF", enable="no source hooks: checks import /repo/xeofs directly (editable install); XEOFS_VERIF=1 is exported by ./check but read by nothing in /repo",
               baseline_off_cmd="cd /repo && /venv/bin/python -m pytest -ra -q -p no:cacheprovider --timeout=900 --continue-on-collection-errors",
               source_commits=[], add_only=True),
    engines=[dict(name="xmc", path="/verif/xmc", serves_properties=[c["property_id"] for c in checks],
                  kind_free_text="hand-written bounded exhaustive explorers over the real xeofs code: product explorer (P), BFS state-graph explorer (G), controlled dask scheduler (S)")],
    checks=checks,
    not_applicable=na,
    notes="See DESIGN.md. All checks run the real code under /repo (XEOFS_SRC overrides for mutants). Known findings: /verif/known_findings.json.",
)
json.dump(man, open(HERE + "/MANIFEST.json", "w"), indent=1)
print("claimed:", [c["property_id"] for c in checks]); print("not claimed:", [n["property_id"] for n in na])
