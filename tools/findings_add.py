#!/venv/bin/python
"""tools/findings_add.py fixed <PROP> <commit> <what>   |   known <PROP> <id> '<signature json>' <what>"""
import json, sys
p = "/verif/known_findings.json"
d = json.load(open(p))
kind = sys.argv[1]
if kind == "fixed":
    _, _, prop, commit, what = sys.argv
    n = sum(1 for e in d["findings"] if e["property"] == prop) + 1
    d["findings"].append(dict(id="%s-F%d" % (prop, n), property=prop, status="fixed", commit=commit, record="fixed: property=%s %s %s" % (prop, commit, what)))
else:
    _, _, prop, fid, sig, what = sys.argv
    d["findings"].append(dict(id=fid, property=prop, status="known", signature=json.loads(sig), what=what))
json.dump(d, open(p, "w"), indent=1)
