#!/bin/bash
# usage: tools/mut_revert.sh <fix-commit> <ID> [tier]  -- run a check against a scratch copy of /repo with one fix commit reverted
set -e
S=$(mktemp -d /tmp/xrev.XXXXXX)
trap 'rm -rf "$S"' EXIT
rsync -a --exclude .git --exclude tests --exclude docs /repo/ "$S/"
git -C /repo show "$1" -- xeofs | (cd "$S" && patch -R -p1 -s)
shift
XMC_EVIDENCE_DIR="$S/_ev" XMC_REPLAY_DIR="$S/_rp" XEOFS_SRC="$S" /verif/check "$@" 2>&1 | grep -E "^(VIOLATION|KNOWN|VACUOUS|C[0-9]+ |  states|    check)" | head -${MUT_LINES:-6}
