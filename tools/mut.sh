#!/bin/bash
# usage: tools/mut.sh <patch-or-sed-script> <ID> [tier]   -- run a check against a scratch copy of /repo with a patch applied
# If first arg ends in .diff/.patch it is applied with `git apply`; otherwise it is treated as "file::sed-expr".
set -e
S=$(mktemp -d /tmp/xmut.XXXXXX)
trap 'rm -rf "$S"' EXIT
rsync -a --exclude .git --exclude tests --exclude docs /repo/ "$S/"
case "$1" in
  *.diff|*.patch) (cd "$S" && patch -p1 -s < "$1") ;;
  *) f="${1%%::*}"; e="${1#*::}"; sed -i -E "$e" "$S/$f"; (cd /repo && diff -u "$f" "$S/$f" | head -20) || true ;;
esac
shift
XMC_EVIDENCE_DIR="$S/_ev" XMC_REPLAY_DIR="${MUT_REPLAYS:-$S/_rp}" XEOFS_SRC="$S" /verif/check "$@" 2>&1 | grep -E "^(VIOLATION|KNOWN|VACUOUS|C[0-9]+ |  states|    check)" | head -${MUT_LINES:-12}
