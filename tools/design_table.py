#!/venv/bin/python
"""Regenerate DESIGN.md section 11.2 (per property: what was built) from /verif/evidence/*.json and the notes below."""
import json, os
NOTES = {
"C01": "P: `n_modes` runs to min(shape) (zero modes included); tall shapes (40x4, 12x1) added; complex + randomized route: scipy `svds` refuses k = min(shape) (tallied refusal); HilbertEOF reference removes the mean of the imaginary part only; storage kinds: integer (int16..int64, uint8), float32, big-endian f8 (thorough f4-BE, float16) judged at the storage type's accuracy; user weights stored in reverse element order (`wpres=rev`)",
"C02": "P: six case groups (orders, index kinds, list item sample order, coords x names, flags, model level); a name clash with an existing dim is a tallied refusal when xeofs says so; clause `transform_reordered_dims` (fitted preprocessor handed the same data with its dims stored in reverse)",
"C03": "P: layered product (algebra layer x structure layer); clause `mode_selection` (list / reordered / [k] / scalar mode selections x normalized); provenance {refit, deferred, deserialized} in thorough; integer-typed user weights (`wkind`) and unsorted feature coordinates (`forder`) in the structure layer",
"C04": "P: `normalized` and call form {X and Y, X only, Y only} evaluated inside each case; provenances {refit, deferred+compute, deserialised, rotator_reused, model_reused}; sweep `big` (60-sample, 45-56-feature noisy views: lossy default PCA pre-reduction) for multi.CCA, five cross-set classes and two rotators",
"C05": "G: one lattice per (model, new data set): states = (model, subset), transitions = cover edges; coords classes incl. repeats combined with all-NaN samples; `normalized=True` on the base structure in quick",
"C06": "P: reference 'deleted beforehand' is always a plain (time, f) array; a list sample missing in one item only may be refused or treated as deleted",
"C07": "G: nodes are tuples of seven presentation coordinates (order, lat/lon/sample permutation, split, names, samples as one or two dims), depth = number of non-default coordinates (2 quick / 3 thorough); second base configuration with labelled user weights; thorough re-explores the quick graph under PYTHONHASHSEED 1 and 2; complex models compared up to a unit phase, POP up to a unit factor per quantity; wide base (exact solver requested for an inner truncation), `geometric@units` base (standardised fields whose spreads differ by 1e9)",
"C08": "G: one path of length 1-2 per case; tolerance from the measured rounding error of forming the node; per-field option combinations; default float PCA pre-reduction under global factors; `effective_weight` clause per cell; for CPCCA fields with alpha < 1 only direction/fractions/correlations are demanded under a global factor; `UNITS` edges (global 1e-10..1e10), integer-typed data (`store`) and weights (`wstore`), sweep `pre` (options vs numpy-preprocessed matrix for ExtendedEOF(+PCA), HilbertEOF, OPA, POP, penalised SparsePCA, EOFRotator)",
"C09": "P: alpha < 1 without PCA only on fields with non-singular covariance; Y sample labels {same, disjoint, overlapping, reversed}; the normalised accessors are called before anything is read; `illscale` and global `unit` dimensions; prime-length Hilbert pair",
"C10": "P: seven identity families; constructor-parameter sweep with introspection guard and `stored_parameters` clause; complex PCA-all-vs-none compares reconstructions and patterns up to a common phase; the multi-set route is compared within its documented ridge (eps=1e-6) bound; SparsePCA `n_blocks` in {2,3}",
"C11": "P: cross-set 'normalised scores orthonormal' checked as bi-orthonormality; sign and Varimax-criterion clauses on real loadings only; `reuse` dimension (same rotator object fitted twice)",
"C12": "S: LIFO/structural default schedule (11.1); every 1-deviation schedule for EOF (2 layouts), POP, MCA in quick; thorough: EOF/POP/OPA/ExtendedEOF/MCA on four layouts, EOFRotator/CPCCA on one, 2 deviations for EOF single-chunk; Promax deferred rotators, ExtendedEOF with PCA pre-step, a lossy-sketch `solver_kwargs` configuration, a second compute(); deferred rotators compared with the same fixed-iteration rotation in memory; models with lazily derived user weights (`EOF+w`, `MCA+w`) and preprocessing options (`EOF+opts`)",
"C13": "G: histories over {compute, transform, codec direct/nc/json x placeholders}; inputs incl. auxiliary coords on stacked dims, 12-item lists, coordinate-named weights; predict is read before any transform; user attribute values themselves are not compared (the str()/literal_eval codec cannot round-trip them by construction)",
"C14": "G: ten subjects (EOF, EOF with two sample dims, SparsePCA on a lossy randomized sketch, POP, OPA, CPCCA, MCA with n_pca_modes='all', EOF+Rotator, MCA+Rotator, EOF+Bootstrapper); op `accessors:normalized`; bootstrap members of rank-deficient resamples compared only on modes with variance; subjects added since: EOFlist, EOFlist2s, MCA2s (two sample dims), multiCCA2s",
"C15": "P: six case kinds (threshold, solvers incl. antisymmetric exact-tie fields, kwargs, dask_lossy, model_seed, model_frac); tall 80x8 matrices with one decade per mode (`steep`)",
"C16": "P: added clause transform(S P^H) = S transform_components(P)^H (the only clause that sees a swapped exponent sign in both pattern maps); units coordinate; integer X; tall PCA shapes 80x8, 120x12",
"C17": "fault enumeration: 27 fault kinds x entry points (each also with `normalized=True` where the switch exists); a fault is presented to the same fitted object as its valid baseline call; controls (alpha=1.5, extra variable, extra score dim) must be accepted; sample-count mismatch whose surplus samples are entirely NaN; broadcastable non-xarray weights",
"C18": "P: feedback matrix built in feature space from an independent PCA reduction; damped and growing oscillators; `units` (ill-scaled variables), `gunit` (global tiny/huge units), provenance and two-sample-dim layouts",
"C19": "P: data classes white / ar_mix / ar_mix_noise / osc_noise / cycle_dom (PC variances spanning 1e8-1e10); provenance {fresh, refit}; argument types, time-label kinds, long lag windows, global `unit`",
"C20": "P: RNG replay is a fast path, otherwise all with-replacement resamples are searched; provenance {fresh, refit_same, refit_other}; model classes EOF, ComplexEOF, HilbertEOF (Hermitian clauses)",
}
rows = ["| ID | quick: cases / non-trivial / wall | states / transitions (model checking) | what was built, and what deviates from section 5 |", "|---|---|---|---|"]
for i in range(1, 21):
    pid = "C%02d" % i
    p = "/verif/evidence/%s.json" % pid
    ev = json.load(open(p)) if os.path.exists(p) else None
    if ev:
        c = ev["coverage"]
        a = "%d / %d / %.0f s" % (c.get("evaluations", 0), c.get("distinct_nontrivial", 0), ev["wall_s"])
        b = "%s / %s" % (c.get("states"), c.get("transitions")) if "states" in c else "-"
    else:
        a, b = "?", "?"
    rows.append("| %s | %s | %s | %s |" % (pid, a, b, NOTES[pid]))
txt = "\n### 11.2 Per property: what was built\n\nCounts and wall times are read from the committed evidence files (quick tier, VERIF_SEED=0, 16 cores); `cases` are\nexecutions of real xeofs code. This table is generated by `tools/design_table.py`.\n\n" + "\n".join(rows) + "\n"
s = open("/verif/DESIGN.md").read()
a = s.index("\n### 11.2"); b = s.index("\n### 11.3")
open("/verif/DESIGN.md", "w").write(s[:a] + txt + s[b:])
print("ok")
