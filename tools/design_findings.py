#!/venv/bin/python
"""Regenerate DESIGN.md section 11.3 (defects found, fixes, known findings) from /verif/known_findings.json and git log."""
import json, subprocess
d = json.load(open('/verif/known_findings.json'))
subj = {}
for line in subprocess.run(['git', '-C', '/repo', 'log', '--format=%h %s'], capture_output=True, text=True).stdout.splitlines():
    h, s = line.split(' ', 1)
    subj[h] = s
fixed = [e for e in d['findings'] if e['status'] == 'fixed']
known = [e for e in d['findings'] if e['status'] == 'known']
out = []
out.append("\n### 11.3 Defects found in xeofs and what was done\n")
out.append("Every entry was reproduced against the real code by the check of the property named, triaged per 2.6 and - where a small,\n"
           "safe repair exists - repaired by ONE minimal `fix:` commit in /repo (the unedited test suite passes with all of them:\n"
           "1781 passed). This table is generated from `/verif/known_findings.json` (`tools/design_findings.py`); `git -C /repo log`\n"
           "has the full commit messages. Reverting a fix makes the check of its property fire again (11.4).\n")
out.append("| property | fix commit | what failed (input / history) |\n|---|---|---|")
for e in fixed:
    rec = e['record'].split(' ', 3)[3] if e['record'].count(' ') >= 3 else e['record']
    h = e['commit']
    out.append("| %s | `%s` %s | %s |" % (e['property'], h, subj.get(h, '').replace('fix: ', '').replace('|', '/'), rec.replace('|', '/')))
out.append("\n%d repaired defects. Recorded as **known findings** (no small, safe repair; matched by signature, anything else of the same\nproperty is still a VIOLATION):\n" % len(fixed))
out.append("| id | property | signature | what fails |\n|---|---|---|---|")
for e in known:
    out.append("| %s | %s | `%s` | %s |" % (e['id'], e['property'], json.dumps(e['signature'], sort_keys=True).replace('|', '/'), e['what'].replace('|', '/')))
txt = "\n".join(out) + "\n"
s = open('/verif/DESIGN.md').read()
a = s.index('\n### 11.3')
b = s.index('\n### 11.4')
open('/verif/DESIGN.md', 'w').write(s[:a] + txt + s[b:])
print(len(fixed), 'fixed,', len(known), 'known')
