#!/venv/bin/python
"""tools/seed_verify.py <PROP> <k> <srcdir> [--checks C01,C07] [--skip-tests]

Confirm one adversarial change delivered by a sub-agent (patch<k>.diff + demo<k>.py in <srcdir>):
  1. it applies to a scratch copy of /repo's working tree,
  2. the repository's own test suite still passes with it,
  3. the demonstration passes on /repo and fails on the patched copy,
  4. then run our check(s) against the patched copy and record whether they catch it.
Keeps it as /verif/seeded/<PROP>-<k>/ (patch.diff, demo.py, meta.json). The scratch copy is removed afterwards.
"""
import json
import os
import re
import shutil
import subprocess
import sys
import tempfile
import time


def sh(cmd, env=None, cwd=None, timeout=3600):
    e = dict(os.environ)
    e.update(env or {})
    p = subprocess.run(cmd, shell=True, env=e, cwd=cwd, capture_output=True, text=True, timeout=timeout)
    return p.returncode, p.stdout + p.stderr


def main():
    prop, k, src = sys.argv[1], sys.argv[2], sys.argv[3]
    checks = [prop]
    skip_tests = "--skip-tests" in sys.argv
    as_k = k
    for a in sys.argv[4:]:
        if a.startswith("--checks"):
            checks = a.split("=", 1)[1].split(",")
        if a.startswith("--as="):
            as_k = a.split("=", 1)[1]
    patch = os.path.join(src, "patch%s.diff" % k)
    demo = os.path.join(src, "demo%s.py" % k)
    notes = os.path.join(src, "notes.md")
    out = "/verif/seeded/%s-%s" % (prop, as_k)
    S = tempfile.mkdtemp(prefix="xseed.", dir="/tmp")
    meta = dict(property=prop, index=int(as_k), source="independent sub-agent given only the property text and a scratch worktree", verified_at=time.strftime("%Y-%m-%d %H:%M:%S"))
    try:
        sh("rsync -a --exclude .git --exclude docs /repo/ %s/" % S)
        rc, o = sh("patch -p1 -s < %s" % patch, cwd=S)
        meta["applies"] = rc == 0
        if rc != 0:
            meta["error"] = o[-500:]
            print(json.dumps(meta, indent=1))
            return 2
        env = {"PYTHONPATH": "%s:/tmp/xshim" % S, "PYTHONHASHSEED": "0"}
        rc, o = sh("/venv/bin/python -c 'import xeofs; print(xeofs.__file__)'", env=env)
        assert S in o, o
        if skip_tests and os.path.exists(os.path.join(out, "meta.json")):
            prev = json.load(open(os.path.join(out, "meta.json")))
            if "tests_with_patch" in prev:
                meta["tests_with_patch"] = prev["tests_with_patch"]
        if not skip_tests:
            t0 = time.time()
            # the baseline environment: no statsmodels shim, tests/models/cross cannot be collected (as in BASELINE.json)
            rc, o = sh("/venv/bin/python -m pytest -q -p no:cacheprovider --continue-on-collection-errors -n 6 -W ignore tests 2>&1 | tail -5", env={"PYTHONPATH": S, "PYTHONHASHSEED": "0"}, cwd=S, timeout=3600)
            m = re.search(r"(\d+) passed", o)
            f = re.search(r"(\d+) failed", o)
            meta["tests_with_patch"] = dict(passed=int(m.group(1)) if m else 0, failed=int(f.group(1)) if f else 0, wall_s=round(time.time() - t0), cmd="pytest -q -p no:cacheprovider --continue-on-collection-errors -n 6 tests (PYTHONPATH=<patched copy>, no shim: baseline environment)")
        rc0, o0 = sh("/venv/bin/python %s" % demo, env={"PYTHONPATH": "/repo:/tmp/xshim", "PYTHONHASHSEED": "0"}, cwd="/tmp", timeout=600)
        rc1, o1 = sh("/venv/bin/python %s" % demo, env=env, cwd="/tmp", timeout=600)
        meta["demo"] = dict(rc_unpatched=rc0, rc_patched=rc1, patched_output_tail=o1.strip()[-400:])
        det = {}
        for c in checks:
            t0 = time.time()
            rc, o = sh("/verif/check %s quick" % c, env={"XEOFS_SRC": S, "XMC_EVIDENCE_DIR": S + "/_ev", "XMC_REPLAY_DIR": S + "/_rp", "XMC_SUMMARY": "1"}, cwd="/verif", timeout=7200)
            sigs = [l[8:].strip()[:220] for l in o.splitlines() if l.startswith("SUMMARY")]
            det[c] = dict(exit=rc, detected=rc == 1, wall_s=round(time.time() - t0), n_signatures=len(sigs), signatures=sigs[:6])
        meta["our_checks_quick"] = det
        meta["needs_to_manifest"] = ""
        if os.path.exists(notes):
            meta["agent_notes"] = open(notes).read()[:6000]
        valid = meta.get("demo", {}).get("rc_unpatched") == 0 and meta.get("demo", {}).get("rc_patched") != 0 and ("tests_with_patch" in meta and meta["tests_with_patch"]["failed"] == 0 and meta["tests_with_patch"]["passed"] >= 1781)
        meta["valid_seed"] = bool(valid)
        os.makedirs(out, exist_ok=True)
        shutil.copy(patch, os.path.join(out, "patch.diff"))
        shutil.copy(demo, os.path.join(out, "demo.py"))
        json.dump(meta, open(os.path.join(out, "meta.json"), "w"), indent=1)
        k = as_k
        print("%s-%s valid=%s tests=%s demo=(%s,%s) detected=%s" % (prop, k, valid, meta.get("tests_with_patch"), rc0, rc1, {c: d["detected"] for c, d in det.items()}))
    finally:
        shutil.rmtree(S, ignore_errors=True)
    return 0


if __name__ == "__main__":
    sys.exit(main())
