#!/bin/bash
# usage: tools/run_all.sh <tier> <seed> [ids...]   -- run every ready check, report exit codes; evidence goes to a scratch dir unless KEEP_EVIDENCE=1
tier=${1:-quick}; seed=${2:-0}; shift 2
ids=${@:-$(cat /verif/tools/ready.txt)}
[ -z "$KEEP_EVIDENCE" ] && export XMC_EVIDENCE_DIR=$(mktemp -d /tmp/xev.XXXXXX) XMC_REPLAY_DIR=/tmp/xrp_$seed
for id in $ids; do
  out=$(VERIF_SEED=$seed /verif/check $id $tier 2>&1); rc=$?
  echo "== $id $tier seed=$seed rc=$rc $(echo "$out" | grep -E "^$id " | sed -E 's/outcomes=.*wall/wall/')"
  [ $rc -ne 0 ] && echo "$out" | grep -E "^(VIOLATION|VACUOUS|    check|harness)" | head -8
  echo "$out" | grep -E "^KNOWN" | cut -c1-120
done
[ -z "$KEEP_EVIDENCE" ] && rm -rf "$XMC_EVIDENCE_DIR"
