#!/bin/bash
# tools/cov.sh <outdir> <tier> <ID>...  -- run checks under coverage.py (line coverage of /repo/xeofs, all pool workers),
# to find the parts of xeofs no check executes (alphabet gaps). Not a deciding step of any check; evidence goes to <outdir>.
out=$1; tier=$2; shift 2
mkdir -p $out
cat > $out/rc <<EOR
[run]
source = /repo/xeofs
parallel = true
concurrency = multiprocessing
sigterm = true
data_file = $out/.coverage
EOR
export XEOFS_SRC=/repo PYTHONPATH=/repo:/verif:/verif/shims PYTHONHASHSEED=0 OMP_NUM_THREADS=1 OPENBLAS_NUM_THREADS=1 MKL_NUM_THREADS=1
export PYTHONDONTWRITEBYTECODE=1 XEOFS_VERIF=1 TQDM_DISABLE=1 COVERAGE_CORE=sysmon
export XMC_EVIDENCE_DIR=$out/ev XMC_REPLAY_DIR=$out/rp XMC_WORKERS=${XMC_WORKERS:-6}
cd /verif
for id in "$@"; do
  /venv/bin/python -W ignore -m coverage run --rcfile=$out/rc -m xmc.run $id $tier > $out/$id.log 2>&1
  echo "$id rc=$? $(grep -E "^$id " $out/$id.log | cut -c1-150)"
  (cd $out && /venv/bin/python -m coverage combine --rcfile=$out/rc -q --keep >/dev/null 2>&1; mkdir -p parts; mv .coverage.* parts/ 2>/dev/null; mv .coverage cov.$id 2>/dev/null; rm -rf parts)
done
