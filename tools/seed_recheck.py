#!/venv/bin/python
"""tools/seed_recheck.py [ids...]  -- for every kept seed: patch still applies to the current /repo working tree, the
demonstration still exits 0 on /repo and non-zero on the patched copy. Prints one line per seed; exit 1 if any differs.
(The repository's own test suite is not re-run here: tools/seed_verify.py did that when the seed was accepted.)"""
import glob, json, os, shutil, subprocess, sys, tempfile
from concurrent.futures import ThreadPoolExecutor

def sh(cmd, env=None, cwd=None):
    e = dict(os.environ); e.update(env or {})
    p = subprocess.run(cmd, shell=True, env=e, cwd=cwd, capture_output=True, text=True, timeout=1800)
    return p.returncode, p.stdout + p.stderr

def one(d):
    k = os.path.basename(d.rstrip('/'))
    S = tempfile.mkdtemp(prefix="xrc.", dir="/tmp")
    try:
        sh("rsync -a --exclude .git --exclude docs --exclude tests /repo/ %s/" % S)
        rc, o = sh("git apply %s/patch.diff" % d, cwd=S)
        if rc != 0:
            rc, o = sh("patch -p1 -s < %s/patch.diff" % d, cwd=S)
            if rc != 0:
                return k, "NOAPPLY", None, None
        env0 = {"PYTHONPATH": "/repo:/verif/shims", "PYTHONHASHSEED": "0", "TQDM_DISABLE": "1"}
        env1 = {"PYTHONPATH": "%s:/verif/shims" % S, "PYTHONHASHSEED": "0", "TQDM_DISABLE": "1"}
        r0, _ = sh("/venv/bin/python %s/demo.py" % d, env=env0, cwd=S)
        r1, _ = sh("/venv/bin/python %s/demo.py" % d, env=env1, cwd=S)
        st = json.load(open(d + "/meta.json")).get("status")
        if st in ("retired_equivalent", "demo_neutralised"):
            # a later fix in /repo neutralised the demonstration's trigger (see meta.json note): the demo must now pass on both
            return k, "ok" if (r0 == 0 and r1 == 0) else "DEMO", r0, r1
        return k, "ok" if (r0 == 0 and r1 != 0) else "DEMO", r0, r1
    finally:
        shutil.rmtree(S, ignore_errors=True)

ids = sys.argv[1:]
ds = sorted(glob.glob('/verif/seeded/*/'))
if ids:
    ds = [d for d in ds if os.path.basename(d.rstrip('/')) in ids]
bad = 0
with ThreadPoolExecutor(6) as ex:
    for k, st, r0, r1 in ex.map(one, ds):
        if st != "ok":
            bad += 1
        print(k, st, r0, r1, flush=True)
print("seeds=%d not_ok=%d" % (len(ds), bad))
sys.exit(1 if bad else 0)
