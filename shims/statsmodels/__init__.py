"""Import shim: xeofs.cross needs `statsmodels` only for multiple-testing correction
(never used by any check: correction=None everywhere). See DESIGN.md 2.3."""
__version__ = "0.0-verif-shim"
