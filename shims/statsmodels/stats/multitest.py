def multipletests(*args, **kwargs):
    raise NotImplementedError("statsmodels is not installed; /verif/shims provides only an import shim")
